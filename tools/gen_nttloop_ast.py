#!/usr/bin/env python3
"""Translator: clang's typed AST of the LOOP STRUCTURE of NFLlib's scalar transform -> lean/NflVerif/Generated/NttLoopAst.lean

Translated from the CURRENT text of $REPO/include/nfl/algos.hpp and core.hpp, for T = uint16_t, uint32_t, uint64_t, with the
template constant `degree` kept as a PARAMETER (poly<T,16,1> and poly<T,64,1> are both translated and must give the same text):
  ntt_loop_run_uW   nfl::ops::ntt_loop<simd::serial, poly, T>::run(x, wtab, winvtab, p)      (layer / block / butterfly loops,
                    the functor call `body(&x[..], &x[..], &winvtab[..], &wtab[..])`, the advance of the table pointers, the result)
  ntt_uW            nfl::poly<T,Degree,1>::core::ntt(x, wtab, winvtab, p)   (x_orig = x, degree==1 / degree==2 dispatch, call of
                    ntt_loop::run, the `for (r...; r++, x += 4)` loop, the NTT_STRICTMOD loop over x_orig[i])
  inv_ntt_uW        nfl::poly<T,Degree,1>::core::inv_ntt(x, inv_wtab, inv_winvtab, invK, p)  (local array y, permut, ntt, permut)
  NttLoop.static_log2   nfl::static_log2<N>::value (meta.hpp), read off the instantiated chains (gen_crt_ast.translate_log2)
Reading of the C++ (semantics: lean/NflVerif/Model/CSemLoop.lean + CSem.lean):
  * a pointer is (base array : List Nat, offset : Nat); `p[e]` is the cell offset+e; `p += e` updates the offset; a pointer
    passed by reference (`const value_type* &wtab`) returns its new offset to the caller; distinct pointer parameters are
    distinct arrays (TRUSTED); the uninitialised local array `y` of inv_ntt is a parameter (its declared extent is reported);
  * the straight-line blocks are NOT re-translated: the functor call and the bodies of the degree-2 block / last-two-layers
    loop / NTT_STRICTMOD loop are applications of Generated/NttAst.lean's `ntt_body_uW`, `ntt_deg2_uW`, `ntt_last2_uW`,
    `ntt_final_uW` (tools/gen_ntt_ast.py, whose Block objects give the cells read and written) to the cells at the computed
    indices, the results written back in the order the block writes them;
  * `for (size_t v = a; v < b; v += s)` (a, b not assigned in the body, v only by the header) = CSemLoop.forRange a b s over
    the tuple of the variables the body assigns; extra header increments (`x += 4`) are executed after the body;
  * `if (c) return …;` / `if (c) { …; return …; }` = `if c then <state> else <rest>`; `permut<degree>::compute(y, x)` is
    `permut_compute degree y y_o x x_o` of Generated/PermutAst.lean (tools/gen_permut_ast.py), mapped BY NAME;
  * size_t arithmetic is CSem's 64-bit arithmetic; `1 << w` is an `int` shift by a run-time count (CSemLoop.shlS32v).
BOUNDS: the translated loop nest is then RUN on the index expressions alone (no data) for every degree 2^1 … 2^15: every access
to x / y must fall in [0, degree) (y: its declared extent), every table access in [0, degree-1) (the words core::initialize
writes), every shift count below the width without overflow, every loop bound + step below 2^64 — otherwise the translator
stops, naming the expression.
Unknown node kind / callee / type => non-zero exit naming kind and file:line.  The last line of stdout is a JSON summary.
Usage: gen_nttloop_ast.py [--repo DIR] [--out FILE] [--keep]
"""
import hashlib, json, os, re, sys

HERE = os.path.dirname(os.path.abspath(__file__))
sys.path.insert(0, HERE)
import gen_ops_ast as g
import gen_ntt_ast as gn
import gen_crt_ast as gc
from gen_ops_ast import Unsupported, fail, ctype

OUT = os.path.join(g.VERIF, "lean", "NflVerif", "Generated", "NttLoopAst.lean")
DEGREES = [16, 64]
CHECK_K = list(range(1, 16))
U64, S32, BOOL = ("U", 64), ("S", 32), ("B", 1)


class Bounds(Exception):
    pass


def unparen(n):
    while n.get("kind") in ("ParenExpr", "ExprWithCleanups"):
        n = n["inner"][0]
    return n


def wrapS(v):
    v %= 2 ** 32
    return v - 2 ** 32 if v >= 2 ** 31 else v


class E:
    """translated prvalue: Lean text, C type, python evaluator env -> value (None: a data value, never evaluated)"""

    def __init__(self, s, t, ev=None, atom=False):
        self.s, self.t, self.ev, self.atom = s, t, ev, atom

    def p(self):
        return self.s if self.atom else "(" + self.s + ")"


class Ptr:
    def __init__(self, base, off, writable, byref=False):
        self.base, self.off, self.writable, self.byref = base, off, writable, byref


def proj(name, i, n):
    """i-th component of the n-tuple `name` (right-nested pairs)"""
    if n == 1:
        return name
    return name + ".2" * i + (".1" if i < n - 1 else "")


class LFn:
    def __init__(self, tr, m, fname, suf, w, deg):
        self.tr, self.m, self.fname, self.suf, self.w, self.deg = tr, m, fname, suf, w, deg
        self.lean_name = "%s_%s" % (fname, suf)
        self.ints, self.ptrs, self.functors = {}, {}, {}
        self.declared = []              # lean variable names in scope, in order
        self.wstack = []
        self.prelude, self.pre_acts, self.hoisted = [], [], {}
        self.blocks = {}                # AST node id -> (gen_ntt_ast Block, ivar decl or None)
        self.vparams, self.arrays, self.pparams = [], [], []
        self.nodes = 0
        self.ret_t = None
        self.retvar = None

    # ---------- helpers
    def count(self, n):
        self.nodes += 1
        self.tr.kinds[n.get("kind")] = self.tr.kinds.get(n.get("kind"), 0) + 1

    def src(self, n):
        return "%s:%s  %s" % (self.tr.short(n.get("_file")), n.get("_line"), self.tr.source_line(n.get("_file"), n.get("_line")))

    def new_name(self, decl, name=None):
        name = name or decl.get("name")
        if not name or not re.fullmatch(r"[A-Za-z_][A-Za-z0-9_]*", name) or name in g.LEAN_KEYWORDS or name in ("st", "o", "degree", "rr"):
            fail(decl, "unusable identifier %r" % name)
        if name in self.declared:
            fail(decl, "two C++ variables named %r in scope (shadowing is not translated)" % name)
        self.declared.append(name)
        return name

    def wrote(self, name):
        for s in self.wstack:
            s.add(name)

    def site(self, n, op, cond):
        s = {"fn": self.lean_name, "file": self.tr.short(n.get("_file")), "line": n.get("_line"), "op": op, "defined_if": cond}
        if s not in self.tr.shift_sites:
            self.tr.shift_sites.append(s)

    # ---------- integer expressions
    def convert(self, v, to, n):
        if v.t == to:
            return v
        ev = v.ev
        if v.t[0] == "U" and to[0] == "U":
            return E("CSem.castU %d %s" % (to[1], v.p()), to, lambda env: ev(env) % 2 ** to[1])
        if v.t == S32 and to[0] == "U":
            return E("CSem.castSU %d %s" % (to[1], v.p()), to, lambda env: ev(env) % 2 ** to[1])
        if v.t[0] == "U" and to == S32:
            return E("CSem.castUS %d %s" % (v.t[1], v.p()), to, lambda env: wrapS(ev(env)))
        fail(n, "conversion %s -> %s" % (v.t, to))

    def symbolic(self, n):
        """DeclRefExpr to something that is not a local: degree, a static constexpr member, static_log2<degree>::value"""
        rd = n.get("referencedDecl", {})
        d = self.tr.byid.get(rd.get("id"))
        par = (d or {}).get("_parent") or {}
        name = rd.get("name")
        if d is None or d.get("kind") != "VarDecl" or par.get("kind") != "ClassTemplateSpecializationDecl":
            fail(n, "reference to %s %r" % (rd.get("kind"), name))
        a = gn.targs(par)
        if par.get("name") == "poly" and name == "degree":
            if a != [self.tr.cname[self.suf], self.deg, 1] or ctype(n) != U64:
                fail(n, "`degree` of another instantiation %r" % (a,))
            return E("degree", U64, lambda env: env["degree"], atom=True)
        if par.get("name") == "static_log2" and name == "value":
            if len(a) != 1 or int(a[0]) % 2 ** 64 != self.deg or ctype(n) != U64:
                fail(n, "static_log2<%r>::value is not static_log2<degree>::value" % (a,))
            self.tr.log2_used.add(self.deg)
            return E("NttLoop.static_log2 degree", U64, lambda env: env["degree"].bit_length() - 1)
        if d.get("constexpr") and d.get("storageClass") == "static":
            if d["id"] not in self.hoisted:
                init = [c for c in d.get("inner", []) if "kind" in c]
                if len(init) != 1:
                    fail(d, "static constexpr member without a single initialiser")
                self.count(d)
                v = self.expr(init[0])
                if v.t != ctype(d):
                    fail(d, "initialiser type")
                nm = self.new_name(d)
                self.prelude += ["  -- %s" % self.src(d), "  let %s := %s" % (nm, v.s)]
                ev = v.ev

                def act(env, nm=nm, ev=ev):
                    env[nm] = ev(env)
                self.pre_acts.append(act)
                self.hoisted[d["id"]] = (nm, v.t)
            nm, t = self.hoisted[d["id"]]
            return E(nm, t, lambda env: env[nm], atom=True)
        fail(n, "reference to the global %r" % name)

    def load(self, n):
        n = unparen(n)
        if n.get("kind") != "DeclRefExpr":
            fail(n, "unknown lvalue")
        self.count(n)
        i = n.get("referencedDecl", {}).get("id")
        if i in self.ints:
            nm, t, data = self.ints[i]
            if ctype(n) != t:
                fail(n, "type of the reference differs from the declaration")
            return E(nm, t, None if data else (lambda env: env[nm]), atom=True)
        if i in self.ptrs or i in self.functors:
            fail(n, "use of a pointer / functor object as a value")
        return self.symbolic(n)

    def expr(self, n):
        k = n.get("kind")
        self.count(n)
        if k in ("ParenExpr", "ExprWithCleanups", "ConstantExpr"):
            return self.expr(n["inner"][0])
        if k == "IntegerLiteral":
            c = int(n["value"])
            return E(str(c), ctype(n), lambda env: c, atom=True)
        if k == "ImplicitCastExpr":
            ck = n.get("castKind")
            if ck == "LValueToRValue":
                v = self.load(n["inner"][0])
                if v.t != ctype(n):
                    fail(n, "LValueToRValue changes the type")
                return v
            if ck == "NoOp":
                return self.expr(n["inner"][0])
            if ck == "IntegralCast":
                return self.convert(self.expr(n["inner"][0]), ctype(n), n)
            fail(n, "cast kind %r" % ck)
        if k == "BinaryOperator":
            op = n.get("opcode")
            a, b = self.expr(n["inner"][0]), self.expr(n["inner"][1])
            t = ctype(n)
            if a.ev is None or b.ev is None:
                fail(n, "arithmetic on a data value in the loop structure")
            ae, be = a.ev, b.ev
            if op in ("==", "<", "<=", ">", ">=", "!="):
                if t != BOOL or a.t != U64 or b.t != U64:
                    fail(n, "comparison %s outside size_t" % op)
                nm = g.Fn.CMP[op]
                f = {"==": int.__eq__, "<": int.__lt__, "<=": int.__le__, ">": int.__gt__, ">=": int.__ge__, "!=": int.__ne__}[op]
                return E("CSem.%sU %s %s" % (nm, a.p(), b.p()), BOOL, lambda env: f(ae(env), be(env)))
            if op == "<<" and t == S32 and a.t == S32 and b.t[0] == "U":
                self.site(n, "int << (run-time count)", "count < 32 and the result fits `int`")

                def ev(env, n=n):
                    x, s = ae(env), be(env)
                    if not (0 <= s < 32) or not (0 <= x and x * 2 ** s < 2 ** 31):
                        raise Bounds("undefined shift %d << %d in `int` at %s (degree %d)" % (x, s, self.src(n), env["degree"]))
                    return x * 2 ** s
                return E("CSemLoop.shlS32v %s %s" % (a.p(), b.p()), S32, ev)
            if op == ">>" and t == U64 and a.t == U64 and b.t[0] == "U":
                self.site(n, "size_t >> (run-time count)", "count < 64")

                def ev(env, n=n):
                    x, s = ae(env), be(env)
                    if not (0 <= s < 64):
                        raise Bounds("undefined shift by %d of a size_t at %s (degree %d)" % (s, self.src(n), env["degree"]))
                    return x >> s
                return E("CSem.shrU 64 %s %s" % (a.p(), b.p()), U64, ev)
            if t != U64 or a.t != U64 or b.t != U64:
                fail(n, "operator %r at types %s %s -> %s (only size_t arithmetic is translated here)" % (op, a.t, b.t, t))
            if op in ("+", "-", "*"):
                f = {"+": int.__add__, "-": int.__sub__, "*": int.__mul__}[op]
                return E("CSem.%s 64 %s %s" % (g.Fn.OPS_U[op], a.p(), b.p()), U64, lambda env: f(ae(env), be(env)) % 2 ** 64)
            if op == "/":
                def ev(env, n=n):
                    y = be(env)
                    if y == 0:
                        raise Bounds("division by zero at %s (degree %d)" % (self.src(n), env["degree"]))
                    return ae(env) // y
                return E("CSem.divU 64 %s %s" % (a.p(), b.p()), U64, ev)
            fail(n, "binary operator %r" % op)
        fail(n, "unknown expression")

    # ---------- pointers
    def ptr_arg(self, n):
        """pointer-valued argument expression: plain value of a pointer variable / decayed local array / &p[e]"""
        n0 = n
        n = unparen(n)
        while n.get("kind") == "ImplicitCastExpr" and n.get("castKind") in ("NoOp", "LValueToRValue", "ArrayToPointerDecay"):
            self.count(n)
            n = unparen(n["inner"][0])
        if n.get("kind") == "DeclRefExpr" and n.get("referencedDecl", {}).get("id") in self.ptrs:
            self.count(n)
            p = self.ptrs[n["referencedDecl"]["id"]]
            return p, p.off, (lambda env, o=p.off: env[o]), p
        if n.get("kind") == "UnaryOperator" and n.get("opcode") == "&":
            self.count(n)
            a = unparen(n["inner"][0])
            if a.get("kind") != "ArraySubscriptExpr":
                fail(a, "address of something that is not p[e]")
            p, s, ev = self.cell_index(a)
            return p, s, ev, None
        fail(n0, "pointer expression (only a pointer variable, a local array or &p[e] is translated)")

    def cell_index(self, a):
        """ArraySubscriptExpr -> (Ptr, lean text of the absolute index, evaluator)"""
        self.count(a)
        base, idx = a["inner"]
        p, s, ev, _ = self.ptr_arg(base)
        i = self.expr(idx)
        if i.t != U64 or i.ev is None:
            fail(idx, "array index that is not a size_t expression of the loop variables")
        ie = i.ev
        return p, "%s + %s" % (s, i.p()), (lambda env: ev(env) + ie(env))

    def access(self, env, p, idx, what, n):
        ext = env["__ext"][p.base]
        env["__n"][0] += 1
        if not (0 <= idx < ext):
            raise Bounds("%s of %s[%d] outside [0, %d) at %s (degree %d)" % (what, p.base, idx, ext, self.src(n), env["degree"]))

    # ---------- application of a gen_ntt_ast block
    def apply_block(self, b, ptrmap, pval, n, ind, ivar=None):
        """b: Block; ptrmap: pointer name of the block -> (Ptr, lean offset text, evaluator); pval: Lean text for the value
        parameters; returns (lines, act)"""
        pad = "  " * ind
        lets = [l.strip() for l in b.body_lines if l.strip().startswith("let ") and "_out :=" in l]
        order = [l.split()[1] for l in lets]
        if order != [c["name"] + "_out" for _, c in b.writes]:
            fail(n, "block %s writes its cells in the order %s, not in the order of its result tuple" % (b.lean_name, order))

        def idx_of(key):
            ptr, i = key
            if ptr not in ptrmap:
                fail(n, "block %s uses the pointer %r which is not bound here" % (b.lean_name, ptr))
            p, s, ev = ptrmap[ptr]
            if isinstance(i, int):
                return p, "%s + %d" % (s, i), (lambda env: ev(env) + i)
            if ivar is None or i != ivar[0]:
                fail(n, "block %s indexes with %r" % (b.lean_name, i))
            return p, "%s + %s" % (s, ivar[0]), (lambda env: ev(env) + env[ivar[0]])
        if len(b.vparams) != len(pval):
            fail(n, "value parameters of block %s" % b.lean_name)
        reads = [idx_of(k) for k, _ in b.reads]
        writes = [idx_of(k) for k, _ in b.writes]
        for p, _, _ in writes:
            if not p.writable:
                fail(n, "block %s writes through the read-only pointer into %s" % (b.lean_name, p.base))
        args = pval + ["(CSemLoop.rd %s (%s))" % (p.base, s) for p, s, _ in reads]
        lines = ["%s-- %s   … block `%s` of Generated/NttAst.lean on the cells %s" % (
            pad, self.src(n), b.lean_name, ", ".join("%s[%s]" % k for k, _ in b.reads)),
                 "%slet o := %s %s" % (pad, b.lean_name, " ".join(args))]
        for j, (p, s, _) in enumerate(writes):
            lines.append("%slet %s := CSemLoop.wr %s (%s) %s" % (pad, p.base, p.base, s, proj("o", j, len(writes))))
            self.wrote(p.base)

        def act(env):
            for p, _, ev in reads:
                self.access(env, p, ev(env), "read", n)
            ws = [ev(env) for _, _, ev in writes]
            for (p, _, _), i in zip(writes, ws):
                self.access(env, p, i, "write", n)
            bases = [(p.base, i) for (p, _, _), i in zip(writes, ws)]
            if len(set(bases)) != len(bases):
                raise Bounds("block %s writes one cell twice (%s) at %s (degree %d)" % (b.lean_name, bases, self.src(n), env["degree"]))
        return lines, act

    # ---------- statements
    def result_names(self):
        r = [p.base for p in self.pparams if p.writable and p.base in self.fn_written]
        r += [p.off for p in self.pparams if p.byref]
        return r

    def stmts(self, lst, ind):
        """-> (lines, act); lines end with the function's result expression iff the list ends in a return (else no result line)"""
        pad = "  " * ind
        out, acts = [], []

        def seq(env):
            for a in acts:
                if a(env) == "ret":
                    return "ret"
        for pos, s in enumerate(lst):
            k = s.get("kind")
            self.count(s)
            if k == "NullStmt":
                continue
            if k == "DeclStmt":
                for d in s["inner"]:
                    self.count(d)
                    dk = d.get("kind")
                    if dk in ("TypeAliasDecl", "TypedefDecl", "StaticAssertDecl"):
                        continue
                    if dk != "VarDecl" or d.get("storageClass"):
                        fail(d, "declaration")
                    l, a = self.var_decl(d, s, ind)
                    out += l
                    if a:
                        acts.append(a)
                continue
            if k == "ForStmt":
                l, a = self.for_stmt(s, ind)
                out += l
                acts.append(a)
                continue
            if k == "IfStmt":
                parts = s["inner"]
                if s.get("hasInit") or s.get("hasVar") or s.get("isConstexpr") or len(parts) != 2:
                    fail(s, "if statement shape (only `if (c) return` / `if (c) { …; return }` is translated)")
                c = self.expr(parts[0])
                if c.t != BOOL or c.ev is None:
                    fail(parts[0], "condition")
                br = parts[1]
                blst = br.get("inner", []) if br.get("kind") == "CompoundStmt" else [br]
                if br.get("kind") == "CompoundStmt":
                    self.count(br)
                if not blst or blst[-1].get("kind") != "ReturnStmt":
                    fail(s, "if statement whose branch does not end in a return")
                mark = len(self.declared)
                if s["id"] in self.blocks:
                    b, _ = self.blocks[s["id"]]
                    l1, a1 = self.apply_block(b, self.block_ptrs(b, s), self.block_vals(b, s), blst[0], ind + 2)
                    l2, a2 = self.stmts(blst[-1:], ind + 2)
                    tl, ta = l1 + l2, (lambda env: (a1(env), a2(env))[1])
                else:
                    tl, ta = self.stmts(blst, ind + 2)
                del self.declared[mark:]
                el, ea = self.stmts(lst[pos + 1:], ind)
                out += ["%s-- %s" % (pad, self.src(s)), "%sif %s then" % (pad, c.s)] + tl + ["%selse" % pad] + el
                ce = c.ev
                acts.append(lambda env: ta(env) if ce(env) else ea(env))
                return out, seq
            if k == "ReturnStmt":
                if pos != len(lst) - 1:
                    fail(s, "return that is not the last statement")
                e = unparen(s["inner"][0])
                names = self.result_names()
                if self.ret_t == BOOL:
                    if e.get("kind") != "CXXBoolLiteralExpr" or e.get("value") is not True:
                        fail(s, "a bool function returning something else than `true`")
                    self.count(e)
                else:
                    v = self.expr(s["inner"][0])
                    if v.t != self.ret_t or v.ev is None:
                        fail(s, "type of the returned expression")
                    names = names + [v.s]
                    ve = v.ev
                    acts.append(lambda env: env.__setitem__("__ret", ve(env)))
                self.ret_sites.append(names)
                out += ["%s-- %s" % (pad, self.src(s)), "%s(%s)" % (pad, ", ".join(names)) if len(names) != 1 else pad + names[0]]
                acts.append(lambda env: "ret")
                return out, seq
            if k == "CompoundAssignOperator":
                l, a = self.ptr_bump(s, ind)
                out += l
                acts.append(a)
                continue
            if k in ("CallExpr", "CXXOperatorCallExpr", "ExprWithCleanups"):
                l, a = self.call_stmt(unparen(s), ind, None)
                out += l
                acts.append(a)
                continue
            fail(s, "unknown statement")
        return out, seq

    def ptr_bump(self, s, ind):
        pad = "  " * ind
        self.count(s)
        t = unparen(s["inner"][0])
        i = t.get("referencedDecl", {}).get("id")
        if s.get("opcode") != "+=" or t.get("kind") != "DeclRefExpr" or i not in self.ptrs:
            fail(s, "compound assignment that is not `pointer += expression`")
        self.count(t)
        p = self.ptrs[i]
        v = self.expr(s["inner"][1])
        if v.t[0] not in "US" or v.ev is None:
            fail(s, "pointer increment")
        ve = v.ev

        def act(env, off=p.off):
            d = ve(env)
            if d < 0:
                raise Bounds("negative pointer increment at %s" % self.src(s))
            env[off] = env[off] + d
        self.wrote(p.off)
        # a non-negative int / size_t value: the Lean text of both representations is the number itself
        return ["%s-- %s" % (pad, self.src(s)), "%slet %s := %s + %s" % (pad, p.off, p.off, v.p())], act

    def var_decl(self, d, s, ind):
        pad = "  " * ind
        init = [c for c in d.get("inner", []) if "kind" in c and c["kind"] not in ("AlignedAttr",)]
        q = gn.is_ptr_type(d)
        tq = (d.get("type") or {}).get("desugaredQualType", (d.get("type") or {}).get("qualType", ""))
        if q:                                                        # value_type* x_orig = x;
            if len(init) != 1:
                fail(d, "pointer variable without initialiser")
            p, so, ev, _ = self.ptr_arg(init[0])
            off = self.new_name(d, d["name"] + "_o")
            self.ptrs[d["id"]] = Ptr(p.base, off, p.writable and "const" not in tq.split("*")[0])
            return ["%s-- %s" % (pad, self.src(s)), "%slet %s := %s" % (pad, off, so)], (lambda env: env.__setitem__(off, ev(env)))
        m = re.fullmatch(r"(.*)\[(\d+)\]", tq)
        if m:                                                        # value_type y[degree+1];  (uninitialised)
            if init or self.tr.elem_type(m.group(1), self.suf, self.deg, d) != ("U", self.w):
                fail(d, "local array (only an uninitialised array of value_type is translated)")
            base = self.new_name(d)
            off = self.new_name(d, d["name"] + "_o")
            self.ptrs[d["id"]] = Ptr(base, off, True)
            self.arrays.append((base, int(m.group(2)) - self.deg))
            return ["%s-- %s   (uninitialised local array: its contents are the parameter `%s`)" % (pad, self.src(s), base),
                    "%slet %s := 0" % (pad, off)], (lambda env: env.__setitem__(off, 0))
        if init and unparen(init[0]).get("kind") == "CXXConstructExpr":   # ntt_loop_body<...> body(p);
            c = unparen(init[0])
            self.count(c)
            cls = self.tr.body_cls.get((self.suf, self.deg))
            if not re.fullmatch(r"(nfl::ops::)?ntt_loop_body<(nfl::)?simd::serial, .*>", tq):   # exact class: checked at the call (operator() id)
                fail(d, "object of the class %r (only ntt_loop_body<simd::serial, poly, T> is known)" % tq)
            args = [self.expr(a) for a in c.get("inner", [])]
            if len(args) != 1 or args[0].t != ("U", self.w):
                fail(c, "constructor arguments of ntt_loop_body")
            self.functors[d["id"]] = (self.tr.blocks[(self.suf, "ntt_body")], [args[0].s])
            return ["%s-- %s   (functor object: block `%s`, constructor argument %s)" % (pad, self.src(s), self.tr.blocks[(self.suf, "ntt_body")].lean_name, args[0].s)], None
        t = ctype(d)
        if len(init) != 1:
            fail(d, "integer variable without initialiser")
        if not g.is_const(d):
            fail(d, "non-const local integer variable (only loop variables may change)")
        e = unparen(init[0])
        if e.get("kind") == "CallExpr":
            return self.call_stmt(e, ind, d)
        v = self.expr(init[0])
        if v.t != t or v.ev is None:
            fail(d, "initialiser type")
        nm = self.new_name(d)
        self.ints[d["id"]] = (nm, t, False)
        ve = v.ev
        return ["%s-- %s" % (pad, self.src(s)), "%slet %s := %s" % (pad, nm, v.s)], (lambda env: env.__setitem__(nm, ve(env)))

    def block_ptrs(self, b, n):
        byname = {}
        for i, p in self.ptrs.items():
            d = self.tr.byid.get(i) or {}
            byname[d.get("name")] = p
        m = {}
        for (ptr, _), _c in list(b.reads) + list(b.writes):
            if ptr not in byname:
                fail(n, "block %s uses the pointer %r which is not in scope" % (b.lean_name, ptr))
            p = byname[ptr]
            m[ptr] = (p, p.off, (lambda env, o=p.off: env[o]))
        return m

    def block_vals(self, b, n):
        vals = []
        for nm in b.vparams:
            hit = [v for v in self.ints.values() if v[0] == nm and v[2]]
            if len(hit) != 1:
                fail(n, "value parameter %r of block %s is not a parameter of the enclosing function" % (nm, b.lean_name))
            vals.append(nm)
        return vals

    def for_stmt(self, s, ind):
        pad = "  " * ind
        parts = s["inner"]
        if len(parts) != 5 or (parts[1] or {}).get("kind"):
            fail(s, "for statement shape")
        init, _, cond, inc, body = parts
        ds = (init or {}).get("inner", [])
        if (init or {}).get("kind") != "DeclStmt" or len(ds) != 1 or ds[0].get("kind") != "VarDecl" or ds[0].get("init") != "c":
            fail(s, "loop initialisation is not `size_t v = a`")
        d = ds[0]
        self.count(init)
        self.count(d)
        if ctype(d) != U64:
            fail(d, "loop variable that is not a size_t")
        a = self.expr([c for c in d["inner"] if "kind" in c][0])
        mark = len(self.declared)
        var = self.new_name(d)
        self.ints[d["id"]] = (var, U64, False)
        if not (cond and cond.get("kind") == "BinaryOperator" and cond.get("opcode") == "<"):
            fail(s, "loop condition is not `v < bound`")
        self.count(cond)
        lhs = self.expr(cond["inner"][0])
        bound = self.expr(cond["inner"][1])
        if lhs.s != var or bound.t != U64 or a.t != U64:
            fail(cond, "loop condition is not `v < bound` in size_t")
        # header increments
        incs = []

        def flat(n):
            n = unparen(n)
            if n.get("kind") == "BinaryOperator" and n.get("opcode") == ",":
                self.count(n)
                flat(n["inner"][0])
                flat(n["inner"][1])
            else:
                incs.append(n)
        flat(inc or {})
        step, extra = None, []
        for n in incs:
            tgt = unparen(n["inner"][0]) if n.get("inner") else {}
            isv = tgt.get("referencedDecl", {}).get("id") == d["id"]
            if n.get("kind") == "UnaryOperator" and n.get("opcode") == "++" and isv and step is None:
                self.count(n)
                self.count(tgt)
                step = 1
            elif n.get("kind") == "CompoundAssignOperator" and n.get("opcode") == "+=" and isv and step is None:
                self.count(n)
                self.count(tgt)
                c = gn.literal_value(n["inner"][1])
                if c is None or c <= 0:
                    fail(n, "loop step is not a positive literal")
                step = c
            elif n.get("kind") == "CompoundAssignOperator" and not isv:
                extra.append(n)
            else:
                fail(n, "loop increment")
        if step is None:
            fail(s, "loop without an increment of its variable")
        # body
        assigned = []
        self.assigned_ids(body, assigned)
        for e in extra:
            self.assigned_ids(e, assigned)
        if d["id"] in assigned:
            fail(s, "the loop body assigns the loop variable")
        refs = []
        self.referenced_ids(cond["inner"][1], refs)
        if set(refs) & set(assigned):
            fail(s, "the loop bound depends on a variable the loop assigns")
        self.wstack.append(set())
        blst = body.get("inner", []) if body.get("kind") == "CompoundStmt" else [body]
        if body.get("kind") == "CompoundStmt":
            self.count(body)
        if s["id"] in self.blocks:
            b, iv = self.blocks[s["id"]]
            ivar = (var,) if iv else None
            if iv and iv["id"] != d["id"]:
                fail(s, "induction variable of the block")
            if not blst:
                fail(s, "empty loop body")
            bl, ba = self.apply_block(b, self.block_ptrs(b, s), self.block_vals(b, s), blst[0], ind + 3, ivar)
        else:
            bl, ba = self.stmts(blst, ind + 3)
        eacts = []
        for e in extra:
            l, act = self.ptr_bump(e, ind + 3)
            bl += l
            eacts.append(act)
        written = self.wstack.pop()
        del self.declared[mark:]
        self.ints.pop(d["id"])
        state = [nm for nm in self.declared if nm in written]
        if not state:
            fail(s, "loop without effect on the translated state")
        for nm in state:
            self.wrote(nm)
        tup = "(%s)" % ", ".join(state) if len(state) > 1 else state[0]
        out = ["%s-- %s" % (pad, self.src(s)),
               "%slet st := CSemLoop.forRange %s %s %d (fun %s st =>" % (pad, a.p(), bound.p(), step, var)]
        for j, nm in enumerate(state):
            out.append("%s      let %s := %s" % (pad, nm, proj("st", j, len(state))))
        out += bl
        out.append("%s      %s) %s" % (pad, tup, tup))
        for j, nm in enumerate(state):
            out.append("%slet %s := %s" % (pad, nm, proj("st", j, len(state))))
        ae, be = a.ev, bound.ev

        def act(env):
            lo, hi = ae(env), be(env)
            if hi + step > 2 ** 64:
                raise Bounds("loop variable may wrap at %s (bound %d, degree %d)" % (self.src(s), hi, env["degree"]))
            v = lo
            while v < hi:
                env[var] = v
                if ba(env) == "ret":
                    raise Bounds("return inside a loop at %s" % self.src(s))
                for e in eacts:
                    e(env)
                v += step
            env.pop(var, None)
        return out, act

    def assigned_ids(self, n, acc):
        k = n.get("kind")
        if k == "CompoundAssignOperator" or (k == "BinaryOperator" and n.get("opcode") == "=") or \
                (k == "UnaryOperator" and n.get("opcode") in ("++", "--")):
            t = unparen(n["inner"][0])
            if t.get("kind") == "DeclRefExpr":
                acc.append(t.get("referencedDecl", {}).get("id"))
        if k in ("CallExpr",):                                       # pointers passed by reference
            for a in n.get("inner", [])[1:]:
                if unparen(a).get("kind") == "DeclRefExpr":
                    acc.append(unparen(a).get("referencedDecl", {}).get("id"))
        for c in n.get("inner", []):
            if isinstance(c, dict):
                self.assigned_ids(c, acc)

    def referenced_ids(self, n, acc):
        if n.get("kind") == "DeclRefExpr":
            acc.append(n.get("referencedDecl", {}).get("id"))
        for c in n.get("inner", []):
            if isinstance(c, dict):
                self.referenced_ids(c, acc)

    # ---------- calls
    def call_stmt(self, n, ind, decl):
        """n: CallExpr / CXXOperatorCallExpr used as a statement or as the initialiser of the const variable `decl`"""
        pad = "  " * ind
        self.count(n)
        inner = n["inner"]
        callee = inner[0]
        if not (callee.get("kind") == "ImplicitCastExpr" and callee.get("castKind") == "FunctionToPointerDecay"
                and callee["inner"][0].get("kind") == "DeclRefExpr"):
            fail(callee, "callee expression")
        self.count(callee)
        self.count(callee["inner"][0])
        rd = callee["inner"][0]["referencedDecl"]
        md = self.tr.byid.get(rd.get("id")) or {}
        if n.get("kind") == "CXXOperatorCallExpr":                   # body(&x[..], &x[..], &winvtab[..], &wtab[..])
            obj = unparen(inner[1])
            while obj.get("kind") == "ImplicitCastExpr" and obj.get("castKind") == "NoOp":
                self.count(obj)
                obj = unparen(obj["inner"][0])
            fid = obj.get("referencedDecl", {}).get("id")
            if obj.get("kind") != "DeclRefExpr" or fid not in self.functors or decl is not None:
                fail(n, "operator call on something that is not a known functor object (callee %r)" % rd.get("name"))
            self.count(obj)
            b, pval = self.functors[fid]
            if md.get("id") != self.tr.body_op[(self.suf, self.deg)]["id"]:
                fail(n, "operator() of another class")
            prms = [c for c in md["inner"] if c.get("kind") == "ParmVarDecl"]
            if len(prms) != len(inner) - 2:
                fail(n, "argument count")
            ptrmap = {}
            for prm, a in zip(prms, inner[2:]):
                p, s, ev, _ = self.ptr_arg(a)
                tq = prm["type"].get("desugaredQualType", prm["type"]["qualType"])
                ptrmap[prm["name"]] = (Ptr(p.base, None, p.writable and "const" not in tq.split("*")[0]), s, ev)
            return self.apply_block(b, ptrmap, pval, n, ind)
        par = md.get("_parent") or {}
        if par.get("kind") == "FunctionTemplateDecl":
            par = par.get("_parent") or {}
        cls, a = par.get("name"), gn.targs(par) if par.get("kind") == "ClassTemplateSpecializationDecl" else None
        args = inner[1:]
        if md.get("name") == "compute" and cls == "permut" and a and a[0] == self.deg and len(args) == 2 and decl is None:
            # nfl::permut<degree>::compute(y, x)  — mapped by name to Generated/PermutAst.lean
            base = [b.get("type", {}).get("desugaredQualType", "") for b in (self.tr.permut_cls.get(self.deg) or {}).get("bases", [])]
            if len(a) != 2 or not any(re.fullmatch(r"nfl::details::permut<%d, (true|false)>" % self.deg, x) for x in base):
                fail(n, "permut<%d>::compute is not the member of details::permut<degree, bool> that permut<degree> inherits" % self.deg)
            py, sy, evy, _ = self.ptr_arg(args[0])
            px, sx, evx, _ = self.ptr_arg(args[1])
            if not py.writable or py.base == px.base:
                fail(n, "arguments of permut::compute")
            self.wrote(py.base)
            self.tr.uses_permut = True

            def act(env):
                for j in (0, env["degree"] - 1):
                    self.access(env, py, evy(env) + j, "write (permut)", n)
                    self.access(env, px, evx(env) + j, "read (permut)", n)
            return ["%s-- %s   … `nfl::permut<degree>::compute`: Generated/PermutAst.lean" % (pad, self.src(n)),
                    "%slet %s := permut_compute degree %s (%s) %s (%s)" % (pad, py.base, py.base, sy, px.base, sx)], act
        key = None
        if md.get("name") == "run" and cls == "ntt_loop" and a == ["nfl::simd::serial", "nfl::poly<%s, %d, 1>" % (self.tr.cname[self.suf], self.deg), self.tr.cname[self.suf]]:
            key = "ntt_loop_run"
        if md.get("name") == "ntt" and par.get("name") == "core" and md.get("id") == self.tr.ntt_m[(self.suf, self.deg)]["id"]:
            key = "ntt"
        if key is None:
            fail(n, "call of the unknown function %r (class %r %r)" % (md.get("name"), cls or par.get("name"), a))
        f = self.tr.function(key, self.suf, self.deg)
        prms = [c for c in md["inner"] if c.get("kind") == "ParmVarDecl"]
        if len(prms) != len(args):
            fail(n, "argument count")
        largs, binds, pe = ["degree"], [], []
        vals, pts = [], []
        for prm, a_ in zip(prms, args):
            if gn.is_ptr_type(prm) or "*&" in prm["type"].get("qualType", "").replace(" ", ""):
                p, s, ev, var = self.ptr_arg(a_)
                pts.append((p, s, ev, var))
            else:
                v = self.expr(a_)
                vals.append(v)
        largs += [v.p() for v in vals]
        for (p, s, ev, var), fp in zip(pts, f.pparams):
            if fp.byref and var is None:
                fail(n, "reference-to-pointer parameter bound to something that is not a pointer variable")
            if fp.writable and not p.writable:
                fail(n, "writable pointer parameter bound to a read-only pointer")
            largs += [p.base, "(%s)" % s]
        if f.arrays:
            fail(n, "callee with local arrays")
        rn = f.result_names()
        outs = []
        for (p, s, ev, var), fp in zip(pts, f.pparams):
            if fp.writable and fp.base in f.fn_written:
                outs.append(p.base)
        for (p, s, ev, var), fp in zip(pts, f.pparams):
            if fp.byref:
                outs.append(var.off)
        if f.ret_t != BOOL:
            if decl is None or ctype(decl) != f.ret_t:
                fail(n, "result of %s is not stored in a variable of its type" % f.lean_name)
            nm = self.new_name(decl)
            self.ints[decl["id"]] = (nm, f.ret_t, False)
            outs.append(nm)
        elif decl is not None:
            fail(n, "bool result stored")
        if len(outs) != len(rn) + (1 if f.ret_t != BOOL else 0):
            fail(n, "result arity of %s" % f.lean_name)
        lines = ["%s-- %s" % (pad, self.src(n)), "%slet rr := %s %s" % (pad, f.lean_name, " ".join(largs))]
        for j, nm in enumerate(outs):
            lines.append("%slet %s := %s" % (pad, nm, proj("rr", j, len(outs))))
            self.wrote(nm)

        def act(env):
            sub = {"degree": env["degree"], "__ext": {}, "__n": env["__n"]}
            for (p, s, ev, var), fp in zip(pts, f.pparams):
                sub[fp.off] = ev(env)
                sub["__ext"][fp.base] = env["__ext"][p.base]
            f.run(sub)
            for (p, s, ev, var), fp in zip(pts, f.pparams):
                if fp.byref:
                    env[var.off] = sub[fp.off]
            if f.ret_t != BOOL:
                env[outs[-1]] = sub["__ret"]
        return lines, act

    # ---------- whole function
    def translate(self, blocks=None):
        m = self.m
        self.blocks = blocks or {}
        self.count(m)
        if m.get("virtual"):
            fail(m, "method kind")
        self.ret_t = self.tr.return_type_of(m)
        self.fn_written, self.ret_sites = set(), []
        for prm in [c for c in m["inner"] if c.get("kind") == "ParmVarDecl"]:
            self.count(prm)
            tq = prm["type"].get("desugaredQualType", prm["type"]["qualType"])
            if "*" in tq:
                base = self.new_name(prm)
                off = self.new_name(prm, prm["name"] + "_o")
                p = Ptr(base, off, "const" not in tq.split("*")[0], byref=tq.replace(" ", "").endswith("*&"))
                self.ptrs[prm["id"]] = p
                self.pparams.append(p)
            else:
                if ctype(prm) != ("U", self.w):
                    fail(prm, "value parameter that is not a value_type")
                nm = self.new_name(prm)
                self.ints[prm["id"]] = (nm, ("U", self.w), True)
                self.vparams.append(nm)
        if [c for c in m["inner"] if c.get("kind") not in ("ParmVarDecl", "CompoundStmt")]:
            fail(m, "method shape")
        body = gn.body_of(m)
        self.count(body)
        self.wstack.append(self.fn_written)
        # two passes: the set of written arrays must be known at the first return
        saved = (dict(self.ints), dict(self.ptrs), list(self.declared), self.nodes, dict(self.tr.kinds))
        self.stmts(body.get("inner", []), 1)
        first = set(self.fn_written)
        self.ints, self.ptrs, self.declared, self.nodes, self.tr.kinds = saved
        self.functors, self.hoisted, self.prelude, self.pre_acts, self.arrays, self.ret_sites = {}, {}, [], [], [], []
        self.wstack = [self.fn_written]
        lines, act = self.stmts(body.get("inner", []), 1)
        if self.fn_written != first:
            fail(m, "unstable set of written arrays")
        if not self.ret_sites or any(r[:len(self.result_names())] != self.result_names() for r in self.ret_sites):
            fail(m, "function without a uniform result")
        self.body_lines = self.prelude + lines
        self.act = act
        return self

    def run(self, env):
        for a in self.pre_acts:
            a(env)
        self.act(env)

    def render(self):
        ps = ["(degree : Nat)"] + ["(%s : Nat)" % v for v in self.vparams] + ["(%s : List Nat)" % b for b, _ in self.arrays]
        for p in self.pparams:
            ps += ["(%s : List Nat) (%s : Nat)" % (p.base, p.off)]
        rn = self.result_names()
        rt = ["List Nat" if any(p.base == nm for p in self.pparams) else "Nat" for nm in rn] + (["Nat"] if self.ret_t != BOOL else [])
        doc = ["/-- `%s`  (%s:%s), instantiation T = %s; `degree` is the template constant." % (
            self.tr.qualname[self.fname], self.tr.short(self.m.get("_file")), self.m.get("_line"), self.tr.cname[self.suf]),
               "Result: %s.%s -/" % (", ".join(["the new contents of `%s`" % nm if any(p.base == nm for p in self.pparams) else "the new offset `%s`" % nm for nm in rn] +
                                              (["the returned size_t"] if self.ret_t != BOOL else [])),
                                    "".join("  Local array `%s`: declared extent degree%+d." % (b, c) for b, c in self.arrays))]
        return "\n".join(doc + ["def %s %s : %s :=" % (self.lean_name, " ".join(ps), " × ".join(rt))] + self.body_lines)


class LoopTranslator(gn.NttTranslator):
    qualname = {"ntt_loop_run": "nfl::ops::ntt_loop<nfl::simd::serial, poly, T>::run(x, wtab, winvtab, p)",
                "ntt": "nfl::poly<T, Degree, NbModuli>::core::ntt(x, wtab, winvtab, p)",
                "inv_ntt": "nfl::poly<T, Degree, NbModuli>::core::inv_ntt(x, inv_wtab, inv_winvtab, invK, p)"}

    def __init__(self, repo):
        gn.NttTranslator.__init__(self, repo)
        self.shift_sites, self.log2_used, self.uses_permut = [], set(), False
        self.fns, self.blocks, self.body_cls, self.body_op, self.ntt_m, self.inv_m, self.run_m, self.permut_cls = {}, {}, {}, {}, {}, {}, {}, {}

    def return_type_of(self, m):
        written = m["type"]["qualType"].split("(")[0].strip()
        t = g.ctype_of_str(written) or {"size_t": U64}.get(written)
        if not t:
            fail(m, "cannot resolve the return type %r" % written)
        return t

    def elem_type(self, q, suf, deg, at):
        t = g.ctype_of_str(q)
        if t:
            return t
        if q == "nfl::poly<%s, %d, 1>::value_type" % (self.cname[suf], deg):
            for n in self.byid.values():
                par = n.get("_parent") or {}
                if n.get("kind") in ("TypeAliasDecl", "TypedefDecl") and n.get("name") == "value_type" and par.get("name") == "poly" \
                        and par.get("kind") == "ClassTemplateSpecializationDecl" and gn.targs(par) == [self.cname[suf], deg, 1]:
                    tt = n.get("type", {})
                    return g.ctype_of_str(tt.get("desugaredQualType", tt.get("qualType", "")))
        fail(at, "element type %r" % q)

    def prepare(self, deg):
        for _, cname, suf in g.TYPES:
            w = int(suf[1:])
            cls, ntt = self.find(cname, deg)
            self.body_cls[(suf, deg)] = cls
            self.body_op[(suf, deg)] = [c for c in cls["inner"] if c.get("kind") == "CXXMethodDecl" and c.get("name") == "operator()" and gn.has_body(c)][0]
            self.ntt_m[(suf, deg)] = ntt
            if deg == DEGREES[0]:
                bb = self.loop_body(cls, suf, w)
                self.blocks[(suf, "ntt_body")] = bb
            core = ntt.get("_parent")
            inv = [c for c in core.get("inner", []) if c.get("kind") == "CXXMethodDecl" and c.get("name") == "inv_ntt" and gn.has_body(c)]
            if len(inv) != 1:
                raise Unsupported("%d instantiated bodies of poly<%s,%d,1>::core::inv_ntt found" % (len(inv), cname, deg))
            self.inv_m[(suf, deg)] = inv[0]
            runs = []
            for n in self.byid.values():
                if n.get("kind") == "ClassTemplateSpecializationDecl" and n.get("name") == "ntt_loop" and \
                        gn.targs(n) == ["nfl::simd::serial", "nfl::poly<%s, %d, 1>" % (cname, deg), cname]:
                    runs += [c for c in n.get("inner", []) if c.get("kind") == "CXXMethodDecl" and c.get("name") == "run" and gn.has_body(c)]
            runs = list({x["id"]: x for x in runs}.values())
            if len(runs) != 1:
                raise Unsupported("%d instantiated bodies of ntt_loop<simd::serial, poly<%s,%d,1>, %s>::run found" % (len(runs), cname, deg, cname))
            self.run_m[(suf, deg)] = runs[0]
        for n in self.byid.values():
            if n.get("kind") == "ClassTemplateSpecializationDecl" and n.get("name") == "permut" and gn.targs(n) == [deg] and n.get("bases"):
                self.permut_cls[deg] = n

    def ntt_block_nodes(self, m, suf, w):
        """the statements of core::ntt that gen_ntt_ast.ntt_blocks translates as blocks (same selection), with their Blocks"""
        b2, b4, bf = self.ntt_blocks(m, suf, w)
        top = gn.body_of(m).get("inner", [])
        deg2 = [s for s in top if s.get("kind") == "IfStmt" and len(s["inner"]) == 2 and s["inner"][0].get("kind") == "BinaryOperator"
                and s["inner"][0].get("opcode") == "==" and gn.rvalue_ref_name(s["inner"][0]["inner"][0]) == "degree"
                and gn.literal_value(s["inner"][0]["inner"][1]) == 2]
        fors = [s for s in top if s.get("kind") == "ForStmt"]
        if len(deg2) != 1 or len(fors) != 2:
            fail(m, "block structure of core::ntt")
        iv = [c for c in fors[1]["inner"][0]["inner"] if c.get("kind") == "VarDecl"][0]
        for b, node in ((b2, deg2[0]["inner"][1]), (b4, fors[0]["inner"][4]), (bf, fors[1]["inner"][4])):
            if "(%s:%s;" % (self.short(node.get("_file")), node.get("_line")) not in b.where:
                fail(node, "block %s is not at this statement" % b.lean_name)
        return {deg2[0]["id"]: (b2, None), fors[0]["id"]: (b4, None), fors[1]["id"]: (bf, iv)}

    def function(self, key, suf, deg):
        if (key, suf, deg) in self.fns:
            return self.fns[(key, suf, deg)]
        w = int(suf[1:])
        m = {"ntt_loop_run": self.run_m, "ntt": self.ntt_m, "inv_ntt": self.inv_m}[key][(suf, deg)]
        f = LFn(self, m, key, suf, w, deg)
        f.translate(self.ntt_block_nodes(m, suf, w) if key == "ntt" else None)
        self.fns[(key, suf, deg)] = f
        return f


def translate_all(repo, txt, deg):
    tr = LoopTranslator(repo)
    tr.load(txt)
    for d in DEGREES:
        if d == DEGREES[0] or d == deg:
            tr.prepare(d)
    order = []
    for key in ("ntt_loop_run", "ntt", "inv_ntt"):
        for _, _, suf in g.TYPES:
            order.append(tr.function(key, suf, deg))
    return tr, order


def concrete_check(fns):
    """run the translated loop nest on the index expressions alone"""
    stats = {}
    for f in fns:
        if f.suf != g.TYPES[0][2] and f.fname != "inv_ntt":
            continue                       # the three instantiations give the same structure (checked textually by the caller)
        if f.suf != g.TYPES[0][2]:
            continue
        tot = 0
        for k in CHECK_K:
            d = 2 ** k
            env = {"degree": d, "__ext": {}, "__n": [0]}
            for p in f.pparams:
                env[p.off] = 0
                env["__ext"][p.base] = d if p.writable else d - 1
            for b, c in f.arrays:
                env["__ext"][b] = d + c
            if f.fname == "ntt_loop_run" and k < 2:
                continue                   # never called for degree 1, 2 (J = log2(degree) - 2 would wrap)
            f.run(env)
            tot += env["__n"][0]
        stats[f.lean_name] = tot
    return stats


def make_tu():
    os.makedirs(g.BUILD, exist_ok=True)
    tu = os.path.join(g.BUILD, "nttloop_ast_tu.cpp")
    lines = ['#include "nfl.hpp"']
    for d in DEGREES:
        for t, _, _ in g.TYPES:
            lines.append("template struct nfl::ops::ntt_loop_body<nfl::simd::serial, nfl::poly<%s, %d, 1>, %s>;" % (t, d, t))
            lines.append("template bool nfl::poly<%s, %d, 1>::core::ntt(%s*, const %s*, const %s*, %s const);" % (t, d, t, t, t, t))
            lines.append("template bool nfl::poly<%s, %d, 1>::core::inv_ntt(%s*, const %s* const, const %s* const, const %s, %s const);" % (t, d, t, t, t, t, t))
    for N in gc.LOG2_PROBES:
        lines.append("static_assert(nfl::static_log2<%dULL>::value < 64, \"\");" % N)
    open(tu, "w").write("\n".join(lines) + "\n")
    return tu


def main():
    repo = os.environ.get("VERIF_REPO", "/repo")
    out = OUT
    if "--repo" in sys.argv:
        repo = sys.argv[sys.argv.index("--repo") + 1]
    if "--out" in sys.argv:
        out = sys.argv[sys.argv.index("--out") + 1]
    repo = os.path.abspath(repo)
    txt = g.clang_ast(repo, make_tu())
    if "--keep" in sys.argv:
        open(os.path.join(g.BUILD, "nttloop_ast_dump.json"), "w").write(txt)
    try:
        texts = {}
        for d in DEGREES:
            tr_d, fns_d = translate_all(repo, txt, d)
            texts[d] = "\n\n".join(f.render() for f in fns_d)
            if d == DEGREES[0]:
                tr, fns = tr_d, fns_d
        for d in DEGREES[1:]:
            if texts[d] != texts[DEGREES[0]]:
                la, lb = texts[DEGREES[0]].splitlines(), texts[d].splitlines()
                diff = next(((x, y) for x, y in zip(la, lb) if x != y), ("(length)", "(length)"))
                raise Unsupported("the translation of degree %d differs from that of degree %d (degree is meant to be a parameter): %r vs %r" % (
                    d, DEGREES[0], diff[0][:160], diff[1][:160]))
        # the three instantiations must have the same loop structure up to the block names
        base = None
        for _, _, suf in g.TYPES:
            t = "\n\n".join(f.render() for f in fns if f.suf == suf)
            t = t.replace("_" + suf, "_uW").replace("T = " + tr.cname[suf], "T")
            if base is None:
                base = t
            elif t != base:
                raise Unsupported("the loop structure of the %s instantiation differs from that of %s" % (suf, g.TYPES[0][2]))
        tr.log2_used.add(DEGREES[0])
        log2_text, log2_n = gc.translate_log2(tr)
        stats = concrete_check(fns)
    except Bounds as e:
        msg = "gen_nttloop_ast: OUT-OF-BOUNDS / UNDEFINED index computation, nothing translated: %s" % e
        sys.stderr.write(msg + "\n")
        print(json.dumps({"ok": False, "err": msg}))
        sys.exit(4)
    except Unsupported as e:
        msg = "gen_nttloop_ast: UNSUPPORTED C++ construct, nothing translated: %s" % e
        sys.stderr.write(msg + "\n")
        print(json.dumps({"ok": False, "err": msg}))
        sys.exit(3)
    head = [
        "-- GENERATED by tools/gen_nttloop_ast.py from clang++-14's typed AST of include/nfl/algos.hpp (ntt_loop<simd::serial>::run),",
        "-- include/nfl/core.hpp (poly::core::ntt, poly::core::inv_ntt) and include/nfl/meta.hpp (static_log2), instantiated for",
        "-- poly<T,%d,1>, T = uint16_t / uint32_t / uint64_t (degree %s gives the same text: checked on every run; `degree` is a PARAMETER)," % (
            DEGREES[0], ", ".join(str(d) for d in DEGREES[1:])),
        "-- -DNFL_OPTIMIZED, no CHECK_STRICTMOD, NTT_STRICTMOD defined (by include/nfl/debug.hpp).  Do not edit.",
        "-- LOOP STRUCTURE only: a pointer is (base array, offset); every access is CSemLoop.rd / CSemLoop.wr at an explicitly computed index;",
        "-- `for` loops are CSemLoop.forRange over the tuple of the variables their body assigns; the straight-line blocks are the",
        "-- definitions of Generated/NttAst.lean (tools/gen_ntt_ast.py); permut<degree>::compute is Generated/PermutAst.lean.",
        "-- Index expressions were run for every degree 2^1 … 2^15: all accesses in bounds, no undefined shift, no wrap of a loop variable.",
        "import NflVerif.Model.CSem",
        "import NflVerif.Model.CSemLoop",
        "import NflVerif.Generated.NttAst",
        "import NflVerif.Generated.PermutAst",
        "namespace Nfl.Gen",
        "open Nfl",
        "set_option linter.unusedVariables false   -- a C++ variable that is dead after its last assignment",
        "",
        "namespace NttLoop",
        log2_text,
        "end NttLoop",
        "",
    ]
    text = "\n".join(head) + "\n" + texts[DEGREES[0]] + "\n\nend Nfl.Gen\n"
    changed = g.write_if_changed(out, text)
    print(json.dumps({
        "ok": True, "functions": [f.lean_name for f in fns], "nodes": sum(f.nodes for f in fns),
        "node_kinds": dict(sorted(tr.kinds.items())), "degrees_compared": DEGREES,
        "blocks_called": sorted({b.lean_name for b in tr.blocks.values()} | {"ntt_deg2_uW", "ntt_last2_uW", "ntt_final_uW"}),
        "local_arrays": {f.lean_name: ["%s: degree%+d" % a for a in f.arrays] for f in fns if f.arrays},
        "shift_sites": tr.shift_sites, "static_log2_specialisations_checked": log2_n,
        "bounds_checked_degrees": "2^%d..2^%d" % (CHECK_K[0], CHECK_K[-1]), "accesses_checked": stats,
        "configuration": "-DNFL_OPTIMIZED, no CHECK_STRICTMOD, NTT_STRICTMOD defined by nfl/debug.hpp",
        "sha": hashlib.sha256(text.encode()).hexdigest()[:16], "changed": changed,
        "out": os.path.relpath(out, g.VERIF), "repo": repo}))


if __name__ == "__main__":
    main()
