#!/usr/bin/env python3
"""Translator: clang's typed AST of NFLlib's big-integer setters -> lean/NflVerif/Generated/SetMpzAst.lean

Translated from the CURRENT text of $REPO/include/nfl/gmp.hpp (+ poly.hpp), for T = uint16_t, uint32_t, uint64_t:
  set_mpz_it_uW      nfl::poly<T,Degree,NbModuli>::set_mpz<It>(It first, It last)  — the whole body: size test + throw, the loop over the
                     moduli with the iterator rewind, the copy loop (mpz_fdiv_ui) and the zero-padding loop
  set_mpz_il_uW      set_mpz(std::initializer_list<mpz_class> const&)      set_mpz_arr_uW    set_mpz(std::array<mpz_class,Degree> const&)
  set_mpz_class_uW   set_mpz(mpz_class const&)                             set_mpz_t_uW      set_mpz(mpz_t const&)
  ctor_mpz_t_uW / ctor_mpz_class_uW / ctor_il_uW / ctor_arr_uW             the four constructors of gmp.hpp (forward to the above)
Reading of the C++ (reuses gen_crt_ast.py's CrtFn BY IMPORT: typed integer expressions through CSem.lean, `nmoduli` / `degree` symbolic,
get_modulus(cm) inlined to P[cm], GMP calls by name through GmpSem.lean; new node semantics in Model/CSemIter.lean):
  * `It` is instantiated as `mpz_class const*` AND as `std::vector<mpz_class>::iterator`, each for two (Degree, NbModuli); the four
    translations must give the same text (checked): an iterator is an INDEX into the parameter `vals : List Int` (copy construction,
    operator=, operator<, operator++, operator-> of __normal_iterator and the built-in pointer operations are mapped BY NAME / node kind to
    CSemIter.itLt / itNext / deref); `std::distance(first,last)` converted to size_t is CSemIter.distU;
  * `auto* iter = begin()` (poly::begin inlined: `return std::begin(_data)`) is the element offset 0 into `data` (the words `_data`);
    `*iter = v` is CSemIter.store, `++iter` CSemIter.ptrNext;
  * `if (c) { throw std::runtime_error(…); }` as a top-level statement before any store: the function returns `Option`, `none` = thrown;
  * `for (size_t cm = 0; cm < nmoduli; cm++)` is a fold over List.range (gen_crt_ast); `for (; c; ++a, ++b) body` is CSem.whileFuel over the
    tuple of assigned variables with fuel 2^64, accepted only when `c` has a conjunct `v < B` with v a size_t variable that the
    increment part advances by `++v`, the body does not assign, and B is not assigned in the loop (so the loop ends within 2^64 iterations);
  * `assert((unsigned long)(this->_data) % 32 == 0)` is a precondition on an ADDRESS (no counterpart in the value model): accepted in exactly
    this form and listed in the summary under `address_preconditions`;
  * a forwarding member is ONE call of another translated member (resolved through the referenced declaration id), its arguments a
    parameter, `values.begin()` / `values.end()`, or a braced list of `mpz_class` copies.
NOT translated: `poly& operator=(…)` overloads of poly.hpp (`{ set_mpz(v); return *this; }`), poly_p's forwarding wrappers (C14),
set_mpz / constructor from std::array<mpz_t,Degree> (uninstantiable: `viter->get_mpz_t()` on an mpz_t).
Anything not listed stops the translation with a non-zero exit naming the node kind / callee and file:line.
The last line of stdout is a JSON summary.  The output file is rewritten only when its content changes.
Usage: gen_setmpz_ast.py [--repo DIR] [--out FILE] [--keep]
"""
import hashlib, json, os, re, sys

HERE = os.path.dirname(os.path.abspath(__file__))
sys.path.insert(0, HERE)
import gen_ops_ast as g
import gen_crt_ast as c
from gen_ops_ast import Unsupported, Val, Var, fail, ctype

OUT = os.path.join(g.VERIF, "lean", "NflVerif", "Generated", "SetMpzAst.lean")
INSTS = {"u64": [(4, 3), (8, 2)], "u32": [(4, 2), (8, 3)], "u16": [(4, 2), (8, 1)]}     # (Degree, NbModuli); first one is written out
ITS = [("ptr", "mpz_class const*"), ("vec", "std::vector<mpz_class>::iterator")]
U64 = ("U", 64)
MPZC = "__gmp_expr<mpz_t, mpz_t>"
IT_QUALS = {"ptr": "const %s *" % MPZC, "vec": "__gnu_cxx::__normal_iterator<%s *, std::vector<%s>>" % (MPZC, MPZC)}
WHILE_FUEL = "2 ^ 64"


def squash(q):
    return re.sub(r"\s+", " ", q or "").strip()


def strip_cleanups(s):
    while s.get("kind") == "ExprWithCleanups":
        s = s["inner"][0]
    return s


class SetFn(c.CrtFn):
    """set_mpz<It>(It first, It last)"""

    def __init__(self, tr, fname, suf, w, inst, itk):
        c.CrtFn.__init__(self, tr, fname, suf, w, inst)
        self.itk = itk
        self.stored = False
        self.data = None

    # ---------- types
    def it_type(self, n):
        q = squash(c.qual(n))
        for pre in ("const ",):
            if q.startswith(pre) and q[len(pre):] in IT_QUALS.values() and not q.endswith("*"):
                q = q[len(pre):]
        q = q.replace("const __normal_iterator", "__gnu_cxx::__normal_iterator") if q.startswith("const __normal_iterator") else q
        q = q if not q.startswith("__normal_iterator") else "__gnu_cxx::" + q
        if q == IT_QUALS[self.itk]:
            return ("P", "vals")
        if q == self.tr.cname[self.suffix] + " *":
            return ("P", "data")
        return None

    def new_name(self, decl):
        if decl.get("name") in ("data", "vals"):
            fail(decl, "C++ variable named %r clashes with a name of the generated code" % decl.get("name"))
        return c.CrtFn.new_name(self, decl)

    # ---------- iterator / pointer values
    def it_lvalue(self, n):
        """the iterator / pointer variable an lvalue expression names"""
        while True:
            n = self.strip_paren(n)
            if n.get("kind") == "ImplicitCastExpr" and n.get("castKind") == "NoOp" and n.get("valueCategory") == "lvalue":
                self.count(n)
                n = n["inner"][0]
            else:
                break
        if n.get("kind") != "DeclRefExpr":
            fail(n, "iterator operand is not a variable")
        self.count(n)
        v = self.env.get(n.get("referencedDecl", {}).get("id"))
        if v is None or v.t[0] != "P":
            fail(n, "reference to %r, which is not a translated iterator / pointer" % n.get("referencedDecl", {}).get("name"))
        if self.it_type(n) != v.t:
            fail(n, "type of the iterator reference")
        if not v.init:
            fail(n, "read of the uninitialised iterator %s" % v.name)
        return v

    def it_value(self, n):
        """prvalue of iterator / pointer type -> Val with t = ("P", base)"""
        n = self.strip_paren(n)
        k = n.get("kind")
        t = self.it_type(n)
        if t is None:
            fail(n, "expression of type %r is not a translated iterator / pointer" % c.qual(n))
        if k == "ImplicitCastExpr" and n.get("castKind") == "LValueToRValue":
            self.count(n)
            v = self.it_lvalue(n["inner"][0])
            return Val(v.name, v.t, atom=True)
        if k == "CXXConstructExpr":                      # copy construction of a class-type iterator
            self.count(n)
            args = n.get("inner", [])
            if self.itk != "vec" or len(args) != 1:
                fail(n, "construction of an iterator that is not a copy")
            v = self.it_lvalue(args[0])
            if v.t != t:
                fail(n, "copy of an iterator of another sequence")
            return Val(v.name, v.t, atom=True)
        if k == "CXXMemberCallExpr":                     # this->begin()
            me = n["inner"][0]
            if len(n["inner"]) != 1 or me.get("kind") != "MemberExpr" or me["inner"][0].get("kind") != "CXXThisExpr":
                fail(n, "member call yielding a pointer that is not this->begin()")
            m = self.method_of_poly(me.get("referencedMemberDecl"), n, ("begin",))
            if m is None or t != ("P", "data"):
                fail(n, "member call %r yielding a pointer is not nfl::poly::begin()" % me.get("name"))
            for x in (n, me, me["inner"][0], m, c.body_of(m)):
                self.count(x)
            st = c.body_of(m).get("inner", [])
            if len(st) != 1 or st[0].get("kind") != "ReturnStmt":
                fail(m, "poly::begin() is not a single return statement")
            self.count(st[0])
            r = st[0]["inner"][0]
            if r.get("kind") != "CallExpr" or c.callee_decl(r)[1] != "begin" or len(r["inner"]) != 2:
                fail(r, "poly::begin() does not return std::begin(_data)")
            for x in (r, r["inner"][0], r["inner"][0]["inner"][0]):
                self.count(x)
            a = r["inner"][1]
            if not (a.get("kind") == "MemberExpr" and a.get("name") == "_data" and a["inner"][0].get("kind") == "CXXThisExpr"):
                fail(r, "poly::begin() does not return std::begin(_data)")
            self.count(a)
            self.count(a["inner"][0])
            return Val("CSemIter.seqBegin", t, atom=True)
        fail(n, "unknown iterator / pointer expression")

    # ---------- expressions
    def expr(self, n):
        k = n.get("kind")
        if k == "BinaryOperator" and n.get("opcode") == "&&":
            self.count(n)
            a, b = self.expr(n["inner"][0]), self.expr(n["inner"][1])
            if a.t[0] != "B" or b.t[0] != "B" or ctype(n)[0] != "B":
                fail(n, "operand types of &&")
            return Val("%s && %s" % (a.p(), b.p()), ("B", 1))
        if k == "BinaryOperator" and n.get("opcode") == "<" and self.it_type(n["inner"][0]) is not None:
            self.count(n)
            a, b = self.it_value(n["inner"][0]), self.it_value(n["inner"][1])
            if a.t != b.t:
                fail(n, "comparison of iterators of different sequences")
            return Val("CSemIter.itLt %s %s" % (a.p(), b.p()), ("B", 1))
        if k == "CXXOperatorCallExpr" and ctype_or_none(n) == ("B", 1):
            kind, name, did = c.callee_decl(n)
            if name != "operator<" or self.itk != "vec" or len(n["inner"]) != 3:
                fail(n, "operator call %r yielding bool is not the iterator comparison operator<" % name)
            for x in (n, n["inner"][0], n["inner"][0]["inner"][0]):
                self.count(x)
            a, b = self.it_lvalue(n["inner"][1]), self.it_lvalue(n["inner"][2])
            if a.t != b.t:
                fail(n, "comparison of iterators of different sequences")
            return Val("CSemIter.itLt %s %s" % (a.name, b.name), ("B", 1))
        if k == "ImplicitCastExpr" and n.get("castKind") == "IntegralCast" and n["inner"][0].get("kind") == "CallExpr" \
                and c.callee_decl(n["inner"][0])[1] == "distance":
            call = n["inner"][0]
            if ctype(n) != U64 or squash(c.qual(call)) != "long" or len(call["inner"]) != 3:
                fail(n, "std::distance(first, last) not converted from long to size_t")
            d = self.tr.byid.get(c.callee_decl(call)[2]) or {}
            for x in (n, call, call["inner"][0], call["inner"][0]["inner"][0]):
                self.count(x)
            a, b = self.it_value(call["inner"][1]), self.it_value(call["inner"][2])
            if a.t != b.t:
                fail(n, "distance of iterators of different sequences")
            return Val("CSemIter.distU %s %s" % (a.p(), b.p()), U64)
        return c.CrtFn.expr(self, n)

    def mpz_read(self, n):
        """mpz operand of a GMP call: `viter->get_mpz_t()`"""
        x = n
        while x.get("kind") == "ImplicitCastExpr" and x.get("castKind") == "NoOp":
            self.count(x)
            x = x["inner"][0]
        if x.get("kind") == "CXXMemberCallExpr":
            me = x["inner"][0]
            if len(x["inner"]) != 1 or me.get("kind") != "MemberExpr" or me.get("name") != "get_mpz_t" or not me.get("isArrow"):
                fail(x, "member call %r as an mpz operand (only it->get_mpz_t())" % me.get("name"))
            self.count(x)
            self.count(me)
            o = me["inner"][0]
            if o.get("kind") == "CXXOperatorCallExpr":
                kind, name, did = c.callee_decl(o)
                if name != "operator->" or self.itk != "vec" or len(o["inner"]) != 2:
                    fail(o, "operator call %r under get_mpz_t()" % name)
                for y in (o, o["inner"][0], o["inner"][0]["inner"][0]):
                    self.count(y)
                v = self.it_lvalue(o["inner"][1])
                v = Val(v.name, v.t, atom=True)
            else:
                v = self.it_value(o)
            if v.t != ("P", "vals"):
                fail(x, "get_mpz_t() through a pointer that is not an iterator into the source sequence")
            return "(CSemIter.deref vals %s)" % v.p()
        return c.CrtFn.mpz_read(self, n)

    # ---------- statements
    def is_assert(self, s):
        s0 = s
        if s.get("kind") != "ParenExpr":
            return False
        e = s["inner"][0]
        if e.get("kind") != "ConditionalOperator" or len(e["inner"]) != 3:
            return False
        call = e["inner"][2]
        if call.get("kind") != "CallExpr" or c.callee_decl(call)[1] != "__assert_fail":
            return False
        txt = [a for a in call["inner"][1:]][0]
        while txt.get("kind") == "ImplicitCastExpr":
            txt = txt["inner"][0]
        if txt.get("kind") != "StringLiteral" or txt.get("value") != "\"(unsigned long)(this->_data) % 32 == 0\"":
            fail(s0, "assert(%s): only the alignment assertion on this->_data is accepted" % txt.get("value"))
        # the condition really is about the address of _data (PointerToIntegral of this->_data)
        def has(n, pred):
            return pred(n) or any(has(x, pred) for x in n.get("inner", []) if isinstance(x, dict))
        if not has(e["inner"][0], lambda x: x.get("kind") == "CStyleCastExpr" and x.get("castKind") == "PointerToIntegral"):
            fail(s0, "assert condition is not a test of an address")
        def cnt(n):
            self.count(n)
            for x in n.get("inner", []):
                if isinstance(x, dict) and "kind" in x:
                    cnt(x)
        cnt(s)
        self.tr.addr_pre.append({"fn": self.lean_name, "file": self.tr.short(s.get("_file")), "line": s.get("_line"),
                                 "source": self.tr.source_line(s.get("_file"), s.get("_line"))})
        return True

    def is_throw_block(self, n):
        lst = n.get("inner", []) if n.get("kind") == "CompoundStmt" else [n]
        if len(lst) != 1:
            return None
        t = strip_cleanups(lst[0])
        if t.get("kind") != "CXXThrowExpr":
            return None
        q = squash(c.qual(t["inner"][0])) if t.get("inner") else ""
        if q != "std::runtime_error":
            fail(t, "throw of %r (only std::runtime_error is translated)" % q)
        def cnt(x):
            self.count(x)
            for y in x.get("inner", []):
                if isinstance(y, dict) and "kind" in y:
                    cnt(y)
        cnt(n)
        return q

    def incr(self, e, pad, out):
        """one `++x` of a for-increment / expression statement"""
        e = self.strip_paren(e)
        if e.get("kind") == "BinaryOperator" and e.get("opcode") == ",":
            self.count(e)
            self.incr(e["inner"][0], pad, out)
            self.incr(e["inner"][1], pad, out)
            return
        if e.get("kind") == "UnaryOperator" and e.get("opcode") == "++":
            self.count(e)
            tgt = self.strip_paren(e["inner"][0])
            if self.it_type(tgt) is not None:
                v = self.it_lvalue(tgt)
                out.append("%slet %s := %s %s" % (pad, v.name, "CSemIter.ptrNext" if v.t[1] == "data" else "CSemIter.itNext", v.name))
                self.tr.ptr_sites.append({"fn": self.lean_name, "line": e.get("_line"), "op": "++%s (no wrap: leaving the sequence is undefined in C++)" % v.name})
            else:
                v = self.target(tgt)
                if v.t != U64 or not v.init:
                    fail(e, "++ on a variable that is not an initialised size_t")
                self.note_size_t(e, "unsigned long ++")
                out.append("%slet %s := CSem.addU 64 %s 1" % (pad, v.name, v.name))
                self.incremented.append(v)
            self.wrote(v)
            return
        if e.get("kind") == "CXXOperatorCallExpr":
            kind, name, did = c.callee_decl(e)
            if name != "operator++" or self.itk != "vec" or len(e["inner"]) != 2:
                fail(e, "operator call %r in an increment" % name)
            for x in (e, e["inner"][0], e["inner"][0]["inner"][0]):
                self.count(x)
            v = self.it_lvalue(e["inner"][1])
            out.append("%slet %s := CSemIter.itNext %s" % (pad, v.name, v.name))
            self.tr.ptr_sites.append({"fn": self.lean_name, "line": e.get("_line"), "op": "++%s (no wrap: leaving the sequence is undefined in C++)" % v.name})
            self.wrote(v)
            return
        fail(e, "increment expression")

    def conjuncts(self, n):
        n = c.unparen(n)
        if n.get("kind") == "BinaryOperator" and n.get("opcode") == "&&":
            return self.conjuncts(n["inner"][0]) + self.conjuncts(n["inner"][1])
        return [n]

    def while_for(self, s, ind):
        """for (; cond; ++a, ++b, …) body  — general loop as CSem.whileFuel"""
        pad = "  " * ind
        self.count(s)
        init, _, cond, inc, body = s["inner"]
        if (init or {}).get("kind") or not (cond or {}).get("kind") or not (inc or {}).get("kind"):
            fail(s, "for statement shape (expected `for (; cond; increments)`)")
        ipad = pad + "      "
        # body + increments in a scope; the state is what they assign
        before_ids = set(self.env) | set(self.slots)
        outer = list(self.order)
        w = set()
        self.wstack.append(w)
        self.incremented = []
        blines = self.stmts(self.block_list(body), ind + 3)
        body_written = set(w)
        ilines = []
        self.incremented = []
        self.incr(inc, ipad, ilines)
        inc_vars = list(self.incremented)
        self.wstack.pop()
        for did in [d for d in list(self.env) + list(self.slots) if d not in before_ids]:
            self.drop(did)
        objs = [o for o in outer if o in w]
        if not objs:
            fail(s, "loop without effect on the translated state")
        self.check_init(objs, s, "the loop")
        for o in objs:
            self.wrote(o)
        # termination: a conjunct `v < B`, v advanced by ++v in the increment part only, B not assigned in the loop
        ok = None
        for cj in self.conjuncts(cond):
            if cj.get("kind") == "BinaryOperator" and cj.get("opcode") == "<":
                l, r = [c.unparen(x) for x in cj["inner"]]
                while l.get("kind") == "ImplicitCastExpr" and l.get("castKind") == "LValueToRValue":
                    l = c.unparen(l["inner"][0])
                v = self.env.get(l.get("referencedDecl", {}).get("id")) if l.get("kind") == "DeclRefExpr" else None
                if v is None or v.t != U64 or v not in inc_vars or v in body_written and v not in inc_vars:
                    continue
                if any(o in body_written for o in [v]) and False:
                    continue
                rids = c_refs(r)
                if any(self.env.get(i) in objs or self.slots.get(i) in objs for i in rids):
                    continue
                ok = v
                break
        if ok is None:
            fail(s, "loop whose termination is not evident (no conjunct `v < B` with v a size_t advanced by ++v and B loop-invariant)")
        cv = self.expr(cond)
        if cv.t[0] != "B":
            fail(cond, "condition type")
        tup = self.tuple_of(objs)
        st = objs[0].name if len(objs) == 1 else "st"
        out = ["%s-- %s" % (pad, self.src(s)),
               "%s--   fuel 2^64: `%s` (size_t) is advanced by ++%s in every iteration and stays below the loop-invariant bound, so the loop ends earlier" % (pad, ok.name, ok.name),
               "%slet %s := CSem.whileFuel (fun %s =>" % (pad, st, st)]
        out += self.unpack(objs, "st", ipad)
        out.append("%s%s) (fun %s =>" % (ipad, cv.s, st))
        out += self.unpack(objs, "st", ipad)
        out += blines + ilines
        out.append("%s%s) (%s) %s" % (ipad, tup, WHILE_FUEL, tup))
        out += self.unpack(objs, "st", pad)
        self.tr.while_sites.append({"fn": self.lean_name, "line": s.get("_line"), "counter": ok.name, "fuel": WHILE_FUEL})
        return out

    def stmts(self, lst, ind):
        out = []
        pad = "  " * ind
        for idx, s0 in enumerate(lst):
            s = strip_cleanups(s0)
            k = s.get("kind")
            if self.is_assert(s):
                out.append("%s-- %s   (precondition on the ADDRESS of _data; not part of the value model)" % (pad, self.src(s)))
                continue
            if k == "DeclStmt" and len(s["inner"]) == 1 and s["inner"][0].get("kind") == "VarDecl" and self.it_type(s["inner"][0]) is not None:
                d = s["inner"][0]
                self.count(s)
                self.count(d)
                e = [x for x in d.get("inner", []) if "kind" in x]
                if d.get("init") != "c" or len(e) != 1 or d.get("storageClass"):
                    fail(d, "iterator / pointer variable without a `= value` initialiser")
                v = self.it_value(e[0])
                t = self.it_type(d)
                if v.t != t:
                    fail(d, "initialiser of an iterator of another sequence")
                var = Var(self.new_name(d), t, True, None, False)
                self.env[d["id"]] = var
                self.order.append(var)
                out.append("%s-- %s" % (pad, self.src(s)))
                out.append("%slet %s := %s" % (pad, var.name, v.s))
                continue
            if k == "IfStmt" and len(s["inner"]) == 2 and self.is_throw_block(s["inner"][1]):
                if self.wstack and len(self.wstack) > 1 or self.stored:
                    fail(s, "throw that is not a top-level statement before every store")
                self.count(s)
                cnd = self.expr(s["inner"][0])
                if cnd.t[0] != "B":
                    fail(s, "condition type")
                out.append("%s-- %s" % (pad, self.src(s)))
                out.append("%sif %s then" % (pad, cnd.s))
                out.append("%s  -- %s   (nothing was stored before)" % (pad, self.src(strip_cleanups(self.block_list(s["inner"][1])[0]))))
                out.append("%s  none" % pad)
                out.append("%selse" % pad)
                self.tr.throws.append({"fn": self.lean_name, "line": s.get("_line"), "what": "std::runtime_error"})
                continue
            if k == "BinaryOperator" and s.get("opcode") == "=" and c.unparen(s["inner"][0]).get("kind") == "UnaryOperator":
                u = self.strip_paren(s["inner"][0])          # *iter = v
                self.count(s)
                self.count(u)
                if u.get("opcode") != "*":
                    fail(s, "assignment through %r" % u.get("opcode"))
                q = self.it_value(u["inner"][0])
                if q.t != ("P", "data"):
                    fail(s, "store through a pointer that does not point into _data")
                v = self.expr(s["inner"][1])
                if v.t != ("U", self.w) or ctype(s) != v.t:
                    fail(s, "type of the stored word")
                out.append("%s-- %s" % (pad, self.src(s)))
                out.append("%slet data := CSemIter.store data %s (%s)" % (pad, q.p(), v.s))
                self.wrote(self.data)
                self.stored = True
                continue
            if k == "BinaryOperator" and s.get("opcode") == "=" and self.it_type(s) is not None:      # viter = first
                self.count(s)
                v = self.it_lvalue(s["inner"][0])
                r = self.it_value(s["inner"][1])
                if r.t != v.t:
                    fail(s, "assignment of an iterator of another sequence")
                out.append("%s-- %s" % (pad, self.src(s)))
                out.append("%slet %s := %s" % (pad, v.name, r.s))
                self.wrote(v)
                continue
            if k == "CXXOperatorCallExpr" and self.it_type(s) is not None:                             # viter = first (class type)
                kind, name, did = c.callee_decl(s)
                if name != "operator=" or self.itk != "vec" or len(s["inner"]) != 3:
                    fail(s, "operator call %r as a statement" % name)
                for x in (s, s["inner"][0], s["inner"][0]["inner"][0]):
                    self.count(x)
                v = self.it_lvalue(s["inner"][1])
                r = self.it_lvalue(s["inner"][2])
                if r.t != v.t:
                    fail(s, "assignment of an iterator of another sequence")
                out.append("%s-- %s" % (pad, self.src(s)))
                out.append("%slet %s := %s" % (pad, v.name, r.name))
                self.wrote(v)
                continue
            if k == "ForStmt" and not (s["inner"][0] or {}).get("kind"):
                out += self.while_for(s, ind)
                continue
            out += c.CrtFn.stmts(self, [s], ind)
        return out

    # ---------- whole function
    def translate(self, m):
        self.method = m
        self.count(m)
        self.data = c.Slot("data", "words", True, writable=True, all_init=True)
        self.vals = c.Slot("vals", "mpzarr", True, writable=False, all_init=True)
        self.order += [self.data, self.vals]
        self.names["data"] = "data"
        self.names["vals"] = "vals"
        for ch in m.get("inner", []):
            k = ch.get("kind")
            if k in ("CompoundStmt", "TemplateArgument"):
                continue
            if k != "ParmVarDecl":
                fail(ch, "unexpected child of the function")
            self.count(ch)
            t = self.it_type(ch)
            if t != ("P", "vals"):
                fail(ch, "parameter of type %r is not the iterator type" % c.qual(ch))
            v = Var(self.new_name(ch), t, True, None, True)
            self.env[ch["id"]] = v
            self.cparams.append((v.name, "Nat"))
        if [p for p, _ in self.cparams] != ["first", "last"]:
            fail(m, "parameters are not (first, last)")
        body = c.body_of(m)
        self.count(body)
        self.wstack.append(set())
        lines = self.stmts(body.get("inner", []), 1)
        self.wstack.pop()
        lines.append("  some data")
        self.body_lines = lines
        return self

    def render(self):
        doc = ["/-- `nfl::poly<T,Degree,NbModuli>::set_mpz<It>(It first, It last)`  (%s:%s), T = %s; It = `mpz_class const*` and"
               % (self.tr.short(self.method.get("_file")), self.method.get("_line"), self.tr.cname[self.suffix]),
               "`std::vector<mpz_class>::iterator` (same text).  `P` = nfl::params<T>::P (get_modulus(cm) = P[cm]); `data` = the words `_data` of the",
               "object before the call; `vals` = the sequence the iterators point into, `first` / `last` = their indices.",
               "Result: `none` = std::runtime_error thrown (before any store), `some data'` = the words after a normal return. -/",
               "def %s (nmoduli degree : Nat) (P : List Nat) (data : List Nat) (vals : List Int) (first last : Nat) : Option (List Nat) :=" % self.lean_name]
        return "\n".join(doc + self.body_lines)


def ctype_or_none(n):
    try:
        return ctype(n)
    except Unsupported:
        return None


def c_refs(n, acc=None):
    acc = set() if acc is None else acc
    if isinstance(n, dict):
        rd = n.get("referencedDecl")
        if rd and "id" in rd:
            acc.add(rd["id"])
        for x in n.get("inner", []):
            c_refs(x, acc)
    return acc


# ------------------------------------------------------------------------------------------------ forwarding members
class Fwd:
    """a member whose body is ONE call of another translated member"""
    PRM = {"mpz_t": ("v", "Int", r"const mpz_t &"), "class": ("v", "Int", r"const mpz_class &"),
           "il": ("values", "List Int", r"const std::initializer_list<mpz_class> &"),
           "arr": ("values", "List Int", r"const std::array<mpz_class, \d+(UL)?> &")}

    def __init__(self, tr, key, suf, inst, m):
        self.tr, self.key, self.suf, self.inst, self.m = tr, key, suf, inst, m
        self.lean_name = "%s_%s" % (key, suf)
        self.nodes = 0

    def count(self, n):
        self.nodes += 1
        self.tr.kinds[n.get("kind")] = self.tr.kinds.get(n.get("kind"), 0) + 1

    def translate(self, table):
        m = self.m
        self.count(m)
        prms = [x for x in m.get("inner", []) if x.get("kind") == "ParmVarDecl"]
        other = [x for x in m.get("inner", []) if x.get("kind") not in ("ParmVarDecl", "CompoundStmt", "CXXCtorInitializer")]
        inits = [x for x in m.get("inner", []) if x.get("kind") == "CXXCtorInitializer"]
        if len(prms) != 1 or other:
            fail(m, "forwarding member shape")
        for x in inits:
            fail(x, "constructor with a member initialiser (the words `_data` are expected to be left uninitialised)")
        kind = self.key.split("_", 1)[1] if self.key.startswith("ctor_") else self.key[len("set_mpz_"):]
        kind = {"mpz_t": "mpz_t", "t": "mpz_t"}.get(kind, kind)
        pname, pty, pre = self.PRM[kind]
        p = prms[0]
        self.count(p)
        if not re.fullmatch(pre, squash(p["type"]["qualType"])) or p.get("name") != pname:
            fail(p, "parameter %r of type %r" % (p.get("name"), p["type"]["qualType"]))
        if kind == "arr" and int(re.search(r"(\d+)", p["type"]["qualType"]).group(1)) != self.inst["degree"]:
            fail(p, "array extent is not Degree")
        self.pname, self.pty, self.kind = pname, pty, kind
        body = c.body_of(m)
        self.count(body)
        st = body.get("inner", [])
        if len(st) != 1:
            fail(body, "forwarding member with %d statements" % len(st))
        s = st[0]
        while s.get("kind") == "ExprWithCleanups":
            self.count(s)
            s = s["inner"][0]
        if s.get("kind") != "CXXMemberCallExpr":
            fail(s, "forwarding member whose statement is not a member call")
        self.count(s)
        me = s["inner"][0]
        if me.get("kind") != "MemberExpr" or not me.get("isArrow") or me["inner"][0].get("kind") != "CXXThisExpr":
            fail(s, "call that is not this->member(...)")
        self.count(me)
        self.count(me["inner"][0])
        target = table.get(me.get("referencedMemberDecl"))
        if target is None:
            fail(s, "call of the member %r (decl %s), which is not one of the translated set_mpz overloads" % (me.get("name"), me.get("referencedMemberDecl")))
        args = s["inner"][1:]
        self.src = "%s:%s  %s" % (self.tr.short(s.get("_file")), s.get("_line"), self.tr.source_line(s.get("_file"), s.get("_line")))
        if isinstance(target, SetFn):
            if len(args) != 2:
                fail(s, "argument count")
            a = [self.seq_end(x, pname) for x in args]
            if a[0][0] != "begin" or a[1][0] != "end":
                fail(s, "arguments are not (values.begin(), values.end())")
            self.call = "%s nmoduli degree P data %s CSemIter.seqBegin %s" % (target.lean_name, pname, a[1][1])
        else:
            if len(args) != 1:
                fail(s, "argument count")
            self.call = "%s nmoduli degree P data %s" % (target.lean_name, self.seq_arg(args[0], target))
        self.target = target.lean_name
        return self

    def seq_end(self, x, pname):
        """values.begin() / values.end()"""
        if x.get("kind") != "CXXMemberCallExpr" or len(x["inner"]) != 1:
            fail(x, "iterator argument is not values.begin() / values.end()")
        me = x["inner"][0]
        o = me["inner"][0] if me.get("inner") else {}
        if me.get("kind") != "MemberExpr" or me.get("isArrow") or o.get("kind") != "DeclRefExpr" or o.get("referencedDecl", {}).get("name") != pname \
                or o.get("referencedDecl", {}).get("kind") != "ParmVarDecl":
            fail(x, "iterator argument is not values.begin() / values.end()")
        for y in (x, me, o):
            self.count(y)
        # the class of the member is the (checked) declared type of the parameter: std::array<mpz_class,Degree> / std::initializer_list<mpz_class>
        # (declarations outside nfl:: are not in the filtered dump); the member is identified BY NAME
        want = {"arr": r"const std::array<mpz_class, \d+(UL)?>", "il": r"const std::initializer_list<mpz_class>"}[self.kind]
        if not re.fullmatch(want, squash(o["type"]["qualType"])) or me.get("name") not in ("begin", "end"):
            fail(x, "call of %r on an object of type %r (expected begin / end of the parameter)" % (me.get("name"), o["type"]["qualType"]))
        if me["name"] == "begin":
            return ("begin", "CSemIter.seqBegin")
        return ("end", "(CSemIter.arrEnd degree)" if self.kind == "arr" else "(CSemIter.ilEnd %s)" % pname)

    def seq_arg(self, x, target):
        """argument of a call of another forwarding member: the parameter itself, or a braced list of mpz_class copies"""
        if x.get("kind") == "DeclRefExpr":
            self.count(x)
            if x.get("referencedDecl", {}).get("name") != self.pname or target.kind != self.kind:
                fail(x, "argument forwarded to an overload of another parameter type")
            return self.pname
        chain = ["MaterializeTemporaryExpr", "CXXStdInitializerListExpr", "MaterializeTemporaryExpr", "CXXBindTemporaryExpr", "InitListExpr"]
        for kx in chain:
            if x.get("kind") != kx:
                fail(x, "argument is not a braced list of mpz_class (expected %s)" % kx)
            self.count(x)
            if kx != "InitListExpr":
                x = x["inner"][0]
        if target.kind != "il":
            fail(x, "braced list passed to an overload that does not take std::initializer_list<mpz_class>")
        elems = []
        for e in x.get("inner", []):
            while e.get("kind") in ("ImplicitCastExpr", "CXXFunctionalCastExpr", "CXXBindTemporaryExpr") and e.get("castKind", "NoOp") in ("NoOp", "ConstructorConversion"):
                self.count(e)
                e = e["inner"][0]
            if e.get("kind") != "CXXConstructExpr" or len(e.get("inner", [])) != 1 or squash(c.qual(e)) not in (MPZC, "const " + MPZC):
                fail(e, "list element is not the construction of an mpz_class from one argument")
            self.count(e)
            a = e["inner"][0]
            if a.get("kind") == "ImplicitCastExpr" and a.get("castKind") == "ArrayToPointerDecay":      # mpz_class(mpz_srcptr)
                self.count(a)
                a = a["inner"][0]
                if self.kind != "mpz_t":
                    fail(a, "construction of an mpz_class from an mpz_t that is not the parameter")
            elif self.kind != "class":
                fail(a, "copy construction of an mpz_class from something that is not the parameter")
            if a.get("kind") != "DeclRefExpr" or a.get("referencedDecl", {}).get("name") != self.pname:
                fail(a, "mpz_class constructed from something that is not the parameter")
            self.count(a)
            elems.append("CSemIter.mpzClassOf %s" % self.pname)
        return "[" + ", ".join(elems) + "]"

    WHAT = {"set_mpz_il": "set_mpz(std::initializer_list<mpz_class> const& values)", "set_mpz_arr": "set_mpz(std::array<mpz_class,Degree> const& values)",
            "set_mpz_class": "set_mpz(mpz_class const& v)", "set_mpz_t": "set_mpz(mpz_t const& v)",
            "ctor_mpz_t": "poly(mpz_t const& v)", "ctor_class": "poly(mpz_class const& v)",
            "ctor_il": "poly(std::initializer_list<mpz_class> const& values)", "ctor_arr": "poly(std::array<mpz_class,Degree> const& values)"}

    def render(self):
        doc = "/-- `nfl::poly<T,Degree,NbModuli>::%s`  (%s:%s), T = %s" % (self.WHAT[self.key], self.tr.short(self.m.get("_file")), self.m.get("_line"), self.tr.cname[self.suf])
        if self.key.startswith("ctor_"):
            doc += "; `data` = the (uninitialised, hence arbitrary) words of the new object"
        doc += ". -/"
        return "\n".join([doc, "def %s (nmoduli degree : Nat) (P : List Nat) (data : List Nat) (%s : %s) : Option (List Nat) :=" % (self.lean_name, self.pname, self.pty),
                          "  -- %s" % self.src, "  " + self.call])


FWD_ORDER = ["set_mpz_il", "set_mpz_arr", "set_mpz_class", "set_mpz_t", "ctor_mpz_t", "ctor_class", "ctor_il", "ctor_arr"]


class SetMpzTranslator(c.CrtTranslator):
    def load(self, txt):
        c.CrtTranslator.load(self, txt)
        self.addr_pre, self.throws, self.ptr_sites, self.while_sites = [], [], [], []

    def poly_spec(self, cname, deg, nm):
        found = [n for n in self.byid.values() if n.get("kind") == "ClassTemplateSpecializationDecl" and n.get("name") == "poly"
                 and c.targs(n) == [cname, deg, nm] and "inner" in n]
        found = list({n["id"]: n for n in found}.values())
        if len(found) != 1:
            raise Unsupported("%d definitions of nfl::poly<%s,%d,%d> found" % (len(found), cname, deg, nm))
        return found[0]

    def members(self, cls):
        """instantiated bodies: {'it:ptr': decl, 'it:vec': decl, 'set_mpz_il': decl, …}"""
        out = {}

        def put(key, d):
            if key in out and out[key]["id"] != d["id"]:
                raise Unsupported("two instantiated bodies for %s" % key)
            out[key] = d
        pk = {"const mpz_t &": "mpz_t", "const mpz_class &": "class", "const std::initializer_list<mpz_class> &": "il"}
        for ch in cls.get("inner", []):
            k = ch.get("kind")
            if k == "FunctionTemplateDecl" and ch.get("name") == "set_mpz":
                for sp in ch.get("inner", []):
                    if sp.get("kind") == "CXXMethodDecl" and c.has_body(sp):
                        ps = [squash(p["type"]["qualType"]) for p in sp["inner"] if p.get("kind") == "ParmVarDecl"]
                        for itk, q in IT_QUALS.items():
                            if ps == [q, q]:
                                put("it:" + itk, sp)
            if k in ("CXXMethodDecl", "CXXConstructorDecl") and c.has_body(ch) and (k == "CXXConstructorDecl" or ch.get("name") == "set_mpz"):
                ps = [squash(p["type"]["qualType"]) for p in ch["inner"] if p.get("kind") == "ParmVarDecl"]
                if len(ps) != 1:
                    continue
                kind = pk.get(ps[0]) or ("arr" if re.fullmatch(r"const std::array<mpz_class, \d+(UL)?> &", ps[0]) else None)
                if kind is None:
                    continue
                if k == "CXXConstructorDecl":
                    put("ctor_" + ("mpz_t" if kind == "mpz_t" else kind), ch)
                else:
                    put("set_mpz_" + ("t" if kind == "mpz_t" else kind), ch)
        return out


def make_tu():
    os.makedirs(g.BUILD, exist_ok=True)
    tu = os.path.join(g.BUILD, "setmpz_ast_tu.cpp")
    lines = ['#include "nfl.hpp"', "#include <vector>"]
    for t, _, suf in g.TYPES:
        for d, m in INSTS[suf]:
            p = "nfl::poly<%s, %d, %d>" % (t, d, m)
            for _, it in ITS:
                lines.append("template void %s::set_mpz<%s>(%s, %s);" % (p, it, it, it))
            for a in ("mpz_t const&", "mpz_class const&", "std::array<mpz_class, %d> const&" % d, "std::initializer_list<mpz_class> const&"):
                lines.append("template void %s::set_mpz(%s);" % (p, a))
                lines.append("template %s::poly(%s);" % (p, a))
    open(tu, "w").write("\n".join(lines) + "\n")
    return tu


def translate_inst(tr, cname, suf, deg, nm):
    w = int(suf[1:])
    cls = tr.poly_spec(cname, deg, nm)
    ms = tr.members(cls)
    need = ["it:ptr", "it:vec"] + FWD_ORDER
    missing = [k for k in need if k not in ms]
    if missing:
        raise Unsupported("no instantiated body of nfl::poly<%s,%d,%d> for %s" % (cname, deg, nm, ", ".join(missing)))
    inst = {"degree": deg, "nmoduli": nm}
    its = {}
    for itk, _ in ITS:
        marks = [len(x) for x in (tr.size_t_sites, tr.addr_pre, tr.throws, tr.ptr_sites, tr.while_sites)]
        fn = SetFn(tr, "set_mpz_it", suf, w, inst, itk)
        fn.translate(ms["it:" + itk])
        its[itk] = fn
        if itk != "ptr":
            for lst, mk in zip((tr.size_t_sites, tr.addr_pre, tr.throws, tr.ptr_sites, tr.while_sites), marks):
                del lst[mk:]
    if its["ptr"].render() != its["vec"].render():
        raise Unsupported("set_mpz<mpz_class const*> and set_mpz<std::vector<mpz_class>::iterator> of poly<%s,%d,%d> do not translate to the same text" % (cname, deg, nm))
    table = {ms["it:ptr"]["id"]: its["ptr"], ms["it:vec"]["id"]: its["vec"]}
    fwds = []
    for key in FWD_ORDER:
        f = Fwd(tr, key, suf, inst, ms[key])
        f.translate(table)
        table[ms[key]["id"]] = f
        fwds.append(f)
    return its["ptr"], its["vec"], fwds


def main():
    repo = os.environ.get("VERIF_REPO", "/repo")
    out = OUT
    if "--repo" in sys.argv:
        repo = sys.argv[sys.argv.index("--repo") + 1]
    if "--out" in sys.argv:
        out = sys.argv[sys.argv.index("--out") + 1]
    repo = os.path.abspath(repo)
    txt = c.clang_ast(repo, make_tu())
    if "--keep" in sys.argv:
        open(os.path.join(g.BUILD, "setmpz_ast_dump.json"), "w").write(txt)
    tr = SetMpzTranslator(repo)
    try:
        tr.load(txt)
        texts, first = {}, []
        for _, cname, suf in g.TYPES:
            per = []
            for k, (d, m) in enumerate(INSTS[suf]):
                marks = [len(x) for x in (tr.size_t_sites, tr.addr_pre, tr.throws, tr.ptr_sites, tr.while_sites)]
                fp, fv, fwds = translate_inst(tr, cname, suf, d, m)
                per.append("\n\n".join([fp.render()] + [f.render() for f in fwds]))
                if k == 0:
                    first += [fp, fv] + fwds
                else:
                    for lst, mk in zip((tr.size_t_sites, tr.addr_pre, tr.throws, tr.ptr_sites, tr.while_sites), marks):
                        del lst[mk:]
                if per[k] != per[0]:
                    raise Unsupported("poly<%s,%d,%d> and poly<%s,%d,%d> do not translate to the same text up to the parameters nmoduli / degree"
                                      % ((cname,) + INSTS[suf][0] + (cname, d, m)))
            texts[suf] = per[0]
    except Unsupported as e:
        msg = "gen_setmpz_ast: UNSUPPORTED C++ construct, nothing translated: %s" % e
        sys.stderr.write(msg + "\n")
        print(json.dumps({"ok": False, "err": msg}))
        sys.exit(3)
    head = [
        "-- GENERATED by tools/gen_setmpz_ast.py from clang++-14's typed AST of include/nfl/gmp.hpp (poly::set_mpz<It>(It,It), the set_mpz overloads",
        "-- and constructors forwarding to it) and include/nfl/poly.hpp (begin(), get_modulus).  Do not edit.",
        "-- Instantiations poly<T,Degree,NbModuli>: " + "; ".join("%s: %s" % (t, ", ".join("<%d,%d>" % dm for dm in INSTS[s])) for t, _, s in g.TYPES) +
        "; It = mpz_class const*, std::vector<mpz_class>::iterator",
        "-- — for every T all four give the text below (nmoduli, degree are parameters).  One `let` per C++ statement; GMP calls = Model/GmpSem.lean,",
        "-- integer expressions = Model/CSem.lean, iterators / pointers / mpz_class = Model/CSemIter.lean; `none` = std::runtime_error thrown.",
        "import NflVerif.Model.CSem",
        "import NflVerif.Model.GmpSem",
        "import NflVerif.Model.CSemIter",
        "namespace Nfl.Gen",
        "open Nfl",
        "set_option linter.unusedVariables false   -- a C++ variable that is dead after its last assignment",
        "",
    ]
    text = "\n".join(head) + "\n" + "\n\n".join(texts[s] for _, _, s in g.TYPES) + "\n\nend Nfl.Gen\n"
    changed = g.write_if_changed(out, text)
    uniq = lambda l: [json.loads(x) for x in dict.fromkeys(json.dumps(x, sort_keys=True) for x in l)]
    print(json.dumps({
        "ok": True, "functions": [f.lean_name for f in first if not (isinstance(f, SetFn) and f.itk == "vec")],
        "nodes": sum(f.nodes for f in first), "node_kinds": dict(sorted(tr.kinds.items())), "gmp_calls": dict(sorted(tr.gmp_calls.items())),
        "instantiations_compared": {s: {"degree_nmoduli": INSTS[s], "It": [i for _, i in ITS]} for _, _, s in g.TYPES},
        "size_t_sites": uniq(tr.size_t_sites), "pointer_sites": uniq(tr.ptr_sites), "while_sites": uniq(tr.while_sites),
        "throws": uniq(tr.throws), "address_preconditions": uniq(tr.addr_pre),
        "not_translated": ["poly::operator=(mpz_t / mpz_class / array / initializer_list) of poly.hpp ({ set_mpz(v); return *this; })",
                           "poly_p's forwarding wrappers (C14)", "set_mpz / constructor from std::array<mpz_t,Degree> (uninstantiable)"],
        "sha": hashlib.sha256(text.encode()).hexdigest()[:16], "changed": changed,
        "out": os.path.relpath(out, g.VERIF), "repo": repo}))


if __name__ == "__main__":
    main()
