#!/usr/bin/env python3
"""Translator for C17: static-storage footprint of NFLlib's arithmetic API, extracted from the real binary.

  harness/footprint.cpp  --g++ -no-pie-->  build/footprint_<backend>  --valgrind lackey--> memory trace
  --> lean/NflVerif/Generated/Footprint.lean  (`def footprint : List OpFootprint`)

* The harness is linked NON-PIE, so `.data`/`.bss` of the executable sit at their link-time addresses
  (`readelf -S`), and `nm -S` maps an address to the static object it belongs to.  All of NFLlib's statics
  (header statics `poly<>::base`, `poly<>::gmp`, `permut<>::P`, `params<>::P…`, and the file-scope statics of
  lib/) live there.  Statics that are internal to shared objects (libc, libstdc++, libgmp: malloc arenas, locale
  tables, GMP's allocator hooks) are OUTSIDE this range and outside NFLlib; they are not part of the footprint
  (they are covered by the contract "libc/libstdc++/GMP are thread-safe for distinct objects" and, at run time,
  by ThreadSanitizer in harness/conc17.cpp).  `.got.plt` (lazy binding by ld.so) is not counted either.
* lackey prints one line per access (` S addr,size` store, ` L` load, ` M` modify = load+store), no values.
  Windows are delimited by stores to the marker *variables* vh_phase / vh_begin / vh_end (see the harness).
* Per operation window: every store that falls into [.data, .bss end) as (symbol, offset); number of loads
  from that range and the set of symbols read.
* FIRST USE: the harness is run once per configuration GROUP (`small`, `mid`, `big` = degree classes of the
  bit-reversal code path x limb widths, see harness/footprint.cpp), each in a fresh traced process, so every
  window is the first execution of that operation on that type after static initialisation.  The code BETWEEN two
  windows (construction of the operands) is part of the footprint as well: a store into static storage that
  happens after the end of window k-1 and before the end of window k is attributed to operation k (stores after
  the last window to the last operation).  Only the harness's own bookkeeping variables (HARNESS_SYMS) are exempt.
  A lazily initialised static is therefore seen whichever operation or constructor triggers it.
* The result is cached under build/ keyed by the hash of /repo's include+lib, of the harness and of this
  script; the Lean file is rewritten whenever its content changes.

Usage: gen_footprint.py [--repo /repo] [--force]       prints one JSON line (summary) on stdout
"""
import bisect, hashlib, json, os, re, subprocess, sys, time
from concurrent.futures import ThreadPoolExecutor

HERE = os.path.dirname(os.path.abspath(__file__))
VERIF = os.path.dirname(HERE)
BUILD = os.path.join(VERIF, "build")
GEN = os.path.join(VERIF, "lean", "NflVerif", "Generated")
HARNESS = os.path.join(VERIF, "harness", "footprint.cpp")

# configuration groups traced under valgrind-lackey (each in its own executable: only the group's types are
# instantiated, so only their static initialisation is traced) and the compile-time switches of the executable
# that runs EVERY configuration under the native write-protection instrument
LACKEY_GROUPS = {"quick": ["small", "mid"], "thorough": ["small", "mid", "big"]}
WP_DEFS = {"quick": ["-DFP_SMALL", "-DFP_MID", "-DFP_WPONLY", "-DFP_BIG"],
           "thorough": ["-DFP_SMALL", "-DFP_MID", "-DFP_WPONLY", "-DFP_BIG", "-DFP_HUGE"]}
HARNESS_SYMS = ("vh_wp", "vh_sink")      # written by the harness itself between / inside windows

BACKENDS = {
    "serial": ["-DNFL_OPTIMIZED"],
    "sse": ["-DNFL_OPTIMIZED", "-DNTT_SSE", "-msse4.2"],
    "avx2": ["-DNFL_OPTIMIZED", "-DNTT_AVX2", "-mavx2"],
}


def repo_hash(repo):
    h = hashlib.sha256()
    for root in ("include", "lib"):
        for dp, dn, fn in sorted(os.walk(os.path.join(repo, root))):
            dn.sort()
            for f in sorted(fn):
                p = os.path.join(dp, f)
                h.update(os.path.relpath(p, repo).encode())
                with open(p, "rb") as fh:
                    h.update(fh.read())
    return h.hexdigest()[:16]


def build(repo, backend, exe, defs=()):
    cmd = ["g++", "-std=gnu++17", "-O1", "-g", "-no-pie", "-fno-access-control", "-DNFLLIB_VERIF"] + list(defs) + BACKENDS[backend] + [
        "-I" + os.path.join(repo, "include"), "-I" + os.path.join(repo, "include", "nfl"),
        "-I" + os.path.join(repo, "include", "nfl", "prng"), "-I" + os.path.join(VERIF, "harness"),
        HARNESS, os.path.join(repo, "lib", "params", "params.cpp"),
        os.path.join(repo, "lib", "prng", "fastrandombytes.cpp"), os.path.join(repo, "lib", "prng", "randombytes.cpp"),
        os.path.join(repo, "lib", "prng", "nfl_crypto_stream_salsa20_amd64_xmm6.s"),
        "-o", exe, "-lgmpxx", "-lgmp", "-lmpfr", "-lpthread"]
    r = subprocess.run(cmd, capture_output=True, text=True)
    if r.returncode != 0:
        raise RuntimeError("footprint harness does not compile (%s):\n%s" % (backend, (r.stdout + r.stderr)[-3000:]))


def static_range(exe):
    """Writable static storage of the executable: sections .data* / .bss* (not .data.rel.ro, .got*, .init_array)."""
    out = subprocess.run(["readelf", "-S", "-W", exe], capture_output=True, text=True, check=True).stdout
    secs = []
    for m in re.finditer(r"\]\s+(\S+)\s+(PROGBITS|NOBITS)\s+([0-9a-f]+)\s+[0-9a-f]+\s+([0-9a-f]+)\s+\S+\s+(\S+)", out):
        name, _, addr, size, flags = m.groups()
        if "W" in flags and (name == ".data" or name == ".bss" or name.startswith(".data.") or name.startswith(".bss.")) \
                and not name.startswith(".data.rel.ro"):
            secs.append((name, int(addr, 16), int(size, 16)))
    if not secs:
        raise RuntimeError("no .data/.bss found in " + exe)
    hdr = subprocess.run(["readelf", "-h", exe], capture_output=True, text=True, check=True).stdout
    if not re.search(r"Type:\s+EXEC", hdr):
        raise RuntimeError("harness was not linked as a non-PIE executable: addresses are not link-time addresses")
    return secs


def symbols(exe, secs):
    lo = min(a for _, a, _ in secs)
    hi = max(a + s for _, a, s in secs)
    out = subprocess.run(["nm", "-S", "-C", "--defined-only", exe], capture_output=True, text=True, check=True).stdout
    syms = []
    for line in out.splitlines():
        m = re.match(r"([0-9a-f]+) ([0-9a-f]+) (\S) (.*)$", line)
        if not m:
            m2 = re.match(r"([0-9a-f]+) (\S) (.*)$", line)
            if not m2:
                continue
            a, sz, ty, nm = int(m2.group(1), 16), 0, m2.group(2), m2.group(3)
        else:
            a, sz, ty, nm = int(m.group(1), 16), int(m.group(2), 16), m.group(3), m.group(4)
        if ty in "bBdDuUvVgGsS" and lo <= a < hi:
            syms.append((a, sz, nm))
    syms.sort()
    return syms


def sym_of(syms, starts, addr):
    i = bisect.bisect_right(starts, addr) - 1
    if i >= 0:
        a, sz, nm = syms[i]
        if addr < a + max(sz, 1):
            return nm, addr - a
        return "(after %s)" % nm, addr - a
    return "(unknown)", addr


def trace(exe, backend, group):
    t_start = time.time()
    secs = static_range(exe)
    lo = min(a for _, a, _ in secs)
    hi = max(a + s for _, a, s in secs)
    syms = symbols(exe, secs)
    starts = [s[0] for s in syms]
    mark = {}
    for a, sz, nm in syms:
        if nm in ("vh_phase", "vh_begin", "vh_end", "vh_sink"):
            mark[nm] = a
    if len(mark) != 4:
        raise RuntimeError("marker variables not found by nm")
    # op list (native run)
    r = subprocess.run([exe, group], capture_output=True, text=True, check=True)
    ops = []
    for l in r.stdout.splitlines():
        f = l.split()
        if f and f[0] == "op":
            assert int(f[1]) == len(ops)
            ops.append((f[2], f[3]))
    # lackey, stream-parsed; a grep prefilter keeps only accesses whose address shares the common hex prefix
    # of the static range (instruction lines and stack/heap traffic are dropped before Python sees them)
    lo_s, hi_s = "%08x" % lo, "%08x" % (hi - 1)
    pre = os.path.commonprefix([lo_s, hi_s])
    vg = subprocess.Popen(["valgrind", "--tool=lackey", "--trace-mem=yes", "--log-fd=2", exe, group],
                          stdout=subprocess.DEVNULL, stderr=subprocess.PIPE)
    try:    # a large pipe buffer: lackey writes ~10^7..10^8 short lines; fewer blocking writes / context switches
        import fcntl
        fcntl.fcntl(vg.stderr.fileno(), 1031, 1 << 20)     # F_SETPIPE_SZ
    except Exception:
        pass
    gr = subprocess.Popen(["grep", "-a", "-E", "^ [SLM] " + pre], stdin=vg.stderr, stdout=subprocess.PIPE, text=True)
    vg.stderr.close()
    phase = 0           # 0 = static initialisation, 1 = op phase, 2 = after
    cur = None          # index of the open window
    nbegin = 0
    per = [dict(stores=[], setup=0, loads=0, loadsyms=set()) for _ in ops]
    init_stores = 0
    between_stores = {}  # harness bookkeeping between windows (symbol -> count)
    kept = 0
    for line in gr.stdout:
        kind = line[1]
        try:
            a_s, sz_s = line[3:].split(",")
            addr, sz = int(a_s, 16), int(sz_s)
        except ValueError:
            continue
        if not (lo <= addr < hi):
            continue
        kept += 1
        is_store = kind in "SM"
        is_load = kind in "LM"
        if is_store and addr == mark["vh_phase"]:
            phase += 1
            continue
        if is_store and addr == mark["vh_begin"]:
            if cur is not None:
                raise RuntimeError("nested window")
            cur = nbegin
            nbegin += 1
            continue
        if is_store and addr == mark["vh_end"]:
            if cur is None:
                raise RuntimeError("window closed twice")
            cur = None
            continue
        if phase == 0:
            init_stores += is_store
            continue
        if phase != 1:
            continue
        if cur is None:
            if is_store:
                nm, off = sym_of(syms, starts, addr)
                between_stores[nm] = between_stores.get(nm, 0) + 1
                if nm not in HARNESS_SYMS and per:
                    # preparation of operation `nbegin` (or clean-up after the last one): part of its footprint
                    k = min(nbegin, len(per) - 1)
                    per[k]["stores"].append((nm, off))
                    per[k]["setup"] += 1
            continue
        if cur >= len(per):
            raise RuntimeError("more windows than operations")
        nm, off = sym_of(syms, starts, addr)
        if is_store and nm in HARNESS_SYMS:
            continue
        if is_store:
            per[cur]["stores"].append((nm, off))
        if is_load:
            per[cur]["loads"] += 1
            per[cur]["loadsyms"].add(nm)
    gr.wait()
    vg.wait()
    if vg.returncode != 0:
        raise RuntimeError("valgrind failed rc=%d" % vg.returncode)
    if phase != 2 or nbegin != len(ops) or cur is not None:
        raise RuntimeError("marker protocol broken: phase=%d windows=%d ops=%d" % (phase, nbegin, len(ops)))
    res = []
    for (cfg, name), p in zip(ops, per):
        stores = sorted(set(p["stores"]))
        res.append({"backend": backend, "cfg": cfg, "op": name, "staticStores": stores[:64],
                    "nStaticStores": len(p["stores"]), "nSetupStores": p["setup"], "staticLoads": p["loads"],
                    "loadSyms": sorted(p["loadsyms"])})
    return {"backend": backend, "group": group, "ops": res, "init_stores": init_stores, "between_stores": between_stores,
            "static_range": [[n, a, s] for n, a, s in secs], "static_accesses_seen": kept,
            "trace_s": round(time.time() - t_start, 1)}


def trace_wp(exe, backend):
    """native write-protection instrument: one fresh process per configuration (see harness/footprint.cpp)"""
    t_start = time.time()
    secs = static_range(exe)
    syms = symbols(exe, secs)
    starts = [s[0] for s in syms]
    lo = min(a for _, a, _ in secs)
    hi = max(a + s for _, a, s in secs)
    cfgs = [l.split()[1] for l in subprocess.run([exe, "list"], capture_output=True, text=True, check=True).stdout.splitlines()
            if l.startswith("cfg ")]

    def one(cfg):
        # (the inverse transform keeps a `value_type y[degree+1]` on the stack: 8 MiB at degree 2^20)
        def big_stack():
            import resource
            soft, hard = resource.getrlimit(resource.RLIMIT_STACK)
            want = 256 << 20
            resource.setrlimit(resource.RLIMIT_STACK, (want if hard == resource.RLIM_INFINITY else min(want, hard), hard))
        r = subprocess.run([exe, "wp", cfg], capture_output=True, text=True, preexec_fn=big_stack)
        if r.returncode != 0:
            raise RuntimeError("write-protection run of %s/%s failed rc=%d: %s" % (backend, cfg, r.returncode, r.stderr[-500:]))
        ops, hits, end = [], [], None
        for l in r.stdout.splitlines():
            f = l.split()
            if not f:
                continue
            if f[0] == "op":
                assert int(f[1]) == len(ops)
                ops.append((f[2], f[3]))
            elif f[0] == "wp":
                hits.append((int(f[1]), int(f[2]), int(f[3])))
            elif f[0] == "wpend":
                end = (int(f[1]), int(f[2]))
        if end is None or end[0] != len(hits) or not ops or ops[-1][1] != "canary":
            raise RuntimeError("write-protection protocol broken for %s/%s" % (backend, cfg))
        per = [dict(stores=[], setup=0) for _ in ops]
        for k, addr, inw in hits:
            if not (lo <= addr < hi):
                continue
            nm, off = sym_of(syms, starts, addr)
            if nm in HARNESS_SYMS:
                continue
            k = min(k, len(ops) - 1)
            per[k]["stores"].append((nm, off))
            per[k]["setup"] += (0 if inw else 1)
        # the canary: the instrument must have seen exactly the deliberate store, in the canary's window
        if per[-1]["stores"] != [("vh_canary", 0)] or per[-1]["setup"]:
            raise RuntimeError("write-protection instrument did not see the canary store (%s/%s): %r" % (backend, cfg, per[-1]))
        out = []
        for (c, name), q in list(zip(ops, per))[:-1]:
            out.append({"backend": backend + "/wp", "cfg": c, "op": name, "staticStores": sorted(set(q["stores"]))[:64],
                        "nStaticStores": len(q["stores"]) + (end[1] if q["stores"] else 0), "nSetupStores": q["setup"],
                        "staticLoads": 0, "loadSyms": []})
        return out

    with ThreadPoolExecutor(max_workers=6) as ex:
        res = [o for part in ex.map(one, cfgs) for o in part]
    return {"backend": backend + "/wp", "group": "wp", "ops": res, "init_stores": 0, "between_stores": {},
            "static_range": [[n, a, s] for n, a, s in secs], "static_accesses_seen": 0, "configs": cfgs,
            "trace_s": round(time.time() - t_start, 1)}


def lean_str(s):
    return '"' + s.replace("\\", "\\\\").replace('"', '\\"') + '"'


def emit(data, rhash):
    L = []
    L.append("/- GENERATED by tools/gen_footprint.py from a valgrind-lackey trace of harness/footprint.cpp built against the")
    L.append("   repository (hash %s).  DO NOT EDIT.  One entry per (backend, configuration, arithmetic API operation):" % rhash)
    L.append("   the stores into the executable's .data/.bss observed inside the operation's window or in its preparation")
    L.append("   (after static initialisation; each configuration group runs in a fresh process, so the window is the FIRST")
    L.append("   execution of the operation), the number of loads from .data/.bss and the static objects read.")
    L.append("   Backend `<b>/wp` = the native write-protection instrument (stores only; every configuration, each in a fresh")
    L.append("   process); the other rows = valgrind-lackey trace. -/")
    L.append("import NflVerif.Model.FootprintDefs")
    L.append("namespace Nfl.Generated")
    L.append("open Nfl.Conc")
    L.append("")
    L.append("/-- stores into static storage during static initialisation (before `main`), per backend -/")
    L.append("def initStores : List (String × Nat) := [%s]" % ", ".join(
        "(%s, %d)" % (lean_str(d["backend"] + "/" + d["group"]), d["init_stores"]) for d in data if d["group"] != "wp"))
    L.append("")
    L.append("def footprint : List OpFootprint := [")
    rows = []
    for d in data:
        for o in d["ops"]:
            st = "[" + ", ".join("(%s, %d)" % (lean_str(n), off) for n, off in o["staticStores"]) + "]"
            ls = "[" + ", ".join(lean_str(n) for n in o["loadSyms"]) + "]"
            rows.append("  { backend := %s, cfg := %s, op := %s, staticStores := %s, staticLoads := %d,\n    staticLoadSyms := %s }" % (
                lean_str(o["backend"]), lean_str(o["cfg"]), lean_str(o["op"]), st, o["staticLoads"], ls))
    L.append(",\n".join(rows))
    L.append("]")
    L.append("")
    L.append("end Nfl.Generated")
    return "\n".join(L) + "\n"


def main():
    repo = "/repo"
    force = False
    tier = os.environ.get("VERIF_TIER", "quick")
    av = sys.argv[1:]
    while av:
        a = av.pop(0)
        if a == "--repo":
            repo = av.pop(0)
        elif a == "--force":
            force = True
        elif a == "--tier":
            tier = av.pop(0)
    if tier not in LACKEY_GROUPS:
        tier = "quick"
    os.makedirs(BUILD, exist_ok=True)
    os.makedirs(GEN, exist_ok=True)
    t0 = time.time()
    h = hashlib.sha256()
    rhash = repo_hash(repo)
    h.update(rhash.encode())
    h.update(open(HARNESS, "rb").read())
    h.update(open(os.path.abspath(__file__), "rb").read())
    h.update(tier.encode())
    key = h.hexdigest()[:12]
    cache = os.path.join(BUILD, "footprint_%s_%s.json" % (tier, key))
    cached = False
    if os.path.exists(cache) and not force:
        data = json.load(open(cache))
        cached = True
    else:
        groups = LACKEY_GROUPS[tier]
        # executables: `lk` (groups small+mid: cheap static initialisation, traced once per group), `big` (thorough), `wp`
        exe_of = lambda b, g: os.path.join(BUILD, "footprint_%s_%s_%s" % (b, {"small": "lk", "mid": "lk"}.get(g, g), key))
        defs_of = {"lk": ["-DFP_SMALL", "-DFP_MID"], "big": ["-DFP_BIG"], "wp": WP_DEFS[tier]}
        kinds = ["wp", "lk"] + (["big"] if "big" in groups else [])
        exes = {(b, k): os.path.join(BUILD, "footprint_%s_%s_%s" % (b, k, key)) for b in BACKENDS for k in kinds}
        jobs = [(b, g) for g in reversed(groups) for b in BACKENDS] + [(b, "wp") for b in BACKENDS]
        try:
            with ThreadPoolExecutor(max_workers=len(exes) + len(jobs)) as ex:
                built = {bk: ex.submit(build, repo, bk[0], exes[bk], defs_of[bk[1]]) for bk in exes}

                def one(j):
                    b, g = j
                    built[(b, {"small": "lk", "mid": "lk"}.get(g, g))].result()      # wait for (only) this job's executable
                    return trace_wp(exe_of(b, g), b) if g == "wp" else trace(exe_of(b, g), b, g)
                got = dict(zip(jobs, ex.map(one, jobs)))
            data = [got[(b, g)] for b in BACKENDS for g in groups] + [got[(b, "wp")] for b in BACKENDS]
        finally:
            for e in exes.values():
                try:
                    os.remove(e)
                except OSError:
                    pass
        for old in os.listdir(BUILD):
            if (old.startswith("footprint_%s_" % tier) or re.fullmatch(r"footprint_[0-9a-f]{12}\.json", old)) and old.endswith(".json"):
                os.remove(os.path.join(BUILD, old))
        json.dump(data, open(cache, "w"))
    text = emit(data, rhash)
    path = os.path.join(GEN, "Footprint.lean")
    old = open(path).read() if os.path.exists(path) else None
    if old != text:
        open(path, "w").write(text)
    offenders = [{"backend": o["backend"], "cfg": o["cfg"], "op": o["op"], "stores": o["staticStores"][:8], "n": o["nStaticStores"],
                  "in_preparation": o.get("nSetupStores", 0), "group": d["group"]}
                 for d in data for o in d["ops"] if o["nStaticStores"]]
    first = data[0]["backend"]
    summary = {
        "repo_hash": rhash, "cached": cached, "wall_s": round(time.time() - t0, 1),
        "tier": tier, "backends": sorted({d["backend"] for d in data}), "lackey_groups": LACKEY_GROUPS[tier],
        "wp_configs": next((d.get("configs") for d in data if d["group"] == "wp"), []),
        "configs": sorted({o["cfg"] for d in data for o in d["ops"]}),
        "trace_s": {d["backend"] + "/" + d["group"]: d.get("trace_s") for d in data},
        "ops_per_backend": sum(len(d["ops"]) for d in data if d["backend"] == first),
        "entries": sum(len(d["ops"]) for d in data),
        "init_stores": {d["backend"] + "/" + d["group"]: d["init_stores"] for d in data if d["group"] != "wp"},
        "static_loads_in_windows": sum(o["staticLoads"] for d in data for o in d["ops"]),
        "static_stores_in_windows": sum(o["nStaticStores"] for d in data for o in d["ops"]),
        "statics_read": sorted({s for d in data for o in d["ops"] for s in o["loadSyms"]}),
        "between_window_stores": {d["group"]: d["between_stores"] for d in data if d["backend"] == first},
        "fresh_processes": sum(len(d.get("configs", [1])) for d in data),
        "offenders": offenders[:40], "n_offenders": len(offenders),
        "static_range": data[0]["static_range"],
        "file_changed": old != text,
    }
    print(json.dumps(summary))


if __name__ == "__main__":
    try:
        main()
    except Exception as e:
        sys.stderr.write("gen_footprint: %s\n" % e)
        sys.exit(1)
