#!/usr/bin/env python3
"""Translator: clang's typed AST of the WHOLE sampler / setter members of nfl::poly (include/nfl/core.hpp) -> lean/NflVerif/Generated/SmpAst.lean

gen_set_ast.py translates the straight-line PIECES (one loop iteration) of these functions; this generator translates the rest — the statements
around the pieces: the calls of `fastrandombytes` with their request sizes, the loops over cm / i / k with their index expressions, the rejection
loop with the buffer refill, `std::iota` / `std::sort` / `memset`, the pointer and iterator walks, the throw / assert conditions — so that every
function becomes ONE Lean function of (parameters, initial memory, random tape) -> Smp.Res (final `_data`, tape state with the recorded requests):

    set_uniform_uW   set_bounded_uW (set(non_uniform))   set_zo_uW   set_hwt_uW   set_range_uW (set(It,It,bool), It = const T*)      W = 16, 32, 64

How a function is read (per node; unknown kind / callee / shape => non-zero exit with file:line, nothing written):
  * gen_set_ast's pieces are computed on the same AST (its code is imported, Piece.run is wrapped to record which statements each piece covers).
    A statement that belongs to a piece is NOT re-translated: the statement that produces the piece's result (`let v := piece args`, the store of
    the piece's cell, or the condition) becomes a CALL of the definition in Generated/SetAst.lean, with the arguments evaluated here from the AST
    (`p` = `P (index)`, a cell argument = `Smp.load array (index expression)`, variables by name).  The other statements of the piece are
    ABSORBED (they only define variables local to the piece: checked — declared inside the piece, never referenced outside it, and nothing they read
    is assigned between them and the call).  When a piece contains loops (its "transparent" loops) the loops are translated here and the call sits
    at the store; if the store sits in both branches of an `if` of the piece, both branches must have the SAME loop nest (compared node by node)
    and the nest is emitted once (the `if` is inside the piece).
  * `for (U i = a; i < B; ++i)` with i unsigned, not assigned in the body, B not depending on what the body assigns: CSemInit.forCount (a = 0, body
    cannot fail) or Smp.forFromM (fuel B - a); extra comma-increments are appended to the body.  `for (; i < B && c; ++i, …)`: CSem.whileFuel with
    fuel B (i grows by one per iteration and the condition implies i < B).  `for (;;)` ending in `if (c) { …; break; }`: Smp.loopM with the budget
    Smp.loopFuel io buf (buf = the one array the body refills with fastrandombytes); running out of budget is the distinct error `fuel`.
    Range-for over a local vector: StdSem.forEach (the body must not touch the vector).
  * arrays / vectors are `List Nat`, pointers / iterators element offsets into a statically known array (checked), `*q++` = load/store + ptrAdd;
    an uninitialised local array `T a[degree]` is the PARAMETER `a_init` (arbitrary contents);
  * `fastrandombytes(ptr, n)` = Smp.frb (ptr must be the start of an array); std::iota / sort / memset / distance / vector(n) / size / begin / end / data
    by NAME to Model/StdSem.lean (only on whole-vector ranges; anything else fails); `throw` = Smp.throwIf, `assert(c)` = Smp.assertThat — except the
    alignment assertions `(unsigned long)(this->_data) % 32 == 0` (pointer value: not representable; listed under "skipped");
  * `Degree` / `NbModuli` (template parameters) and the static members `degree` / `nmoduli` are the parameters degree / nmoduli (the members'
    initialisers are checked to be exactly the template parameters), `N` is translated from its initialiser; `sizeof(poly)` is the parameter
    `sizeof_poly` (the formula ((degree*nmoduli*sizeof(T) + 31)/32)*32 is checked with a static_assert for both instantiations); `sizeof(a)` for a local
    array `a[degree]` is Smp-free arithmetic `degree * sizeof(elem)` (source text `[degree]`/`[Degree]` and the extent of both instantiations checked).
  * set(gaussian) is not translated as a whole (getNoise is another property's model; its pieces stay in SetAst).
Two instantiations poly<T,8,2> and poly<T,16,1> must give the same text.  Last line of stdout: JSON summary.
Usage: gen_smp_ast.py [--repo DIR] [--out FILE]
"""
import hashlib, json, os, re, subprocess, sys

HERE = os.path.dirname(os.path.abspath(__file__))
sys.path.insert(0, HERE)
import gen_ops_ast as g
import gen_ntt_ast as nt
import gen_set_ast as gs
from gen_ops_ast import Unsupported, Val, Var, fail, ctype

OUT = os.path.join(g.VERIF, "lean", "NflVerif", "Generated", "SmpAst.lean")
U64 = ("U", 64)
g.CANON.update({"uint8_t": ("U", 8)})

# ---- record what every piece of gen_set_ast covers (wrapping, not modifying, its code)
_orig_run = gs.Piece.run


def _run_rec(self, lst, result, drop_break=False):
    self.run_lst, self.run_result = list(lst), result
    if drop_break:
        self.run_lst = self.run_lst[:-1]
    return _orig_run(self, lst, result, drop_break)


gs.Piece.run = _run_rec

unwrap = gs.unwrap
callee_name = gs.callee_name


def walk(n):
    yield n
    for c in n.get("inner", []):
        if isinstance(c, dict) and c.get("kind"):
            yield from walk(c)


def strip_ptr(n):
    while True:
        k = n.get("kind")
        if k in ("ParenExpr", "ExprWithCleanups", "MaterializeTemporaryExpr", "CXXBindTemporaryExpr"):
            n = n["inner"][0]
        elif k in ("ImplicitCastExpr", "CStyleCastExpr") and n.get("castKind") in ("NoOp", "BitCast", "LValueToRValue"):
            n = n["inner"][0]
        elif k == "CXXConstructExpr" and len([c for c in n.get("inner", []) if c.get("kind")]) == 1 and "__normal_iterator" in n["type"].get("desugaredQualType", n["type"]["qualType"]):
            n = n["inner"][0]
        else:
            return n


def shape_of(n):
    """structure of a subtree without ids / locations (to compare two loop headers)"""
    d = {"k": n.get("kind")}
    for f in ("opcode", "castKind", "value", "name", "isPostfix"):
        if f in n:
            d[f] = n[f]
    if "referencedDecl" in n:
        d["ref"] = n["referencedDecl"].get("name")
    if "type" in n:
        d["t"] = n["type"].get("desugaredQualType", n["type"].get("qualType"))
    d["in"] = [shape_of(c) if (isinstance(c, dict) and c.get("kind")) else None for c in n.get("inner", [])]
    return d


class Slot:
    def __init__(self, name, kind, base=None, et=None, init=True):
        self.name, self.kind, self.base, self.et, self.init = name, kind, base, et, init     # kind: arr | ptr | io


class Whole(gs.Piece):
    def __init__(self, tr, name, suf, w, method, pieces, inst, kind):
        gs.Piece.__init__(self, tr, name, suf, w, "", method)
        self.inst, self.kind = inst, kind
        self.pieces = [p for p in pieces if p.method is method]
        self.top, self.condp = {}, {}
        for pc in self.pieces:
            for i, s in enumerate(pc.run_lst):
                if s["id"] in self.top:
                    raise Unsupported("%s: statement in two pieces" % name)
                self.top[s["id"]] = (pc, i)
            if pc.run_result[0] == "cond":
                self.condp[pc.run_result[1]["id"]] = pc
        self.slots = {}               # decl id / "_data" / "io" -> Slot
        self.order = []               # state names in declaration order
        self.fparams = []             # (lean name, lean type, doc)
        self.pending = {}             # piece lean_name -> set of names read by absorbed statements
        self.skipped, self.calls, self.lib = [], [], []
        self.nst = 0
        self.check_piece_locals()

    # ---------- bookkeeping
    def fparam(self, name, ty, doc):
        if name not in [p[0] for p in self.fparams]:
            if name in self.names and self.names[name] != "fparam":
                raise Unsupported("%s: parameter name %s clashes with a C++ variable" % (self.lean_name, name))
            self.names[name] = "fparam"
            self.fparams.append((name, ty, doc))

    def add_param(self, name, t):           # called by the inherited expression code (mode.<member>, degree, nmoduli, flog2)
        self.fparam(name, "Nat → Nat" if t == "F" else ("Bool" if t[0] == "B" else "Nat"), "C type %s" % ("double -> double" if t == "F" else nt.tyname(t)))

    def reg(self, name):
        if name not in self.order:
            self.order.append(name)

    def fresh(self):
        self.nst += 1
        return "st%d" % self.nst

    def piece_nodes(self, pc):
        return pc.run_lst + ([pc.run_result[1]] if pc.run_result[0] == "cond" else [])

    def check_piece_locals(self):
        """variables declared inside a piece are referenced only inside it (the result variable excepted)"""
        for pc in self.pieces:
            inside = set()
            for s in self.piece_nodes(pc):
                for x in walk(s):
                    inside.add(x["id"])
            local = {x["id"]: x.get("name") for s in pc.run_lst for x in walk(s) if x.get("kind") == "VarDecl"}
            pc.local_ids = local
            res = pc.run_result[1] if pc.run_result[0] == "var" else None
            for x in walk(nt.body_of(self.method)):
                if x.get("kind") == "DeclRefExpr" and x["id"] not in inside and x["referencedDecl"].get("id") in local and local[x["referencedDecl"]["id"]] != res:
                    fail(x, "variable `%s` local to the piece %s is used outside it" % (local[x["referencedDecl"]["id"]], pc.lean_name))

    # ---------- pointers
    def member_returns_data(self, n, nm):
        rd = n["inner"][0].get("referencedMemberDecl")
        d = self.tr.byid.get(rd) or {}
        body = [c for c in d.get("inner", []) if c.get("kind") == "CompoundStmt"]
        ok = len(body) == 1 and len(body[0].get("inner", [])) == 1 and body[0]["inner"][0].get("kind") == "ReturnStmt"
        if ok:
            names = [x.get("name") for x in walk(body[0]) if x.get("kind") == "MemberExpr"]
            calls = [callee_name(x)[0] for x in walk(body[0]) if x.get("kind") == "CallExpr"]
            ok = names == ["_data"] and calls in ([], ["begin"])
        if not ok:
            fail(n, "poly::%s() is not `return _data;` / `return std::begin(_data);`" % nm)

    def data_slot(self):
        if "_data" not in self.slots:
            self.slots["_data"] = Slot("data", "arr", et=("U", self.w))
            self.reg("data")
        return self.slots["_data"]

    def arr_of(self, n):
        """array lvalue -> Slot"""
        n = unwrap(n)
        if n.get("kind") == "MemberExpr" and n.get("name") == "_data" and n["inner"][0].get("kind") == "CXXThisExpr":
            return self.data_slot()
        if n.get("kind") == "DeclRefExpr" and n["referencedDecl"].get("id") in self.slots and self.slots[n["referencedDecl"]["id"]].kind == "arr":
            return self.slots[n["referencedDecl"]["id"]]
        fail(n, "array that is neither _data nor a local array / vector")

    def ptr_expr(self, n):
        """pointer / iterator prvalue -> (array Slot, offset text)"""
        n = strip_ptr(n)
        k = n.get("kind")
        self.count(n)
        if k == "ImplicitCastExpr" and n.get("castKind") == "ArrayToPointerDecay":
            return self.arr_of(n["inner"][0]), "0"
        if k == "UnaryOperator" and n.get("opcode") == "&" and n["inner"][0].get("kind") == "ArraySubscriptExpr":
            a = n["inner"][0]
            sl = self.arr_of(a["inner"][0]["inner"][0])
            i = self.expr(a["inner"][1])
            return sl, ("0" if i.const == 0 else i.p())
        if k == "CXXMemberCallExpr":
            m = n["inner"][0]
            nm = m.get("name")
            o = unwrap(m["inner"][0]) if m.get("inner") else {}
            if o.get("kind") == "ImplicitCastExpr":
                o = unwrap(o["inner"][0])
            if o.get("kind") == "CXXThisExpr" and nm in ("begin", "data"):
                self.member_returns_data(n, nm)
                return self.data_slot(), "0"
            if o.get("kind") == "DeclRefExpr" and nm in ("begin", "end", "data"):
                sl = self.arr_of(o)
                if sl.kind != "arr" or not getattr(sl, "is_vec", False):
                    fail(n, ".%s() on something that is not a local std::vector" % nm)
                self.lib.append("std::vector::%s" % nm)
                return sl, "(StdSem.%s %s)" % ("vecEnd" if nm == "end" else "vecBegin", sl.name)
            fail(n, "member call %r as a pointer" % nm)
        if k == "DeclRefExpr" and n["referencedDecl"].get("id") in self.slots:
            sl = self.slots[n["referencedDecl"]["id"]]
            if sl.kind == "ptr":
                if not sl.init:
                    fail(n, "read of the uninitialised pointer %s" % sl.name)
                return self.slots_by_name(sl.base), sl.name
        fail(n, "pointer expression")

    def slots_by_name(self, name):
        for s in self.slots.values():
            if s.name == name and s.kind == "arr":
                return s
        raise Unsupported("no array %s" % name)

    def is_ptrish(self, n):
        q = (n.get("type") or {}).get("desugaredQualType", (n.get("type") or {}).get("qualType", ""))
        return q.rstrip().endswith("*") or "__normal_iterator" in q

    # ---------- lvalues / expressions
    def deref(self, n):
        """lvalue designating a memory cell -> (array Slot, index text, pointer Slot to post-increment or None), or None"""
        n = unwrap(n)
        k = n.get("kind")
        if k == "ArraySubscriptExpr":
            base = n["inner"][0]
            if base.get("kind") == "ImplicitCastExpr" and base.get("castKind") == "ArrayToPointerDecay":
                b = unwrap(base["inner"][0])
                if b.get("kind") == "DeclRefExpr" and b["referencedDecl"].get("name") == "P":
                    return None
                return self.arr_of(b), self.expr(n["inner"][1]).p(), None
            return None
        if k == "CXXOperatorCallExpr" and callee_name(n)[0] == "operator[]":
            return self.arr_of(n["inner"][1]), self.expr(n["inner"][2]).p(), None
        o = None
        if k == "UnaryOperator" and n.get("opcode") == "*":
            o = n["inner"][0]
        if k == "CXXOperatorCallExpr" and callee_name(n)[0] == "operator*":
            o = n["inner"][1]
        if o is not None:
            o = strip_ptr(o)
            inc = None
            if o.get("kind") == "UnaryOperator" and o.get("opcode") == "++" and o.get("isPostfix"):
                inc, o = True, strip_ptr(o["inner"][0])
            elif o.get("kind") == "CXXOperatorCallExpr" and callee_name(o)[0] == "operator++" and len(o["inner"]) == 3:
                inc, o = True, strip_ptr(o["inner"][1])
            if o.get("kind") != "DeclRefExpr" or o["referencedDecl"].get("id") not in self.slots or self.slots[o["referencedDecl"]["id"]].kind != "ptr":
                fail(n, "dereference of something that is not a local pointer / iterator variable")
            ps = self.slots[o["referencedDecl"]["id"]]
            if not ps.init:
                fail(n, "dereference of the uninitialised pointer %s" % ps.name)
            return self.slots_by_name(ps.base), ps.name, (ps if inc else None)
        return None

    def load(self, n):
        n0 = self.strip_paren(n)
        d = self.deref(n0)
        if d is not None:
            sl, idx, inc = d
            if inc is not None:
                fail(n0, "`*p++` used as a value outside the statement forms `x = *p++;` / a piece call")
            if ctype(n0) != sl.et:
                fail(n0, "cell type differs from the array's element type")
            self.count(n0)
            return Val("Smp.load %s %s" % (sl.name, idx), sl.et)
        if n0.get("kind") == "DeclRefExpr":
            rd = n0.get("referencedDecl", {})
            i = rd.get("id")
            if i in self.env:
                return g.Fn.load(self, n0)
            if rd.get("kind") == "VarDecl" and rd.get("name") in ("degree", "nmoduli", "N"):
                return self.static_member(n0, rd)
            fail(n0, "reference to `%s`, which is not a translated local variable" % rd.get("name"))
        if n0.get("kind") == "MemberExpr":
            o = n0["inner"][0] if n0.get("inner") else {}
            if o.get("kind") == "DeclRefExpr" and o["referencedDecl"].get("kind") == "ParmVarDecl" and o["referencedDecl"].get("name") == "mode" and not n0.get("isArrow"):
                self.count(n0)
                t = ctype(n0)
                self.fparam("mode_" + n0["name"], "Nat", "mode.%s (%s)" % (n0["name"], nt.tyname(t)))
                return Val("mode_" + n0["name"], t, atom=True)
            fail(n0, "member access that is not mode.<member>")
        return gs.Piece.load(self, n0)

    def static_member(self, n, rd):
        d = self.tr.byid.get(rd["id"]) or {}
        own = d.get("_parent") or {}
        if own.get("name") != "poly":
            fail(n, "`%s` is not a static member of nfl::poly" % rd.get("name"))
        init = [c for c in d.get("inner", []) if c.get("kind")]
        if len(init) != 1:
            fail(n, "static member `%s` without initialiser" % rd["name"])
        self.count(n)
        if rd["name"] in ("degree", "nmoduli"):
            e = unwrap(init[0])
            while e.get("kind") in ("ImplicitCastExpr", "ConstantExpr"):
                e = e["inner"][0]
            want = {"degree": "Degree", "nmoduli": "NbModuli"}[rd["name"]]
            if e.get("kind") != "SubstNonTypeTemplateParmExpr" or [c.get("name") for c in e["inner"] if c.get("kind") == "NonTypeTemplateParmDecl"] != [want]:
                fail(n, "poly::%s is not initialised with the template parameter %s" % (rd["name"], want))
            self.fparam(rd["name"], "Nat", "poly::%s = %s" % (rd["name"], want))
            return Val(rd["name"], ctype(n), atom=True)
        v = self.expr(init[0])                 # N = Degree * NbModuli
        return Val(v.s, ctype(n))

    def modulus(self, n, arg):
        t = ctype(n)
        if t != ("U", self.w):
            fail(n, "type of the modulus")
        i = self.expr(arg)
        self.fparam("P", "Nat → Nat", "params<T>::P / get_modulus")
        return Val("P %s" % i.p(), t)

    def expr(self, n):
        k = n.get("kind")
        if n.get("id") in self.condp:
            return self.piece_call(self.condp[n["id"]], n)
        if k == "SubstNonTypeTemplateParmExpr":
            self.count(n)
            nm = [c.get("name") for c in n["inner"] if c.get("kind") == "NonTypeTemplateParmDecl"]
            if nm not in (["Degree"], ["NbModuli"]):
                fail(n, "template parameter %r" % nm)
            lit = [c for c in n["inner"] if c.get("kind") == "IntegerLiteral"]
            name = {"Degree": "degree", "NbModuli": "nmoduli"}[nm[0]]
            if len(lit) != 1 or int(lit[0]["value"]) != self.inst[name]:
                fail(n, "value of the template parameter %s" % nm[0])
            self.fparam(name, "Nat", "template parameter %s" % nm[0])
            return Val(name, ctype(n), atom=True)
        if k == "UnaryExprOrTypeTraitExpr" and n.get("name") == "sizeof":
            return self.sizeof(n)
        if k == "CXXMemberCallExpr":
            m = n["inner"][0]
            o = strip_ptr(m["inner"][0]) if m.get("inner") else {}
            if m.get("name") == "size" and o.get("kind") == "DeclRefExpr":
                sl = self.arr_of(o)
                if not getattr(sl, "is_vec", False) or ctype(n) != U64:
                    fail(n, ".size() on something that is not a local std::vector")
                self.count(n)
                self.lib.append("std::vector::size")
                return Val("StdSem.vecSize %s" % sl.name, U64)
            fail(n, "member call %r" % m.get("name"))
        if k == "CXXOperatorCallExpr" and callee_name(n)[0] in ("operator==", "operator!=") and self.is_ptrish(n["inner"][1]):
            (a, ao), (b, bo) = self.ptr_expr(n["inner"][1]), self.ptr_expr(n["inner"][2])
            if a is not b:
                fail(n, "comparison of iterators into different arrays")
            self.count(n)
            s = "Smp.ptrEq %s %s" % (ao, bo)
            return Val(s if callee_name(n)[0] == "operator==" else "!(%s)" % s, ("B", 1))
        if k == "BinaryOperator" and n.get("opcode") in ("<", "==") and self.is_ptrish(n["inner"][0]):
            (a, ao), (b, bo) = self.ptr_expr(n["inner"][0]), self.ptr_expr(n["inner"][1])
            if a is not b:
                fail(n, "comparison of pointers into different arrays")
            self.count(n)
            return Val("Smp.%s %s %s" % ("ptrLt" if n["opcode"] == "<" else "ptrEq", ao, bo), ("B", 1))
        if k == "CallExpr" and callee_name(n)[0] == "distance":
            (a, ao), (b, bo) = self.ptr_expr(n["inner"][1]), self.ptr_expr(n["inner"][2])
            if a is not b:
                fail(n, "std::distance of pointers into different arrays")
            self.count(n)
            self.lib.append("std::distance")
            # difference_type is `long`: the value is non-negative for first <= last; the conversion to size_t is done by the caller's cast
            return Val("StdSem.distance %s %s" % (ao, bo), U64)
        if k == "ImplicitCastExpr" and n.get("castKind") == "IntegralCast" and unwrap(n["inner"][0]).get("kind") == "CallExpr" and \
                callee_name(unwrap(n["inner"][0]))[0] == "distance" and ctype(n) == U64:
            self.count(n)
            return self.expr(unwrap(n["inner"][0]))
        return gs.Piece.expr(self, n)

    def sizeof(self, n):
        self.count(n)
        at = n.get("argType")
        if at is not None:
            q = at.get("desugaredQualType", at.get("qualType", ""))
            c = g.ctype_of_str(q)
            if c:
                b = c[1] // 8
                return Val(str(b), U64, const=b, atom=True)
            cls = self.method.get("_parent") or {}
            if re.fullmatch(r"nfl::poly<[^<>]*>", q) and cls.get("name") == "poly" and q.replace("nfl::", "") == "poly<%s, %d, %d>" % (
                    self.tr.cname[self.suffix], self.inst["degree"], self.inst["nmoduli"]):
                self.fparam("sizeof_poly", "Nat", "sizeof(poly): checked by static_assert against ((degree*nmoduli*sizeof(T)+31)/32)*32")
                return Val("sizeof_poly", U64, atom=True)
            fail(n, "sizeof(%s)" % q)
        a = unwrap(n["inner"][0])
        if a.get("kind") == "DeclRefExpr" and a["referencedDecl"].get("id") in self.slots:
            sl = self.slots[a["referencedDecl"]["id"]]
            if sl.kind == "arr" and getattr(sl, "extent", None):
                b = sl.et[1] // 8
                return Val("CSem.mulU 64 %s %d" % (sl.extent, b), U64)
        fail(n, "sizeof of this operand")

    # ---------- piece calls
    def find_in(self, nodes, pred):
        for s in nodes:
            for x in walk(s):
                if pred(x):
                    return x
        return None

    def piece_call(self, pc, at):
        nodes = self.piece_nodes(pc)
        cellnames = {info["name"]: key for key, info in pc.cellinfo.items()}
        args, incs = [], []
        for name, t in pc.ordered_params():
            if name == "flog2":
                self.add_param("flog2", "F")
                args.append("flog2")
                continue
            if name == "p":
                x = self.find_in(nodes, lambda x: (x.get("kind") == "CallExpr" and callee_name(x)[0] == "get_modulus") or
                                 (x.get("kind") == "ArraySubscriptExpr" and unwrap(x["inner"][0]["inner"][0]).get("referencedDecl", {}).get("name") == "P"))
                if x is None:
                    fail(at, "no modulus expression in the piece %s" % pc.lean_name)
                v = self.modulus(x, x["inner"][1])
            elif name in cellnames:
                key = cellnames[name]
                x = None
                for s in nodes:
                    x = pc.find_cell_node(s, key)
                    if x is not None:
                        break
                if x is None:
                    fail(at, "cell %s of the piece %s not found" % (name, pc.lean_name))
                sl, idx, inc = self.deref(x)
                v = Val("Smp.load %s %s" % (sl.name, idx), sl.et)
                if inc is not None:
                    cnt = sum(1 for s in nodes for y in walk(s) if pc_key(pc, y) == key)
                    if cnt != 1:
                        fail(x, "`*%s++` occurs %d times in the piece %s" % (inc.name, cnt, pc.lean_name))
                    if (sl.name, idx) not in [(a, b) for a, b, _ in incs]:
                        incs.append((sl.name, idx, inc))
            elif name in ("degree", "nmoduli"):
                x = self.find_in(nodes, lambda x: x.get("kind") == "DeclRefExpr" and x["referencedDecl"].get("name") == name)
                v = self.load(x)
            elif name in self.names and self.names[name] in self.env:
                var = self.env[self.names[name]]
                if not var.init:
                    fail(at, "the piece %s reads `%s` before it has a value" % (pc.lean_name, name))
                v = Val(var.name, var.t, atom=True)
            else:
                x = self.find_in(nodes, lambda x: x.get("kind") == "MemberExpr" and x.get("name") == name and not x.get("isArrow") and
                                 x["inner"][0].get("kind") == "DeclRefExpr" and x["inner"][0]["referencedDecl"].get("name") == "mode")
                if x is None:
                    fail(at, "argument `%s` of the piece %s: neither a local variable nor mode.%s" % (name, pc.lean_name, name))
                v = self.load(x)
            if v.t != t:
                fail(at, "argument `%s` of the piece %s has type %s here, %s there" % (name, pc.lean_name, v.t, t))
            args.append(v.p())
        self.calls.append(pc.lean_name)
        self.pending.pop(pc.lean_name, None)
        self.last_incs = incs
        rt = pc.result_t
        return Val(" ".join([pc.lean_name] + args), rt)

    # ---------- effects
    def effects(self, n, skip=None):
        """names of the state (variables declared outside n, arrays, io) that executing n may change, in declaration order"""
        loc = set(x["id"] for x in walk(n) if x.get("kind") == "VarDecl")
        acc = set()

        def tgt(x):
            x = strip_ptr(x)
            if x.get("kind") == "DeclRefExpr":
                i = x["referencedDecl"].get("id")
                if i in loc:
                    return
                if i in self.env:
                    acc.add(self.env[i].name)
                elif i in self.slots:
                    acc.add(self.slots[i].name)
                elif any(i in pc.local_ids for pc in self.pieces):
                    return
                else:
                    fail(x, "assignment to `%s`, which is not a translated variable" % x["referencedDecl"].get("name"))
                return
            d = self.deref_static(x)
            if d is None:
                fail(x, "assignment target")
            acc.add(d)

        for x in walk(n):
            k = x.get("kind")
            if k == "CompoundAssignOperator" or (k == "BinaryOperator" and x.get("opcode") == "=") or (k == "UnaryOperator" and x.get("opcode") in ("++", "--")):
                tgt(x["inner"][0])
            elif k == "CXXOperatorCallExpr" and callee_name(x)[0] in ("operator=", "operator++", "operator--", "operator+="):
                tgt(x["inner"][1])
            elif k == "CallExpr":
                nm = callee_name(x)[0]
                if nm == "fastrandombytes":
                    acc.add(self.static_base(x["inner"][1]))
                    acc.add("io")
                elif nm in ("memset", "sort", "iota"):
                    acc.add(self.static_base(x["inner"][1]))
        return [nm for nm in self.order if nm in acc]

    def static_base(self, n):
        """name of the array a pointer expression points into, without translating it"""
        for x in walk(n):
            if x.get("kind") == "MemberExpr" and x.get("name") in ("_data", "begin", "data") and x.get("inner") and x["inner"][0].get("kind") == "CXXThisExpr":
                return self.data_slot().name
            if x.get("kind") == "DeclRefExpr" and x["referencedDecl"].get("id") in self.slots:
                s = self.slots[x["referencedDecl"]["id"]]
                return s.name if s.kind == "arr" else s.base
        fail(n, "pointer into an unknown array")

    def deref_static(self, x):
        k = x.get("kind")
        if k in ("ArraySubscriptExpr",):
            return self.static_base(x["inner"][0])
        if k == "CXXOperatorCallExpr" and callee_name(x)[0] in ("operator[]", "operator*"):
            return self.static_base(x["inner"][1])
        if k == "UnaryOperator" and x.get("opcode") == "*":
            return self.static_base(x["inner"][0])
        return None

    def reads(self, n, pc):
        out = set()
        for x in walk(n):
            if x.get("kind") == "DeclRefExpr":
                i = x["referencedDecl"].get("id")
                if i in pc.local_ids:
                    continue
                if i in self.env:
                    out.add(self.env[i].name)
                elif i in self.slots:
                    s = self.slots[i]
                    out.add(s.name)
                    if s.kind == "ptr":
                        out.add(s.base)
            if x.get("kind") == "MemberExpr" and x.get("name") == "_data":
                out.add("data")
        return out

    def check_pending(self, s):
        if not self.pending:
            return
        eff = set(self.effects(s))
        for nm, rd in self.pending.items():
            if eff & rd:
                fail(s, "this statement changes %s, which statements absorbed into the piece %s read" % (sorted(eff & rd), nm))

    # ---------- state tuples
    def tup(self, names):
        return "()" if not names else (names[0] if len(names) == 1 else "(" + ", ".join(names) + ")")

    def unpack_lines(self, st, names, pad):
        if len(names) <= 1:
            return [] if (not names or names[0] == st) else ["%slet %s := %s" % (pad, names[0], st)]
        return self.unpack(st, names, pad)

    # ---------- statements
    def stmts(self, lst, ind, final=None):
        """returns lines; sets self.fell = True when a statement of the list can fail (then the lines after it are under a `.bind fun … =>`)"""
        out = []
        for s in lst:
            out += self.stmt(s, ind)
        if final is not None:
            out.append("%s%s" % ("  " * ind, final))
        return out

    def can_fail(self, n):
        for x in walk(n):
            k = x.get("kind")
            if k == "CXXThrowExpr" or (k == "CallExpr" and callee_name(x)[0] in ("fastrandombytes", "__assert_fail")):
                if k == "CallExpr" and callee_name(x)[0] == "__assert_fail" and self.is_align_assert_call(x):
                    continue
                return True
            if k == "ForStmt" and not any(c.get("kind") for c in x["inner"][:4]):
                return True
        return False

    def is_align_assert_call(self, x):
        lit = [y for y in walk(x) if y.get("kind") == "StringLiteral"]
        return bool(lit) and lit[0].get("value", "").strip('"') == "(unsigned long)(this->_data) % 32 == 0"

    def stmt(self, s, ind):
        s = unwrap(s)
        pad = "  " * ind
        k = s.get("kind")
        ent = self.top.get(s.get("id"))
        if ent is not None:
            return self.piece_stmt(s, ent[0], ent[1], ind)
        self.count(s)
        if k == "NullStmt":
            return []
        if gs.is_assert(s):
            return self.assert_stmt(s, ind)
        self.check_pending(s)
        if k == "CompoundStmt":
            self.open_scope()
            r = self.stmts(s.get("inner", []), ind)
            self.close_scope()
            return r
        if k == "DeclStmt":
            out = []
            for d in s["inner"]:
                out += self.decl(s, d, ind)
            return out
        if k == "CallExpr":
            return self.call_stmt(s, ind)
        if k == "IfStmt":
            return self.if_stmt(s, ind)
        if k == "ForStmt":
            return self.for_stmt(s, ind)
        if k == "CXXForRangeStmt":
            return self.range_for(s, ind)
        if k == "BinaryOperator" and s.get("opcode") == ",":
            return self.stmt(s["inner"][0], ind) + self.stmt(s["inner"][1], ind)
        if k == "CXXOperatorCallExpr" and callee_name(s)[0] == "operator=" and self.is_ptrish(s["inner"][1]):
            return self.ptr_assign(s, s["inner"][1], s["inner"][2], ind)
        if k == "BinaryOperator" and s.get("opcode") == "=" and self.is_ptrish(s):
            return self.ptr_assign(s, s["inner"][0], s["inner"][1], ind)
        if (k == "UnaryOperator" and s.get("opcode") == "++" and self.is_ptrish(s)) or (k == "CXXOperatorCallExpr" and callee_name(s)[0] == "operator++"):
            o = strip_ptr(s["inner"][0] if k == "UnaryOperator" else s["inner"][1])
            sl = self.slots.get(o.get("referencedDecl", {}).get("id"))
            if sl is None or sl.kind != "ptr":
                fail(s, "++ on something that is not a local pointer / iterator")
            return ["%s-- %s" % (pad, self.src(s)), "%slet %s := Smp.ptrAdd %s 1" % (pad, sl.name, sl.name)]
        if k == "BinaryOperator" and s.get("opcode") == "=":
            lhs = unwrap(s["inner"][0])
            rhs = s["inner"][1]
            r = unwrap(rhs)
            if r.get("kind") == "ImplicitCastExpr" and r.get("castKind") == "LValueToRValue":
                d = self.deref(r["inner"][0]) if unwrap(r["inner"][0]).get("kind") in ("UnaryOperator", "CXXOperatorCallExpr") else None
                if d is not None and d[2] is not None and lhs.get("kind") == "DeclRefExpr":       # x = *p++;
                    sl, idx, inc = d
                    tv = self.target(lhs)
                    if tv.t != sl.et:
                        fail(s, "type of `x = *p++`")
                    tv.init = True
                    return ["%s-- %s" % (pad, self.src(s)), "%slet %s := Smp.load %s %s" % (pad, tv.name, sl.name, idx),
                            "%slet %s := Smp.ptrAdd %s 1" % (pad, inc.name, inc.name)]
            d = self.deref(lhs) if lhs.get("kind") != "DeclRefExpr" else None
            if d is not None:
                fail(s, "store to memory outside a piece")
            return gs.Piece.stmt(self, s, ind)
        if k in ("CompoundAssignOperator", "UnaryOperator"):
            return gs.Piece.stmt(self, s, ind)
        fail(s, "statement that is not translated")

    def assert_stmt(self, s, ind):
        pad = "  " * ind
        c = unwrap(s)
        call = c["inner"][2]
        if self.is_align_assert_call(call):
            self.skipped.append("%s:%s  %s   (alignment assertion on the address of _data: not representable, skipped)" % (
                self.tr.short(s.get("_file")), s.get("_line"), self.tr.source_line(s.get("_file"), s.get("_line"))))
            return ["%s-- %s   (alignment of the object: not translated)" % (pad, self.src(s))]
        cond = c["inner"][0]
        while cond.get("kind") in ("CXXStaticCastExpr", "ImplicitCastExpr", "ParenExpr") and cond.get("castKind", "NoOp") == "NoOp":
            cond = cond["inner"][0]
        v = self.expr(cond)
        if v.t[0] != "B":
            fail(s, "assert condition type")
        return ["%s-- %s" % (pad, self.src(s)), "%s(Smp.assertThat (%s)).bind fun _ =>" % (pad, v.s)]

    def decl(self, s, d, ind):
        pad = "  " * ind
        self.count(d)
        if d.get("kind") != "VarDecl" or d.get("storageClass"):
            fail(d, "declaration")
        q = d["type"].get("desugaredQualType", d["type"]["qualType"])
        e = [c for c in d.get("inner", []) if c.get("kind")]
        name = d.get("name")
        if not re.fullmatch(r"[A-Za-z_][A-Za-z0-9_]*", name or "") or name in g.LEAN_KEYWORDS or name in self.names:
            fail(d, "unusable / clashing identifier %r" % name)
        m = re.fullmatch(r"(.*)\[(\d+)\]", q)
        if m:                                           # local array, uninitialised
            et = g.ctype_of_str(m.group(1))
            if not et and re.fullmatch(r"nfl::poly<%s, \d+, \d+>::value_type" % re.escape(self.tr.cname[self.suffix]), m.group(1).strip()):
                et = ("U", self.w)
            if not et or e:
                fail(d, "local array declaration")
            src = self.tr.source_line(d.get("_file"), d.get("_line"))
            mm = re.search(r"\b%s\[(\w+)\]" % re.escape(name), src)
            if not mm or mm.group(1) not in ("degree", "Degree") or int(m.group(2)) != self.inst["degree"]:
                fail(d, "extent of the local array is not `degree`")
            self.fparam("degree", "Nat", "")
            sl = Slot(name, "arr", et=et)
            sl.extent = "degree"
            self.slots[d["id"]] = sl
            self.names[name] = d["id"]
            self.scopes[-1].append(("slot", d["id"]))
            self.reg(name)
            self.fparam(name + "_init", "List Nat", "the indeterminate initial contents of the local array `%s[degree]` (%d-bit words)" % (name, et[1]))
            return ["%s-- %s   (uninitialised: arbitrary contents)" % (pad, self.src(s)), "%slet %s := %s_init" % (pad, name, name)]
        if q.startswith("std::vector<unsigned long"):
            ce = unwrap(e[0]) if e else {}
            args = [c for c in ce.get("inner", []) if c.get("kind") and c.get("kind") != "CXXDefaultArgExpr"]
            if ce.get("kind") != "CXXConstructExpr" or len(args) != 1:
                fail(d, "vector construction that is not `std::vector<size_t> v(n)`")
            v = self.expr(args[0])
            if v.t != U64:
                fail(d, "vector size type")
            sl = Slot(name, "arr", et=U64)
            sl.is_vec = True
            self.slots[d["id"]] = sl
            self.names[name] = d["id"]
            self.scopes[-1].append(("slot", d["id"]))
            self.reg(name)
            self.lib.append("std::vector<size_t>(n)")
            return ["%s-- %s" % (pad, self.src(s)), "%slet %s := StdSem.vectorN %s" % (pad, name, v.p())]
        if self.is_ptrish(d):
            if len(e) != 1:
                fail(d, "pointer declaration without initialiser")
            sl_arr, off = self.ptr_expr(e[0])
            sl = Slot(name, "ptr", base=sl_arr.name)
            self.slots[d["id"]] = sl
            self.names[name] = d["id"]
            self.scopes[-1].append(("slot", d["id"]))
            self.reg(name)
            return ["%s-- %s" % (pad, self.src(s)), "%slet %s := %s" % (pad, name, off)]
        r = gs.Piece.stmt(self, {"kind": "DeclStmt", "inner": [d], "_file": s.get("_file"), "_line": s.get("_line"), "id": "x"}, ind)
        self.reg(name)
        return r

    def close_scope(self):
        for i in self.scopes.pop():
            if isinstance(i, tuple):
                sl = self.slots.pop(i[1])
                self.names.pop(sl.name, None)
                if sl.name in self.order:
                    self.order.remove(sl.name)
            else:
                v = self.env.pop(i)
                self.names.pop(v.name, None)
                if v.name in self.order:
                    self.order.remove(v.name)

    def ptr_assign(self, s, lhs, rhs, ind):
        pad = "  " * ind
        o = strip_ptr(lhs)
        sl = self.slots.get(o.get("referencedDecl", {}).get("id"))
        if sl is None or sl.kind != "ptr":
            fail(s, "assignment to something that is not a local pointer / iterator")
        a, off = self.ptr_expr(rhs)
        if a.name != sl.base:
            fail(s, "pointer `%s` (into %s) is made to point into %s" % (sl.name, sl.base, a.name))
        sl.init = True
        return ["%s-- %s" % (pad, self.src(s)), "%slet %s := %s" % (pad, sl.name, off)]

    def call_stmt(self, s, ind):
        pad = "  " * ind
        nm, rd = callee_name(s)
        a = s["inner"][1:]
        hdr = "%s-- %s" % (pad, self.src(s))
        if nm == "fastrandombytes" and rd.get("kind") == "FunctionDecl" and len(a) == 2:
            sl, off = self.ptr_expr(a[0])
            if off not in ("0", "(StdSem.vecBegin %s)" % sl.name):
                fail(s, "fastrandombytes into the middle of an array")
            n = self.expr(a[1])
            if n.t != U64:
                fail(s, "type of the request size")
            self.io()
            st = self.fresh()
            return [hdr, "%s(Smp.frb %d %s %s io).bind fun %s =>" % (pad, sl.et[1] // 8, sl.name, n.p(), st),
                    "%slet %s := %s.1" % (pad, sl.name, st), "%slet io := %s.2" % (pad, st)]
        whole = lambda sl, x, y: x[1] == "(StdSem.vecBegin %s)" % sl.name and y[1] == "(StdSem.vecEnd %s)" % sl.name and y[0] is sl
        if nm == "iota" and len(a) == 3:
            x, y = self.ptr_expr(a[0]), self.ptr_expr(a[1])
            if not whole(x[0], x, y):
                fail(s, "std::iota on something that is not v.begin(), v.end()")
            v = self.expr(a[2])
            if v.t[0] != "U":
                fail(s, "std::iota start value type")
            self.lib.append("std::iota")
            return [hdr, "%slet %s := StdSem.iotaAll %d %s %s" % (pad, x[0].name, v.t[1], x[0].name, v.p())]
        if nm == "sort" and len(a) == 2:
            x, y = self.ptr_expr(a[0]), self.ptr_expr(a[1])
            if not whole(x[0], x, y):
                fail(s, "std::sort on something that is not v.begin(), v.end()")
            self.lib.append("std::sort")
            return [hdr, "%slet %s := StdSem.sortAll %s" % (pad, x[0].name, x[0].name)]
        if nm == "memset" and len(a) == 3:
            sl, off = self.ptr_expr(a[0])
            if off not in ("0", "(StdSem.vecBegin %s)" % sl.name):
                fail(s, "memset into the middle of an array")
            c, n = self.expr(a[1]), self.expr(a[2])
            if c.const is None or n.t != U64:
                fail(s, "memset arguments")
            self.lib.append("memset")
            return [hdr, "%slet %s := StdSem.memset %d %s %d %s" % (pad, sl.name, sl.et[1] // 8, sl.name, c.const % 256, n.p())]
        fail(s, "call of %r as a statement" % nm)

    def io(self):
        if "io" not in self.slots:
            self.slots["io"] = Slot("io", "io")
            self.order.insert(1 if "data" in self.order else 0, "io")

    # ---------- if
    def if_stmt(self, s, ind):
        pad = "  " * ind
        parts = s["inner"]
        if s.get("hasInit") or s.get("hasVar") or s.get("isConstexpr") or len(parts) not in (2, 3):
            fail(s, "if statement shape")
        hdr = "%s-- %s" % (pad, self.src(s))
        if len(parts) == 2 and gs.is_throw_block(parts[1]):
            c = self.expr(parts[0])
            for x in walk(parts[1]):
                self.count(x)
            return [hdr, "%s(Smp.throwIf (%s)).bind fun _ =>" % (pad, c.s)]
        c = self.expr(parts[0])
        if c.t[0] != "B":
            fail(parts[0], "condition type")
        if any(x.get("kind") == "BreakStmt" for x in walk(s)):
            fail(s, "`break` outside the shape `for (;;) { …; if (c) { …; break; } }`")
        names = []
        for b in parts[1:]:
            for nm in self.effects(b):
                if nm not in names:
                    names.append(nm)
        names = [nm for nm in self.order if nm in names]
        if not names:
            fail(s, "if statement changing nothing")
        fal = any(self.can_fail(b) for b in parts[1:])
        st = names[0] if (len(names) == 1 and not fal) else self.fresh()
        ok = (lambda t: "Smp.Res.ok %s" % t) if fal else (lambda t: t)
        out = [hdr, "%s%s" % (pad, ("(if %s then" % c.s) if fal else ("let %s := if %s then" % (st, c.s)))]
        inits = self.snapshot()
        ends = []
        for bi in range(2):
            self.restore(inits)
            if bi == 1:
                out.append("%s  else" % pad)
            if bi < len(parts) - 1:
                self.open_scope()
                out += self.stmts(self.body_list(parts[1 + bi]), ind + 2)
                self.close_scope()
            out.append("%s    %s" % (pad, ok(self.tup(names))))
            ends.append(self.snapshot())
        self.merge(ends)
        if fal:
            out.append("%s  ).bind fun %s =>" % (pad, st))
        out += self.unpack_lines(st, names, pad)
        return out

    def snapshot(self):
        return ({i: v.init for i, v in self.env.items()}, {i: v.init for i, v in self.slots.items()})

    def restore(self, snap):
        for i, b in snap[0].items():
            if i in self.env:
                self.env[i].init = b
        for i, b in snap[1].items():
            if i in self.slots:
                self.slots[i].init = b

    def merge(self, ends):
        for i, v in self.env.items():
            v.init = all(e[0].get(i, False) for e in ends)
            v.const = None if not v.is_const else v.const
        for i, v in self.slots.items():
            v.init = all(e[1].get(i, False) for e in ends)

    # ---------- loops
    def counter_of(self, init, cond, inc, body, allow_start):
        """(decl, k, start Val, bound node, extra decls, extra inc statements) for `for (U i = a, …; i < B; ++i, …)`"""
        if not init or init.get("kind") != "DeclStmt" or not cond or not inc:
            return None
        decls = [d for d in init["inner"] if d.get("kind") == "VarDecl"]
        d0 = decls[0]
        t = g.ctype_of_str(d0["type"].get("desugaredQualType", d0["type"]["qualType"]))
        if not t or t[0] != "U" or t[1] < 32:
            return None
        c = unwrap(cond)
        if c.get("kind") != "BinaryOperator" or c.get("opcode") != "<":
            return None
        l = gs.strip_casts(c["inner"][0])
        if l.get("kind") != "DeclRefExpr" or l["referencedDecl"].get("id") != d0["id"] or ctype(c["inner"][0])[0] != "U" or ctype(c["inner"][0])[1] < t[1]:
            return None
        incs = []
        x = unwrap(inc)
        while x.get("kind") == "BinaryOperator" and x.get("opcode") == ",":
            incs.insert(0, x["inner"][1])
            x = unwrap(x["inner"][0])
        incs.insert(0, x)
        i0 = unwrap(incs[0])
        if i0.get("kind") != "UnaryOperator" or i0.get("opcode") != "++" or unwrap(i0["inner"][0]).get("referencedDecl", {}).get("id") != d0["id"]:
            return None
        for y in [body] + incs[1:]:
            for x in walk(y):
                if x.get("kind") in ("UnaryOperator", "CompoundAssignOperator", "BinaryOperator") and (x.get("opcode") in ("++", "--", "=") or x.get("kind") == "CompoundAssignOperator"):
                    tg = unwrap(x["inner"][0])
                    if tg.get("kind") == "DeclRefExpr" and tg["referencedDecl"].get("id") == d0["id"]:
                        fail(x, "the loop counter `%s` is assigned in the loop" % d0["name"])
        return d0, t[1], decls[1:], c["inner"][1], incs[1:]

    def for_stmt(self, s, ind):
        pad = "  " * ind
        init, var, cond, inc, body = [x if x.get("kind") else None for x in s["inner"]]
        if var:
            fail(s, "for statement with a condition variable")
        hdr = "%s-- %s" % (pad, self.src(s))
        if not init and not cond and not inc:
            return self.forever(s, body, ind)
        if not init and cond and inc:
            return self.while_for(s, cond, inc, body, ind)
        co = self.counter_of(init, cond, inc, body, True)
        if co is None:
            fail(s, "loop shape (only `for (U i = a; i < B; ++i[, …])`, `for (; i < B && c; ++i, …)`, `for (;;)` are translated)")
        d0, kbits, extra, bnode, incs = co
        self.open_scope()
        out = []
        for d in extra:
            out += self.decl(init, d, ind)
        e0 = [c for c in d0.get("inner", []) if c.get("kind")]
        start = self.expr(e0[0])
        bound = self.expr(bnode)
        if start.t != ("U", kbits) or bound.t[0] != "U":
            fail(s, "types of the loop bounds")
        names = self.effects(body)
        for x in incs:
            for nm in self.effects(x):
                if nm not in names:
                    names.append(nm)
        names = [nm for nm in self.order if nm in names]
        if set(n2 for n2 in self.reads(bnode, self.nopiece) | self.reads(e0[0], self.nopiece)) & set(names):
            fail(s, "the loop bound depends on something the loop changes")
        fal = self.can_fail(body)
        cnt = d0["name"]
        if cnt in self.names:
            fail(d0, "loop counter name %r clashes" % cnt)
        st = self.fresh() if (len(names) != 1) else names[0]
        # the counter is a read-only scalar inside the body
        var_ = Var(cnt, ("U", kbits), True, None, True)
        self.env[d0["id"]] = var_
        self.names[cnt] = d0["id"]
        out.append(hdr)
        pure0 = (start.const == 0 and not fal)
        if pure0:
            out.append("%slet %s := CSemInit.forCount %d %s (fun %s %s =>" % (pad, st, kbits, bound.p(), st, cnt))
        else:
            out.append("%s(Smp.forFromM %d %s %s (fun %s %s =>" % (pad, kbits, start.p(), bound.p(), st, cnt))
        out += self.unpack_lines(st, names, pad + "    ")
        self.open_scope()
        out += self.stmts(self.body_list(body), ind + 2)
        for x in incs:
            out += self.stmt(x, ind + 2)
        self.close_scope()
        if pure0:
            out.append("%s    %s) %s" % (pad, self.tup(names), self.tup(names)))
        else:
            out.append("%s    Smp.Res.ok %s) %s).bind fun %s =>" % (pad, self.tup(names), self.tup(names), st))
        del self.env[d0["id"]]
        del self.names[cnt]
        out += self.unpack_lines(st, names, pad)
        self.close_scope()
        return out

    def forever(self, s, body, ind):
        """for (;;) { S…; if (c) { T…; break; } }"""
        pad = "  " * ind
        lst = self.body_list(body)
        last = unwrap(lst[-1]) if lst else {}
        ok = last.get("kind") == "IfStmt" and len(last["inner"]) == 2
        if ok:
            tb = self.body_list(last["inner"][1])
            ok = bool(tb) and unwrap(tb[-1]).get("kind") == "BreakStmt"
        nbreaks = sum(1 for x in walk(s) if x.get("kind") in ("BreakStmt", "ContinueStmt", "ReturnStmt", "GotoStmt"))
        if not ok or nbreaks != 1:
            fail(s, "`for (;;)` whose body does not end in `if (c) { …; break; }` (with no other break / continue / return)")
        frbs = [x for x in walk(s) if x.get("kind") == "CallExpr" and callee_name(x)[0] == "fastrandombytes"]
        if len(frbs) != 1:
            fail(s, "`for (;;)` without exactly one fastrandombytes call: no iteration budget is known")
        buf = self.static_base(frbs[0]["inner"][1])
        names = self.effects(body)
        self.io()
        st = self.fresh()
        out = ["%s-- %s" % (pad, self.src(s)),
               "%s--   budget Smp.loopFuel io %s = (unread buffers + 1) * (length of %s + 1); exhausting it is the error `fuel`" % (pad, buf, buf),
               "%s(Smp.loopM (fun %s =>" % (pad, st)]
        out += self.unpack_lines(st, names, pad + "    ")
        self.open_scope()
        out += self.stmts(lst[:-1], ind + 2)
        self.count(last)
        self.check_pending(last)
        c = self.expr(last["inner"][0])
        if c.t[0] != "B":
            fail(last, "condition type")
        p2 = pad + "    "
        out += ["%s-- %s" % (p2, self.src(last)), "%sif %s then" % (p2, c.s)]
        inits = self.snapshot()
        self.open_scope()
        out += self.stmts(tb[:-1], ind + 3)
        self.close_scope()
        out += ["%s  -- %s" % (p2, self.src(tb[-1])), "%s  Smp.Res.ok (%s, true)" % (p2, self.tup(names)), "%selse" % p2]
        e1 = self.snapshot()
        self.restore(inits)
        out.append("%s  Smp.Res.ok (%s, false)" % (p2, self.tup(names)))
        self.merge([e1, e1])       # after the loop the break path was taken
        self.close_scope()
        out.append("%s  ) (Smp.loopFuel io %s) %s).bind fun %s =>" % (pad, buf, self.tup(names), st))
        out += self.unpack_lines(st, names, pad)
        return out

    def while_for(self, s, cond, inc, body, ind):
        """for (; i < B [&& c]; ++i, …)"""
        pad = "  " * ind
        c = unwrap(cond)
        first = unwrap(c["inner"][0]) if (c.get("kind") == "BinaryOperator" and c.get("opcode") == "&&") else c
        ok = first.get("kind") == "BinaryOperator" and first.get("opcode") == "<"
        if ok:
            l = gs.strip_casts(first["inner"][0])
            ok = l.get("kind") == "DeclRefExpr" and l["referencedDecl"].get("id") in self.env and self.env[l["referencedDecl"]["id"]].t == U64
        if not ok:
            fail(s, "loop condition is not `i < B [&& c]` with i a size_t variable")
        iid = l["referencedDecl"]["id"]
        incs = []
        x = unwrap(inc)
        while x.get("kind") == "BinaryOperator" and x.get("opcode") == ",":
            incs.insert(0, x["inner"][1])
            x = unwrap(x["inner"][0])
        incs.insert(0, x)
        n_inc = 0
        for y in [body] + incs:
            for x in walk(y):
                if (x.get("kind") == "UnaryOperator" and x.get("opcode") in ("++", "--")) or x.get("kind") == "CompoundAssignOperator" or (x.get("kind") == "BinaryOperator" and x.get("opcode") == "="):
                    tg = unwrap(x["inner"][0])
                    if tg.get("kind") == "DeclRefExpr" and tg["referencedDecl"].get("id") == iid:
                        n_inc += 1 if (x.get("opcode") == "++" and y is incs[0] and x is unwrap(incs[0])) else 100
        if n_inc != 1:
            fail(s, "the loop variable is not changed by exactly one `++i` in the increment")
        names = self.effects(body)
        for x in incs:
            for nm in self.effects(x):
                if nm not in names:
                    names.append(nm)
        names = [nm for nm in self.order if nm in names]
        bnode = first["inner"][1]
        if self.reads(bnode, self.nopiece) & set(names):
            fail(s, "the loop bound depends on something the loop changes")
        bound = self.expr(bnode)
        st = self.fresh()
        cv = self.expr(cond)
        ty = " × ".join("Nat" if (nm not in [x.name for x in self.slots.values() if x.kind == "arr"]) else "List Nat" for nm in names)
        cl = " ".join(l.strip() + ";" for l in self.unpack_lines(st, names, ""))
        out = ["%s-- %s" % (pad, self.src(s)),
               "%s--   fuel %s: `%s` grows by one per iteration and the condition implies %s < %s" % (pad, bound.s, self.env[iid].name, self.env[iid].name, bound.s),
               "%slet %s := CSem.whileFuel (fun (%s : %s) => %s %s) (fun %s =>" % (pad, st, st, ty, cl, cv.s, st)]
        out += self.unpack_lines(st, names, pad + "    ")
        if self.can_fail(body):
            fail(s, "fallible body in a while-style loop")
        self.open_scope()
        out += self.stmts(self.body_list(body), ind + 2)
        for x in incs:
            out += self.stmt(x, ind + 2)
        self.close_scope()
        out.append("%s    %s) %s %s" % (pad, self.tup(names), bound.p(), self.tup(names)))
        out += self.unpack_lines(st, names, pad)
        return out

    def range_for(self, s, ind):
        pad = "  " * ind
        inner = s["inner"]
        if len(inner) != 8 or inner[0].get("kind"):
            fail(s, "range-for shape")
        lv = [d for d in inner[6].get("inner", []) if d.get("kind") == "VarDecl"]
        rng = [d for d in inner[1].get("inner", []) if d.get("kind") == "VarDecl"]
        src = [c for c in rng[0].get("inner", []) if c.get("kind")] if len(rng) == 1 else []
        if len(lv) != 1 or len(src) != 1 or src[0].get("kind") != "DeclRefExpr" or "&" in lv[0]["type"]["qualType"]:
            fail(s, "range-for that is not `for (size_t x : local_vector)`")
        sl = self.arr_of(src[0])
        if not getattr(sl, "is_vec", False) or g.ctype_of_str(lv[0]["type"].get("desugaredQualType", lv[0]["type"]["qualType"])) != sl.et:
            fail(s, "range-for over something that is not a local std::vector<size_t> by value")
        body = inner[7]
        names = self.effects(body)
        if sl.name in names:
            fail(s, "the range-for body changes the vector it iterates over")
        self.lib.append("range-for over std::vector")
        st = self.fresh() if len(names) != 1 else names[0]
        x = lv[0]["name"]
        if x in self.names:
            fail(lv[0], "range-for variable name %r clashes" % x)
        self.env[lv[0]["id"]] = Var(x, sl.et, True, None, True)
        self.names[x] = lv[0]["id"]
        out = ["%s-- %s" % (pad, self.src(s)), "%slet %s := StdSem.forEach %s (fun %s %s =>" % (pad, st, sl.name, st, x)]
        out += self.unpack_lines(st, names, pad + "    ")
        if self.can_fail(body):
            fail(s, "fallible body in a range-for")
        self.open_scope()
        out += self.stmts(self.body_list(body), ind + 2)
        self.close_scope()
        out.append("%s    %s) %s" % (pad, self.tup(names), self.tup(names)))
        del self.env[lv[0]["id"]]
        del self.names[x]
        out += self.unpack_lines(st, names, pad)
        return out

    # ---------- statements inside pieces
    def has_loop(self, n):
        return any(x.get("kind") in ("ForStmt", "CXXForRangeStmt", "WhileStmt", "DoStmt") for x in walk(n))

    def writes_cell(self, n, pc):
        base = pc.run_result[1]
        for x in walk(n):
            if x.get("kind") == "CompoundAssignOperator" or (x.get("kind") == "BinaryOperator" and x.get("opcode") == "="):
                lhs = unwrap(x["inner"][0])
                if lhs.get("kind") != "DeclRefExpr":
                    key = pc_key(pc, lhs)
                    if key and key[0] == base:
                        return x
        return None

    def absorb(self, s, pc, ind):
        for x in walk(s):
            k = x.get("kind")
            if k in ("CallExpr", "CXXMemberCallExpr") and callee_name(x)[0] not in ("get_modulus", "max", "floor", "log2"):
                fail(x, "call inside a statement absorbed into the piece %s" % pc.lean_name)
            if k == "CompoundAssignOperator" or (k == "BinaryOperator" and x.get("opcode") == "=") or (k == "UnaryOperator" and x.get("opcode") in ("++", "--")):
                tg = unwrap(x["inner"][0])
                if tg.get("kind") != "DeclRefExpr" or tg["referencedDecl"].get("id") not in pc.local_ids:
                    if not (pc.run_result[0] == "var" and tg.get("kind") == "DeclRefExpr" and tg["referencedDecl"].get("name") == pc.run_result[1]):
                        fail(x, "a statement absorbed into the piece %s assigns something that is not local to the piece" % pc.lean_name)
        self.pending.setdefault(pc.lean_name, set()).update(self.reads(s, pc))
        return ["%s-- %s   [inside %s]" % ("  " * ind, self.src(s), pc.lean_name)]

    def piece_stmt(self, s, pc, idx, ind):
        kind = pc.run_result[0]
        if kind == "cond":
            return self.absorb(s, pc, ind)
        if kind == "var":
            if idx < len(pc.run_lst) - 1:
                return self.absorb(s, pc, ind)
            pad = "  " * ind
            name = pc.run_result[1]
            self.pending.setdefault(pc.lean_name, set())
            v = self.piece_call(pc, s)
            decl = [x for x in walk(s) if x.get("kind") == "VarDecl" and x.get("name") == name]
            if decl:
                var = self.declare(decl[0], True)
                self.reg(name)
            else:
                if name not in self.names or self.names[name] not in self.env:
                    fail(s, "result variable `%s` of the piece %s is not declared" % (name, pc.lean_name))
                var = self.env[self.names[name]]
                var.init = True
            if var.t != v.t:
                fail(s, "type of the result of the piece %s" % pc.lean_name)
            return ["%s-- %s   [%s]" % (pad, self.src(s), pc.lean_name), "%slet %s := %s" % (pad, var.name, v.s)]
        return self.in_piece(s, pc, ind)

    def in_piece(self, s, pc, ind):
        """a statement of a piece whose result is a memory cell"""
        s = unwrap(s)
        pad = "  " * ind
        k = s.get("kind")
        w = self.writes_cell(s, pc)
        if w is None:
            return self.absorb(s, pc, ind)
        if not self.has_loop(s):
            # the store: `cell := piece args`
            lhs = unwrap(w["inner"][0])
            d = self.deref(lhs)
            if d is None:
                fail(lhs, "store target")
            sl, idx, inc = d
            self.pending.setdefault(pc.lean_name, set())
            v = self.piece_call(pc, s)
            if v.t != sl.et:
                fail(s, "type of the value stored by the piece %s" % pc.lean_name)
            out = ["%s-- %s   [%s -> %s]" % (pad, self.src(s), pc.lean_name, pc.result_doc.replace("the value stored in ", "")),
                   "%slet %s := Smp.store %s %s (%s)" % (pad, sl.name, sl.name, idx, v.s)]
            walks = ([inc] if inc is not None else []) + [i for _, _, i in self.last_incs]
            for p in walks:
                out.append("%slet %s := Smp.ptrAdd %s 1" % (pad, p.name, p.name))
            return out
        if k == "CompoundStmt":
            out = []
            self.open_scope()
            for c in s.get("inner", []):
                out += self.in_piece(c, pc, ind)
            self.close_scope()
            return out
        if k == "IfStmt":
            parts = s["inner"]
            if len(parts) != 3 or self.writes_cell(parts[1], pc) is None or self.writes_cell(parts[2], pc) is None:
                fail(s, "an `if` of the piece %s has the store (under loops) in only one branch" % pc.lean_name)
            n1, n2 = self.nest(parts[1], pc), self.nest(parts[2], pc)
            if json.dumps(n1, sort_keys=True) != json.dumps(n2, sort_keys=True):
                fail(s, "the two branches of an `if` of the piece %s run different loop nests around the store" % pc.lean_name)
            self.pending.setdefault(pc.lean_name, set()).update(self.reads(parts[0], pc))
            return ["%s-- %s   [inside %s: both branches run the same loops; the choice is made inside the piece]" % (pad, self.src(s), pc.lean_name)] + \
                self.in_piece(parts[1], pc, ind)
        if k in ("ForStmt", "CXXForRangeStmt"):
            save = self.top
            body = s["inner"][4] if k == "ForStmt" else s["inner"][7]
            self.top = dict(save)
            for c in self.body_list(body):
                self.top[unwrap(c)["id"]] = (pc, -1)
            try:
                self.count(s)
                return self.for_stmt(s, ind) if k == "ForStmt" else self.range_for(s, ind)
            finally:
                self.top = save
        fail(s, "statement kind inside a piece")

    def nest(self, n, pc):
        """shapes of the loop headers around the store"""
        n = unwrap(n)
        k = n.get("kind")
        if k == "CompoundStmt":
            r = [self.nest(c, pc) for c in n.get("inner", []) if self.writes_cell(c, pc) is not None]
            if len(r) != 1:
                fail(n, "several stores of the piece's cell in one block")
            return r[0]
        if k == "ForStmt":
            return [[shape_of(c) if c.get("kind") else None for c in n["inner"][:4]]] + self.nest(n["inner"][4], pc)
        if k == "CXXForRangeStmt":
            return [[shape_of(n["inner"][1])]] + self.nest(n["inner"][7], pc)
        if self.has_loop(n):
            fail(n, "loop nest of the piece")
        return []

    def piece_stmt_minus1(self):
        pass

    # ---------- whole function
    def translate(self, where):
        self.nopiece = type("X", (), {"local_ids": {}})()
        m = self.method
        prm = [c for c in m.get("inner", []) if c.get("kind") == "ParmVarDecl"]
        pre = []
        if self.kind == "range":
            first, last, red = prm
            vals = Slot("vals", "arr", et=("U", self.w))
            self.slots["vals"] = vals
            self.reg("vals")
            for d in (first, last):
                sl = Slot(d["name"], "ptr", base="vals")
                self.slots[d["id"]] = sl
                self.names[d["name"]] = d["id"]
            v = self.declare(red, True)
            v.is_const = True
        self.data_slot()
        if any(x.get("kind") == "CallExpr" and callee_name(x)[0] == "fastrandombytes" for x in walk(nt.body_of(m))):
            self.io()
        body = self.stmts(nt.body_of(m).get("inner", []), 1)
        self.body_lines = body
        self.where = where
        return self

    def piece_stmt_top(self):
        pass

    def render(self):
        outs = ["data"] + (["io"] if "io" in self.slots else [])
        ret = "List Nat × Smp.IO" if len(outs) == 2 else "List Nat"
        order = ["flog2", "degree", "nmoduli", "sizeof_poly", "P"]
        fp = sorted(self.fparams, key=lambda p: (order.index(p[0]) if p[0] in order else len(order)))
        sig = " ".join("(%s : %s)" % (p[0], p[1]) for p in fp)
        extra = []
        if self.kind == "range":
            extra = ["(vals : List Nat)", "(first last : Nat)", "(reduce_coeffs : Bool)"]
        mem = ["(data : List Nat)"] + (["(io : Smp.IO)"] if "io" in self.slots else [])
        sig = " ".join([sig] + extra + mem)
        doc = ["/-- %s." % self.where,
               "Parameters: %s." % "; ".join("`%s`%s" % (p[0], (": " + p[2]) if p[2] else "") for p in fp),
               "`data` = the array `_data` on entry (words of %d bits)%s.  Result: `_data`%s on return, or why the function stopped. -/" % (
                   self.w, ", `io` = unread tape + request sizes recorded so far" if "io" in self.slots else "",
                   " and the tape state" if "io" in self.slots else "")]
        return "\n".join(doc + ["def %s %s : Smp.Res (%s) :=" % (self.lean_name, sig, ret)] + self.body_lines + ["  Smp.Res.ok %s" % self.tup(outs)])


def pc_key(pc, n):
    try:
        return pc.cell_key(n)
    except Unsupported:
        return None


FUNCS = [("uniform", "set_uniform"), ("non_uniform", "set_bounded"), ("ZO_dist", "set_zo"), ("hwt_dist", "set_hwt"), ("range", "set_range")]


def translate_all(repo, txt, shape):
    tr = gs.SetTranslator(repo)
    tr.load(txt)
    fns = {}
    for _, cname, suf in g.TYPES:
        found = tr.find(cname, shape)
        P, _ = tr.pieces_of(found, suf, int(suf[1:]))
        for kind, fname in FUNCS:
            m = found[kind]
            wf = Whole(tr, fname, suf, int(suf[1:]), m, P, {"degree": shape[0], "nmoduli": shape[1]}, kind)
            wf.translate("`nfl::poly<%s, Degree, NbModuli>::set(%s)`  (%s:%s), whole function" % (cname, kind, tr.short(m.get("_file")), m.get("_line")))
            fns[(fname, suf)] = wf
    order = [fns[(f, suf)] for _, f in FUNCS for _, _, suf in g.TYPES]
    return tr, order


def make_tu():
    tu = gs.make_tu()
    lines = open(tu).read().splitlines()
    for d, nm in gs.SHAPES:
        for t, _, _ in g.TYPES:
            lines.append("static_assert(sizeof(nfl::poly<%s, %d, %d>) == ((%d * %d * sizeof(%s) + 31) / 32) * 32, \"sizeof(poly) formula\");" % (t, d, nm, d, nm, t))
    tu2 = os.path.join(g.BUILD, "smp_ast_tu.cpp")
    open(tu2, "w").write("\n".join(lines) + "\n")
    return tu2


def main():
    repo = os.environ.get("VERIF_REPO", "/repo")
    out = OUT
    if "--repo" in sys.argv:
        repo = sys.argv[sys.argv.index("--repo") + 1]
    if "--out" in sys.argv:
        out = sys.argv[sys.argv.index("--out") + 1]
    repo = os.path.abspath(repo)
    try:
        try:
            txt = gs.clang_ast(repo, make_tu())
        except SystemExit as e:
            raise Unsupported(str(e))
        texts = {}
        for sh in gs.SHAPES:
            tr_d, fns_d = translate_all(repo, txt, sh)
            texts[sh] = "\n\n".join(f.render() for f in fns_d)
            if sh == gs.SHAPES[0]:
                tr, fns = tr_d, fns_d
        for sh in gs.SHAPES[1:]:
            if texts[sh] != texts[gs.SHAPES[0]]:
                raise Unsupported("the translation of poly<T,%d,%d> differs from that of poly<T,%d,%d> beyond the parameters degree / nmoduli" % (sh + gs.SHAPES[0]))
    except Unsupported as e:
        msg = "gen_smp_ast: UNSUPPORTED C++ construct, nothing translated: %s" % e
        sys.stderr.write(msg + "\n")
        print(json.dumps({"ok": False, "err": msg}))
        sys.exit(3)
    head = [
        "-- GENERATED by tools/gen_smp_ast.py from clang++-14's typed AST of include/nfl/core.hpp: the WHOLE members set(uniform), set(non_uniform),",
        "-- set(ZO_dist), set(hwt_dist), set(const T*, const T*, bool) of nfl::poly<T,%d,%d>, T = uint16_t / uint32_t / uint64_t (%s" % (
            gs.SHAPES[0] + (", ".join("poly<T,%d,%d>" % s for s in gs.SHAPES[1:]),)),
        "-- gives the same text: checked on every run; degree / nmoduli are parameters), -DNFL_OPTIMIZED, no CHECK_STRICTMOD.  Do not edit.",
        "-- Loops, request sizes, index expressions, pointer walks, library calls are translated here; the straight-line pieces are CALLS of the",
        "-- definitions of Generated/SetAst.lean (marked [piece]).  Semantics: Model/CSem.lean, CSemSet.lean, CSemInit.lean, CSemSmp.lean, StdSem.lean.",
        "import NflVerif.Model.CSem",
        "import NflVerif.Model.CSemSet",
        "import NflVerif.Model.CSemInit",
        "import NflVerif.Model.CSemSmp",
        "import NflVerif.Model.StdSem",
        "import NflVerif.Generated.SetAst",
        "set_option linter.unusedVariables false",
        "namespace Nfl.Gen",
        "open Nfl",
        "",
    ]
    text = "\n".join(head) + "\n" + texts[gs.SHAPES[0]] + "\n\nend Nfl.Gen\n"
    changed = g.write_if_changed(out, text)
    f16 = [f for f in fns if f.suffix == "u16"]
    print(json.dumps({
        "ok": True, "functions": [f.lean_name for f in fns], "nodes": sum(f.nodes for f in fns),
        "shapes_compared": ["poly<T,%d,%d>" % s for s in gs.SHAPES],
        "piece_calls": {f.lean_name: f.calls for f in f16},
        "library_by_name": {f.lean_name: sorted(set(f.lib)) for f in f16},
        "skipped": sorted(set(x for f in f16 for x in f.skipped)),
        "sizeof_poly_static_assert": True,
        "not_translated": ["set(gaussian) as a whole (getNoise)", "set(value_type,bool) / set(initializer_list) wrappers", "floor(log2(double)) (flog2 parameter)"],
        "sha": hashlib.sha256(text.encode()).hexdigest()[:16], "changed": changed,
        "out": os.path.relpath(out, g.VERIF), "repo": repo}))


if __name__ == "__main__":
    main()
