#!/usr/bin/env python3
"""Translator: clang's typed AST of nfl::ops::expr<Op, Args...>::operator bool() (include/nfl/ops.hpp) ->
lean/NflVerif/Generated/BoolAst.lean

The function (three nested `for` loops over cm / j / k with an early `return` in the innermost body) becomes ONE Lean
definition: every loop is CSem.forRet (condition, increment and body translated from the AST, size_t arithmetic through
CSem.addU 64 / mulU 64 / divU 64), the early return is `some _`, the final return CSem.retOr.  Constants of the enclosing
class / traits (`nmoduli`, `degree`, `elt_count<value_type>::value`, `is_eqmod<Op>::value`) stay PARAMETERS; local constexpr
variables are `let`s; the static_assert of the body is translated into a second definition (`…_static_assert`) that the
equality theorem may assume (clang has checked it for every instantiation that compiles).
BY NAME: `simd_mode::store(tmp, load<simd_mode>(cm, j))` -> the abstract parameter `stored cm j : Nat -> Nat` (the elements
of `tmp` after the store, a function of cm and j only); `tmp[k]` -> `stored cm j k`.  Anything else stops the translation.
Instantiations: Op in {eqmod, neqmod, addmod} x (uint64_t, serial; poly<uint64_t,8,2>), (uint32_t, serial; poly<uint32_t,16,1>),
and the 64-bit-lane vector modes (uint64_t, sse) and (uint64_t, avx2): all must give the same text.  The translation unit also
contains static_asserts that tie the parameters to what the hand model assumes (is_eqmod true exactly for eqmod; elt_count
1 / 2 / 4; expr::degree / nmoduli = those of the operands).
The last line of stdout is a JSON summary.  The output file is rewritten only when its content changes.
Usage: gen_bool_ast.py [--repo DIR] [--out FILE] [--keep]
"""
import hashlib, json, os, re, subprocess, sys

HERE = os.path.dirname(os.path.abspath(__file__))
sys.path.insert(0, HERE)
import gen_ops_ast as G
from gen_ops_ast import Unsupported, fail, parse_objects, annotate, write_if_changed

VERIF = os.path.dirname(HERE)
BUILD = os.path.join(VERIF, "build")
OUT = os.path.join(VERIF, "lean", "NflVerif", "Generated", "BoolAst.lean")
CLANG = "clang++-14"

# (T, mode, degree, nmoduli, elt_count)
INSTANCES = [("uint64_t", "serial", 8, 2, 1), ("uint32_t", "serial", 16, 1, 1), ("uint64_t", "sse", 8, 2, 2), ("uint64_t", "avx2", 8, 2, 4)]
OPS = [("eqmod", "true"), ("neqmod", "false"), ("addmod", "false")]


def make_tu():
    lines = ['#include "nfl.hpp"', "template<class E> bool nflverif_bool_use(E const& e) { return e.operator bool(); }"]
    for t, mode, deg, nm, ec in INSTANCES:
        p = "nfl::poly<%s, %d, %d>" % (t, deg, nm)
        lines.append("static_assert(nfl::simd::%s::elt_count<%s>::value == %d, \"elt_count\");" % (mode, t, ec))
        for op, iseq in OPS:
            o = "nfl::ops::%s<%s, nfl::simd::%s>" % (op, t, mode)
            e = "nfl::ops::expr<%s, %s, %s>" % (o, p, p)
            lines.append("static_assert(nfl::ops::is_eqmod<%s>::value == %s, \"is_eqmod\");" % (o, iseq))
            lines.append("static_assert(%s::degree == %d && %s::nmoduli == %d, \"shape\");" % (e, deg, e, nm))
            lines.append("template bool nflverif_bool_use(%s const&);" % e)
    return "\n".join(lines) + "\n"


def qt(n):
    t = n.get("type") or {}
    return t.get("desugaredQualType", t.get("qualType", ""))


class Fn:
    def __init__(self, tr, decl):
        self.tr, self.decl = tr, decl
        self.params = []       # (lean name, lean type, doc)
        self.env = {}          # decl id -> ("nat"|"bool", lean text)
        self.tmp_id = None
        self.stored = None     # lean text of the function k -> tmp[k] after the store
        self.asserts = []
        self.nodes = 0
        self.kinds = {}

    def count(self, n):
        self.nodes += 1
        self.kinds[n.get("kind")] = self.kinds.get(n.get("kind"), 0) + 1

    def src(self, n):
        f, l = n.get("_file"), n.get("_line")
        return "%s:%s  %s" % (self.tr.short(f), l, self.tr.source_line(f, l))

    def param(self, n, rd):
        """a constant that is not local to the function: parameter named after the source text"""
        key = rd["id"]
        if key in self.env:
            return self.env[key]
        name = rd.get("name")
        t = rd.get("type", {}).get("qualType", "")
        if not t.startswith("const "):
            fail(n, "reference to the non-constant %r" % name)
        if name == "value":
            line = self.tr.source_line(n.get("_file"), n.get("_line"))
            owners = set(re.findall(r"([A-Za-z_]\w*)\s*<[^;]*?>\s*::\s*value", line))
            if len(owners) != 1:
                fail(n, "cannot name the trait constant `value` from the source line")
            name = owners.pop() + "_value"
        if not re.fullmatch(r"[A-Za-z_]\w*", name or "") or name in G.LEAN_KEYWORDS:
            fail(n, "unusable constant name %r" % name)
        if "bool" in t:
            v = ("bool", name)
            self.params.append((name, "Bool", "`%s` (%s)" % (name, t)))
        elif t in ("const size_t", "const unsigned long"):
            v = ("nat", name)
            self.params.append((name, "Nat", "`%s` (%s)" % (name, t)))
        else:
            fail(n, "constant %r of type %s" % (name, t))
        if any(p[0] == name for p in self.params[:-1]):
            fail(n, "two constants named %r" % name)
        self.env[key] = v
        return v

    def expr(self, n):
        k = n.get("kind")
        self.count(n)
        if k in ("ParenExpr", "ConstantExpr"):
            return self.expr(n["inner"][0])
        if k == "IntegerLiteral":
            return ("nat", n["value"])
        if k == "ImplicitCastExpr":
            ck = n.get("castKind")
            v = self.expr(n["inner"][0])
            if ck == "LValueToRValue":
                return v
            if ck == "IntegralCast" and qt(n) == "unsigned long" and v[0] == "nat" and re.fullmatch(r"\d+", v[1]):
                return v
            if ck == "IntegralToBoolean" and v[0] == "nat":
                return ("bool", "CSem.toBool (%s)" % v[1])
            fail(n, "cast kind %r of %s" % (ck, v[0]))
        if k == "DeclRefExpr":
            rd = n.get("referencedDecl", {})
            if rd.get("id") in self.env:
                return self.env[rd["id"]]
            if rd.get("kind") == "VarDecl" and rd.get("id") != self.tmp_id:
                return self.param(n, rd)
            fail(n, "reference to %s %r" % (rd.get("kind"), rd.get("name")))
        if k == "UnaryOperator" and n.get("opcode") == "!":
            v = self.expr(n["inner"][0])
            if v[0] != "bool":
                fail(n, "! on a non-boolean")
            return ("bool", "!(%s)" % v[1])
        if k == "BinaryOperator":
            op = n.get("opcode")
            a, b = self.expr(n["inner"][0]), self.expr(n["inner"][1])
            if a[0] != "nat" or b[0] != "nat" or qt(n["inner"][0]) != "unsigned long" or qt(n["inner"][1]) != "unsigned long":
                fail(n, "operands of %s are not size_t" % op)
            if op in ("*", "/", "+"):
                f = {"*": "mulU", "/": "divU", "+": "addU"}[op]
                return ("nat", "CSem.%s 64 (%s) (%s)" % (f, a[1], b[1]))
            if op in ("<", "=="):
                return ("bool", "CSem.%s (%s) (%s)" % ({"<": "ltU", "==": "eqU"}[op], a[1], b[1]))
            fail(n, "binary operator %r" % op)
        if k == "ConditionalOperator":
            c, a, b = [self.expr(x) for x in n["inner"]]
            if c[0] != "bool" or a[0] != "bool" or b[0] != "bool":
                fail(n, "operands of ?:")
            return ("bool", "if %s then %s else %s" % (c[1], a[1], b[1]))
        if k == "ArraySubscriptExpr":
            base, idx = n["inner"]
            if not (base.get("kind") == "ImplicitCastExpr" and base.get("castKind") == "ArrayToPointerDecay" and
                    base["inner"][0].get("kind") == "DeclRefExpr" and base["inner"][0]["referencedDecl"].get("id") == self.tmp_id):
                fail(n, "subscript of something that is not the local array tmp")
            self.count(base); self.count(base["inner"][0])
            if self.stored is None:
                fail(n, "tmp read before simd_mode::store filled it")
            i = self.expr(idx)
            if i[0] != "nat":
                fail(n, "index")
            return ("nat", "%s (%s)" % (self.stored, i[1]))
        fail(n, "unknown expression")

    def for_stmt(self, s, ind):
        parts = s.get("inner", [])
        if len(parts) != 5 or parts[1].get("kind"):      # init, (cond var = {}), cond, inc, body
            fail(s, "for statement shape")
        init, _, cond, inc, body = parts
        self.count(init)
        ds = init.get("inner", [])
        if init.get("kind") != "DeclStmt" or len(ds) != 1 or ds[0].get("kind") != "VarDecl" or qt(ds[0]) != "unsigned long":
            fail(init, "loop variable is not one size_t")
        var = ds[0]
        self.count(var)
        v0 = self.expr([c for c in var["inner"] if c.get("kind")][0])
        name = var["name"]
        if name in G.LEAN_KEYWORDS or any(name == p[0] for p in self.params):
            fail(var, "loop variable name %r" % name)
        self.env[var["id"]] = ("nat", name)
        c = self.expr(cond)
        if c[0] != "bool":
            fail(cond, "loop condition")
        self.count(inc)
        tgt = inc["inner"][0]
        if tgt.get("kind") != "DeclRefExpr" or tgt["referencedDecl"].get("id") != var["id"]:
            fail(inc, "increment of something that is not the loop variable")
        self.count(tgt)
        if inc.get("kind") == "UnaryOperator" and inc.get("opcode") == "++":
            step = "CSem.addU 64 %s 1" % name
        elif inc.get("kind") == "CompoundAssignOperator" and inc.get("opcode") == "+=":
            st = self.expr(inc["inner"][1])
            if st[0] != "nat":
                fail(inc, "step")
            step = "CSem.addU 64 %s (%s)" % (name, st[1])
        else:
            fail(inc, "loop increment")
        pad = "  " * ind
        out = ["%s-- %s" % (pad, self.src(s)),
               "%sCSem.forRet (fun %s => %s) (fun %s => %s) (fun %s =>" % (pad, name, c[1], name, step, name)]
        out += self.block(body, ind + 2)
        out[-1] += ") (2 ^ 64) (%s)" % v0[1]
        return out

    def block(self, s, ind):
        """statements of a loop body -> Lean text of type Option Bool"""
        self.count(s)
        lst = s.get("inner", []) if s.get("kind") == "CompoundStmt" else [s]
        pad = "  " * ind
        out = []
        for i, st in enumerate(lst):
            k = st.get("kind")
            if st is not s:
                self.count(st)
            last = i == len(lst) - 1
            if k == "DeclStmt":
                for d in st["inner"]:
                    self.count(d)
                    if d.get("kind") == "StaticAssertDecl":
                        e = self.expr([c for c in d["inner"] if c.get("kind") != "StringLiteral"][0])
                        self.asserts.append((self.src(st), e[1]))
                        out.append("%s-- %s   (see %s_static_assert)" % (pad, self.src(st), self.tr.NAME))
                        continue
                    if d.get("kind") != "VarDecl" or d.get("storageClass"):
                        fail(d, "declaration")
                    if d.get("constexpr") and qt(d) == "const unsigned long":
                        e = self.expr([c for c in d["inner"] if c.get("kind")][0])
                        if e[0] != "nat" or d["name"] in G.LEAN_KEYWORDS:
                            fail(d, "constexpr initialiser")
                        self.env[d["id"]] = ("nat", d["name"])
                        out.append("%s-- %s" % (pad, self.src(st)))
                        out.append("%slet %s := %s" % (pad, d["name"], e[1]))
                        continue
                    if d.get("name") == "tmp" and re.search(r"\[\d+\]$", qt(d)) and not [c for c in d.get("inner", []) if c.get("kind") not in ("AlignedAttr",)]:
                        self.tmp_id = d["id"]
                        self.stored = None
                        out.append("%s-- %s   (uninitialised array)" % (pad, self.src(st)))
                        continue
                    fail(d, "local variable %r : %s" % (d.get("name"), qt(d)))
                if last:
                    fail(st, "block ends in a declaration")
                continue
            if k == "CallExpr":
                # simd_mode::store(tmp, load<simd_mode>(cm, j))
                ref = st["inner"][0]["inner"][0] if st["inner"][0].get("inner") else {}
                rd = ref.get("referencedDecl", {})
                args = st["inner"][1:]
                ok = (rd.get("name") == "store" and rd.get("kind") == "CXXMethodDecl" and len(args) == 2 and
                      args[0].get("kind") == "ImplicitCastExpr" and args[0].get("castKind") == "ArrayToPointerDecay" and
                      args[0]["inner"][0].get("referencedDecl", {}).get("id") == self.tmp_id)
                if not ok:
                    fail(st, "call of %s %r (only simd_mode::store(tmp, …) is translated)" % (rd.get("kind"), rd.get("name")))
                ld = args[1]
                while ld.get("kind") in ("ImplicitCastExpr", "ExprWithCleanups", "MaterializeTemporaryExpr", "CXXBindTemporaryExpr") and ld.get("castKind", "NoOp") in ("NoOp", "LValueToRValue"):
                    self.count(ld)
                    ld = ld["inner"][0]
                me = ld.get("inner", [{}])[0]
                if ld.get("kind") != "CXXMemberCallExpr" or me.get("kind") != "MemberExpr" or me.get("name") != "load" or \
                        me["inner"][0].get("kind") != "CXXThisExpr" or len(ld["inner"]) != 3:
                    fail(ld, "second argument of store is not this->load<simd_mode>(cm, j)")
                for x in (st["inner"][0], ref, args[0], args[0]["inner"][0], ld, me, me["inner"][0]):
                    self.count(x)
                a = [self.expr(x) for x in ld["inner"][1:]]
                if a[0][0] != "nat" or a[1][0] != "nat":
                    fail(ld, "arguments of load")
                if not self.stored_param:
                    self.params.append(("stored", "Nat → Nat → Nat → Nat", "`stored cm j k` = `tmp[k]` after `simd_mode::store(tmp, load<simd_mode>(cm, j))`"))
                    self.stored_param = True
                self.stored = "stored (%s) (%s)" % (a[0][1], a[1][1])
                out.append("%s-- %s" % (pad, self.src(st)))
                if last:
                    fail(st, "block ends in the store")
                continue
            if k == "ForStmt":
                if not last:
                    fail(st, "statements after a loop inside a loop body")
                return out + self.for_stmt(st, ind)
            if k == "IfStmt":
                parts = st["inner"]
                if len(parts) != 2 or parts[1].get("kind") != "ReturnStmt" or not last or st.get("hasElse"):
                    fail(st, "if statement shape (only `if (c) return r;` as the last statement of a loop body)")
                c = self.expr(parts[0])
                self.count(parts[1])
                r = self.expr(parts[1]["inner"][0])
                if c[0] != "bool" or r[0] != "bool":
                    fail(st, "types in the early return")
                out.append("%s-- %s" % (pad, self.src(st)))
                out.append("%sif (%s) then some (%s) else none" % (pad, c[1], r[1]))
                return out
            fail(st, "unknown statement")
        fail(s, "empty block")

    def translate(self):
        self.stored_param = False
        d = self.decl
        self.count(d)
        body = [c for c in d.get("inner", []) if c.get("kind") == "CompoundStmt"]
        if len(body) != 1 or [c for c in d.get("inner", []) if c.get("kind") not in ("CompoundStmt",)]:
            fail(d, "operator bool shape")
        lst = body[0].get("inner", [])
        self.count(body[0])
        if len(lst) != 2 or lst[0].get("kind") != "ForStmt" or lst[1].get("kind") != "ReturnStmt":
            fail(body[0], "body is not `for … ; return …;`")
        self.count(lst[0])
        loops = self.for_stmt(lst[0], 2)
        self.count(lst[1])
        r = self.expr(lst[1]["inner"][0])
        if r[0] != "bool":
            fail(lst[1], "returned value")
        self.body = ["  CSem.retOr ("] + loops
        self.body[-1] += ")"
        self.body += ["    -- %s" % self.src(lst[1]), "    (%s)" % r[1]]
        return self

    def render(self):
        nm = self.tr.NAME
        ps = " ".join("(%s : %s)" % (p[0], p[1]) for p in self.params)
        doc = ["/-- `nfl::ops::expr<Op, Args...>::operator bool() const`  (%s:%s)." % (self.tr.short(self.decl.get("_file")), self.decl.get("_line"))]
        doc += ["    %s : %s" % (p[0], p[2]) for p in self.params]
        doc[-1] += " -/"
        out = doc + ["def %s %s : Bool :=" % (nm, ps)] + self.body
        cps = " ".join("(%s : %s)" % (p[0], p[1]) for p in self.params if p[0] != "stored")
        out += ["", "/-- the `static_assert`s of the body (checked by the compiler for every instantiation) -/",
                "def %s_static_assert %s : Bool :=" % (nm, cps)]
        lets = [l.strip() for l in self.body if l.strip().startswith("let ")]
        out += ["  " + l for l in lets]
        out += ["  -- %s" % a[0] for a in self.asserts]
        out += ["  " + (" && ".join("(%s)" % a[1] for a in self.asserts) or "true")]
        return "\n".join(out)


class Translator:
    NAME = "expr_to_bool"
    short = G.Translator.short
    source_line = G.Translator.source_line

    def __init__(self, repo):
        self.repo, self.files = repo, {}


def main():
    repo = os.environ.get("VERIF_REPO", "/repo")
    out = OUT
    if "--repo" in sys.argv:
        repo = sys.argv[sys.argv.index("--repo") + 1]
    if "--out" in sys.argv:
        out = sys.argv[sys.argv.index("--out") + 1]
    repo = os.path.abspath(repo)
    os.makedirs(BUILD, exist_ok=True)
    tu = os.path.join(BUILD, "bool_ast_tu.cpp")
    open(tu, "w").write(make_tu())
    inc = os.path.join(repo, "include")
    cmd = [CLANG, "-std=gnu++17", "-fsyntax-only", "-DNFL_OPTIMIZED", "-mavx2", "-DNTT_AVX2", "-DNTT_SSE", "-w",
           "-I" + inc, "-I" + os.path.join(inc, "nfl"), "-I" + os.path.join(inc, "nfl", "prng"),
           "-Xclang", "-ast-dump=json", "-Xclang", "-ast-dump-filter=nfl::ops::expr", tu]
    r = subprocess.run(cmd, capture_output=True, text=True)
    if r.returncode != 0:
        errs = [l for l in r.stderr.splitlines() if "error:" in l][:6]
        msg = "gen_bool_ast: clang cannot compile the instantiations / static_asserts of the translation unit (rc=%d): %s" % (r.returncode, " | ".join(errs) or r.stderr[-1500:])
        sys.stderr.write(msg + "\n")
        print(json.dumps({"ok": False, "err": msg}))
        sys.exit(3)
    if "--keep" in sys.argv:
        open(os.path.join(BUILD, "bool_ast_dump.json"), "w").write(r.stdout)
    try:
        objs = parse_objects(r.stdout)
        byid = annotate(objs)
        tr = Translator(repo)
        found = {}
        for n in byid.values():
            if n.get("kind") == "CXXConversionDecl" and n.get("name") == "operator bool" and \
                    any(x.get("kind") == "CompoundStmt" for x in n.get("inner", [])):
                par = n.get("_parent") or {}
                if par.get("kind") != "ClassTemplateSpecializationDecl" or par.get("name") != "expr":
                    continue
                targs = [a.get("type", {}).get("qualType", "") for a in par.get("inner", []) if a.get("kind") == "TemplateArgument"]
                found[n["id"]] = (targs[0] if targs else "?", n)
        want = len(INSTANCES) * len(OPS)
        if len(found) != want:
            raise Unsupported("%d instantiated operator bool() bodies in the AST, expected %d" % (len(found), want))
        texts = {}
        nodes = 0
        kinds = {}
        for op, n in found.values():
            fn = Fn(tr, n).translate()
            texts.setdefault(fn.render(), []).append(op)
            nodes += fn.nodes
            kinds = fn.kinds
        if len(texts) != 1:
            keys = list(texts)
            a, b = keys[0].splitlines(), keys[1].splitlines()
            diff = [(x, y) for x, y in zip(a, b) if x != y][:2]
            raise Unsupported("instantiations translate to different text: %r vs %r; first differences %r" % (texts[keys[0]][:2], texts[keys[1]][:2], diff))
        text0 = list(texts)[0]
    except Unsupported as e:
        msg = "gen_bool_ast: UNSUPPORTED C++ construct, nothing translated: %s" % e
        sys.stderr.write(msg + "\n")
        print(json.dumps({"ok": False, "err": msg}))
        sys.exit(3)
    head = [
        "-- GENERATED by tools/gen_bool_ast.py from clang++-14's typed AST of nfl::ops::expr<Op, Args...>::operator bool() (include/nfl/ops.hpp),",
        "-- %d instantiations (eqmod / neqmod / addmod x uint64_t serial, uint32_t serial, uint64_t sse, uint64_t avx2) that all give this text.  Do not edit." % want,
        "import NflVerif.Model.CSem",
        "import NflVerif.Model.CSemBool",
        "namespace Nfl.Gen.BoolAst",
        "open Nfl",
        "set_option linter.unusedVariables false",
        "",
    ]
    text = "\n".join(head) + "\n" + text0 + "\n\nend Nfl.Gen.BoolAst\n"
    changed = write_if_changed(out, text)
    print(json.dumps({"ok": True, "instantiations": want, "instances_agree": True, "nodes": nodes, "node_kinds": dict(sorted(kinds.items())),
                      "tu_static_asserts": "is_eqmod<Op>::value true exactly for eqmod; elt_count 1/1/2/4; expr::degree, nmoduli = the operands'",
                      "sha": hashlib.sha256(text.encode()).hexdigest()[:16], "changed": changed,
                      "out": os.path.relpath(out, VERIF), "repo": repo}))


if __name__ == "__main__":
    main()
