#!/usr/bin/env python3
"""merge_setup.py <agent copy>: add to /verif/setup.sh the generator lines the agent's setup.sh has and ours lacks"""
import sys
a = open(sys.argv[1] + "/setup.sh").read().split("\n")
p = "/verif/setup.sh"
s = open(p).read()
for l in a:
    if l.startswith("python3 tools/gen_") and l.split()[1] not in s:
        s = s.replace("python3 tools/gen_footprint.py", l + "\npython3 tools/gen_footprint.py", 1)
        print("added", l.split()[1])
open(p, "w").write(s)
