#!/usr/bin/env python3
"""Translator: clang's typed AST of NFLlib's GMP-based CRT code -> lean/NflVerif/Generated/CrtAst.lean

Translated from the CURRENT text of $REPO/include/nfl/gmp.hpp (+ poly.hpp, meta.hpp), for T = uint16_t, uint32_t, uint64_t:
  gmp_ctor_uW   nfl::poly<T,Degree,NbModuli>::GMP::GMP()
  poly2mpz_uW   nfl::poly<T,Degree,NbModuli>::GMP::poly2mpz(std::array<mpz_t,Degree>&, poly const&)   (the whole loop nest)
  mpz2poly_uW   nfl::poly<T,Degree,NbModuli>::GMP::mpz2poly(poly&, std::array<mpz_t,Degree> const&)   (the whole loop nest)
  static_log2   nfl::static_log2<N>::value / nfl::impl::_log2<N>::value (meta.hpp), from the instantiated chains
  GmpState      the data members of class GMP
Reading of the C++ (reuses gen_ops_ast.py's AST loading and integer-expression translation, CSem.lean):
  * every `mpz_t` variable / member is a mathematical integer (Int), `std::array<mpz_t,n>` a `List Int` (element
    access through std::array::operator[] = `getD`/`set`), a `poly` its `_data` words (`List Nat`), accessed through the
    translated body of `poly::operator()(cm,i)`; statements become `let`s that rebind the variable they write;
  * each GMP call is mapped BY NAME to the exact-integer operation of lean/NflVerif/Model/GmpSem.lean; `mpz_invert`
    is the parameter `inv`; an unknown callee stops the translation (non-zero exit naming it and file:line);
  * `for (size_t v = 0; v < B; v++) body` with B a template constant (nmoduli / degree) and v not assigned by the
    body is `List.range B |>.foldl` over the tuple of the variables the body assigns;
  * `nmoduli`, `degree`, `params<T>::kModulusRepresentationBitsize` stay PARAMETERS; `get_modulus(cm)` is inlined
    from its body to `P[cm]` (`P.getD cm 0`); two instantiations with different (Degree, NbModuli) are translated
    for every T and must give the same text (checked; failure otherwise);
  * size_t / unsigned long arithmetic is CSem's 64-bit arithmetic; every such node is listed under `size_t_sites`
    (the equality theorems assume, as explicit hypotheses, that these do not wrap).
NOT translated (hand-modelled in Model/Crt.lean, tied by the differential stream only): poly::set_mpz(It,It) and the
forwarding set_mpz / constructors / operator= overloads (iterators, mpz_class), the by-value poly2mpz(poly const&)
wrapper (allocation + call), GMP::~GMP().
The last line of stdout is a JSON summary.  The output file is rewritten only when its content changes.
Usage: gen_crt_ast.py [--repo DIR] [--out FILE] [--keep]
"""
import hashlib, json, os, re, sys

HERE = os.path.dirname(os.path.abspath(__file__))
sys.path.insert(0, HERE)
import gen_ops_ast as g
from gen_ops_ast import Unsupported, Val, Var, fail, ctype

OUT = os.path.join(g.VERIF, "lean", "NflVerif", "Generated", "CrtAst.lean")
INSTS = {"u64": [(4, 3), (8, 2)], "u32": [(4, 2), (8, 3)], "u16": [(4, 2), (8, 1)]}   # (Degree, NbModuli); first one is written out
LOG2_PROBES = list(range(1, 67)) + [1000, 2 ** 32 - 1, 2 ** 32, 2 ** 63, 2 ** 64 - 1]
U64 = ("U", 64)
MPZ = "__mpz_struct[1]"
SYM_ORDER = ["kModulusRepresentationBitsize", "nmoduli", "degree"]

# GMP call table: name -> (roles, Lean template).  roles, one per C argument: o = mpz written (need not be
# initialised for init*), I = mpz read and written, z = mpz read, u = unsigned long value.
GMP_STMT = {
    "init": ("o", "GmpSem.init"), "init2": ("ou", "GmpSem.init2 {1}"), "init_set_ui": ("ou", "GmpSem.init_set_ui {1}"),
    "set_ui": ("ou", "GmpSem.set_ui {1}"), "set": ("oz", "GmpSem.set {1}"),
    "add": ("ozz", "GmpSem.add {1} {2}"), "sub": ("ozz", "GmpSem.sub {1} {2}"), "mul": ("ozz", "GmpSem.mul {1} {2}"),
    "add_ui": ("ozu", "GmpSem.add_ui {1} {2}"), "sub_ui": ("ozu", "GmpSem.sub_ui {1} {2}"), "mul_ui": ("ozu", "GmpSem.mul_ui {1} {2}"),
    "addmul": ("Izz", "GmpSem.addmul {0} {1} {2}"), "addmul_ui": ("Izu", "GmpSem.addmul_ui {0} {1} {2}"),
    "submul": ("Izz", "GmpSem.submul {0} {1} {2}"), "submul_ui": ("Izu", "GmpSem.submul_ui {0} {1} {2}"),
    "ui_pow_ui": ("ouu", "GmpSem.ui_pow_ui {1} {2}"), "tdiv_q": ("ozz", "GmpSem.tdiv_q {1} {2}"),
    "tdiv_q_2exp": ("ozu", "GmpSem.tdiv_q_2exp {1} {2}"), "divexact": ("ozz", "GmpSem.divexact {1} {2}"),
    "invert": ("ozz", "GmpSem.invert inv {1} {2}"),
}
GMP_INIT = ("init", "init2", "init_set_ui")
GMP_VARIADIC = {"inits": "init", "clears": "clear"}
CMPNAME = {">=": "ge", ">": "gt", "<=": "le", "<": "lt", "==": "eq", "!=": "ne"}


def unparen(n):
    while n.get("kind") == "ParenExpr":
        n = n["inner"][0]
    return n


def qual(n):
    t = n.get("type") or {}
    return t.get("desugaredQualType", t.get("qualType", "")).strip()


def is_mpz(n):
    q = qual(n)
    return q in (MPZ, "const " + MPZ, MPZ + " const")


def targs(n):
    out = []
    for a in n.get("inner", []):
        if a.get("kind") == "TemplateArgument":
            out.append(a["type"]["qualType"] if "type" in a else a.get("value"))
    return out


def has_body(m):
    return any(c.get("kind") == "CompoundStmt" for c in m.get("inner", []))


def body_of(m):
    b = [c for c in m.get("inner", []) if c.get("kind") == "CompoundStmt"]
    if len(b) != 1:
        fail(m, "function without a single body")
    return b[0]


def callee_decl(n):
    """(kind, name, id) of the function a CallExpr / CXXOperatorCallExpr calls"""
    c = n["inner"][0]
    if not (c.get("kind") == "ImplicitCastExpr" and c.get("castKind") == "FunctionToPointerDecay" and c["inner"][0].get("kind") == "DeclRefExpr"):
        fail(n, "indirect call")
    rd = c["inner"][0].get("referencedDecl", {})
    return rd.get("kind"), rd.get("name"), rd.get("id")


class Slot:
    """a non-integer state variable: mpz (Int), mpzarr (List Int), words (List Nat)"""

    def __init__(self, name, kind, init, rname=None, writable=True, all_init=False):
        self.name, self.kind, self.init, self.rname, self.writable = name, kind, init, rname or name, writable
        self.cells, self.all_init = set(), all_init


class CrtFn(g.Fn):
    def __init__(self, tr, fname, suf, w, inst):
        g.Fn.__init__(self, tr, fname, suf, None, {})
        self.w, self.inst = w, inst            # inst = {"degree": D, "nmoduli": M}
        self.slots = {}                        # decl / field id -> Slot
        self.subst = {}                        # ParmVarDecl id of an inlined callee -> Val
        self.order = []                        # state objects (Slot / Var) in declaration order
        self.wstack = []                       # sets of state objects written, one per enclosing loop / if
        self.syms, self.use_P, self.use_inv, self.use_g = set(), False, False, False
        self.is_ctor = False
        self.cparams = []                      # (lean name, lean type) of the C++ parameters
        self.ret = []                          # state objects returned
        self.inl_depth = 0

    # ---------- bookkeeping
    def new_name(self, decl):
        name = decl.get("name")
        if not name or not re.fullmatch(r"[A-Za-z_][A-Za-z0-9_]*", name):
            fail(decl, "unusable identifier %r" % name)
        lname = name + "_" if (name in g.LEAN_KEYWORDS or name in ("P", "g", "inv", "st") or name in SYM_ORDER) else name
        if lname in self.names and self.names[lname] != decl["id"]:
            fail(decl, "two C++ variables named %r alive in one function (shadowing is not translated)" % name)
        self.names[lname] = decl["id"]
        return lname

    def drop(self, decl_id):
        for k in [k for k, v in self.names.items() if v == decl_id]:
            del self.names[k]
        obj = self.env.pop(decl_id, None) or self.slots.pop(decl_id, None)
        if obj in self.order:
            self.order.remove(obj)

    def wrote(self, obj):
        for s in self.wstack:
            s.add(obj)

    def note_size_t(self, n, op):
        if self.inl_depth:
            op += " (inlined)"
        self.tr.size_t_sites.append({"fn": self.lean_name, "file": self.tr.short(n.get("_file")), "line": n.get("_line"), "op": op,
                                     "source": self.tr.source_line(n.get("_file"), n.get("_line"))})

    # ---------- integer expressions
    def binop(self, n, op, a, b, t):
        if t == U64 and op in ("+", "-", "*"):
            self.note_size_t(n, "unsigned long " + op)
        return g.Fn.binop(self, n, op, a, b, t)

    def symbolic(self, rd, at):
        d = self.tr.byid.get(rd.get("id"))
        par = (d or {}).get("_parent") or {}
        name = rd.get("name")
        if par.get("kind") != "ClassTemplateSpecializationDecl":
            return None
        if par.get("name") == "poly" and name in ("nmoduli", "degree"):
            self.syms.add(name)
            return Val(name, ctype(at), atom=True)
        if par.get("name") == "params" and name == "kModulusRepresentationBitsize":
            self.syms.add(name)
            return Val(name, ctype(at), atom=True)
        if par.get("name") == "static_log2" and name == "value":
            a = targs(par)
            if len(a) != 1:
                fail(at, "static_log2 arguments")
            N = int(a[0]) % 2 ** 64
            cands = [k for k in ("nmoduli", "degree") if self.inst[k] == N]
            if len(cands) != 1:
                fail(at, "static_log2<%d>: cannot tell which template constant the argument is (instantiation %r)" % (N, self.inst))
            self.syms.add(cands[0])
            self.tr.log2_used.add(N)
            return Val("static_log2 %s" % cands[0], ctype(at))
        return None

    def load(self, n):
        n = self.strip_paren(n)
        k = n.get("kind")
        if k == "DeclRefExpr":
            rd = n.get("referencedDecl", {})
            if rd.get("id") in self.subst:
                self.count(n)
                v = self.subst[rd["id"]]
                if v.t != ctype(n):
                    fail(n, "type of an inlined parameter")
                return v
            if rd.get("id") not in self.env and rd.get("kind") == "VarDecl":
                v = self.symbolic(rd, n)
                if v is not None:
                    self.count(n)
                    return v
            return g.Fn.load(self, n)
        if k == "MemberExpr":
            self.count(n)
            obj = n["inner"][0] if n.get("inner") else {}
            if not n.get("isArrow") or obj.get("kind") != "CXXThisExpr":
                fail(n, "member access that is not this->member")
            self.count(obj)
            fid = n.get("referencedMemberDecl")
            if fid not in self.env:
                fail(n, "member %r is not an integer data member of class GMP" % n.get("name"))
            v = self.env[fid]
            if ctype(n) != v.t:
                fail(n, "type of the member")
            if not v.init:
                fail(n, "read of the member %s before the constructor assigned it" % v.name)
            if not self.is_ctor:
                self.use_g = True
            return Val(v.name if self.is_ctor else "g." + v.name, v.t, atom=True)
        if k == "CXXOperatorCallExpr":
            slot, idx = self.poly_cell(n)
            return Val("%s.getD %s 0" % (slot.rname, idx.p()), ctype(n))
        if k == "ArraySubscriptExpr":
            self.count(n)
            base, idx = n["inner"]
            if not (base.get("kind") == "ImplicitCastExpr" and base.get("castKind") == "ArrayToPointerDecay"):
                fail(base, "array base")
            self.count(base)
            ref = base["inner"][0]
            if ref.get("kind") != "DeclRefExpr":
                fail(ref, "array base")
            self.count(ref)
            rd = ref.get("referencedDecl", {})
            decl = self.tr.byid.get(rd.get("id"))
            owner = decl.get("_parent") if decl else None
            if rd.get("name") != "P" or not owner or owner.get("name") != "params" or owner.get("kind") != "ClassTemplateSpecializationDecl":
                fail(ref, "array %r is not nfl::params<T>::P" % rd.get("name"))
            i = self.expr(idx)
            if i.t != U64:
                fail(idx, "index type")
            t = ctype(n)
            if t != ("U", self.w):
                fail(n, "element type of params<T>::P")
            self.use_P = True
            return Val("P.getD %s 0" % i.p(), t)
        fail(n, "unknown lvalue")

    def call(self, n):
        fail(n, "operator call in a value position")

    def expr(self, n):
        k = n.get("kind")
        if k == "BinaryOperator" and n.get("opcode") in CMPNAME:
            a, b = n["inner"]
            if a.get("kind") == "CallExpr" and callee_decl(a)[1] == "__gmpz_cmp":
                if not (b.get("kind") == "IntegerLiteral" and int(b["value"]) == 0):
                    fail(n, "mpz_cmp result used other than in a comparison with the literal 0 (only its sign is specified)")
                for x in (n, a, a["inner"][0], a["inner"][0]["inner"][0], b):
                    self.count(x)
                self.tr.gmp_calls["cmp"] = self.tr.gmp_calls.get("cmp", 0) + 1
                if len(a["inner"]) != 3:
                    fail(a, "argument count of mpz_cmp")
                x, y = self.mpz_read(a["inner"][1]), self.mpz_read(a["inner"][2])
                return Val("GmpSem.cmp_%s %s %s" % (CMPNAME[n["opcode"]], x, y), ("B", 1))
        if k == "CallExpr":
            return self.call_value(n)
        return g.Fn.expr(self, n)

    def inline(self, m, args, at, want_lvalue=False):
        """value (or the returned lvalue node) of a call of a one-`return` member function of nfl::poly"""
        if self.inl_depth > 4:
            fail(at, "inlining too deep")
        prms = [c for c in m.get("inner", []) if c.get("kind") == "ParmVarDecl"]
        st = body_of(m).get("inner", [])
        if len(prms) != len(args) or len(st) != 1 or st[0].get("kind") != "ReturnStmt":
            fail(at, "inlined function %r is not a single return statement" % m.get("name"))
        saved = dict(self.subst)
        for p, a in zip(prms, args):
            if a.t != ctype(p):
                fail(at, "argument type of the inlined call")
            self.subst[p["id"]] = a if a.atom else Val("(" + a.s + ")", a.t, a.rng, a.const, atom=True)
        self.inl_depth += 1
        for x in (m, body_of(m), st[0]):
            self.count(x)
        try:
            r = st[0]["inner"][0]
            if want_lvalue:
                while r.get("kind") in ("ImplicitCastExpr", "ParenExpr") and r.get("castKind", "NoOp") == "NoOp":
                    self.count(r)
                    r = r["inner"][0]
                return self.inline_lvalue(r, at)
            return self.expr(r)
        finally:
            self.inl_depth -= 1
            self.subst = saved

    def inline_lvalue(self, r, at):
        # `_data[index]` of the object the call was made on
        if r.get("kind") != "ArraySubscriptExpr":
            fail(r, "inlined accessor does not return _data[...]")
        self.count(r)
        base, idx = r["inner"]
        b = base
        while b.get("kind") == "ImplicitCastExpr" and b.get("castKind") in ("ArrayToPointerDecay", "NoOp"):
            self.count(b)
            b = b["inner"][0]
        if not (b.get("kind") == "MemberExpr" and b.get("name") == "_data" and b["inner"][0].get("kind") == "CXXThisExpr"):
            fail(r, "inlined accessor does not index this->_data")
        self.count(b)
        self.count(b["inner"][0])
        i = self.expr(idx)
        if i.t != U64:
            fail(idx, "index type")
        return i

    def method_of_poly(self, did, at, names):
        m = self.tr.byid.get(did)
        par = (m or {}).get("_parent") or {}
        if not m or m.get("name") not in names or par.get("kind") != "ClassTemplateSpecializationDecl" or par.get("name") != "poly" or not has_body(m):
            return None
        a = targs(par)
        if a != [self.tr.cname[self.suffix], self.inst["degree"], self.inst["nmoduli"]]:
            fail(at, "call into another instantiation %r" % (a,))
        return m

    def call_value(self, n):
        kind, name, did = callee_decl(n)
        for x in (n, n["inner"][0], n["inner"][0]["inner"][0]):
            self.count(x)
        args = n["inner"][1:]
        if kind == "FunctionDecl" and name.startswith("__gmpz_"):
            short = name[7:]
            self.tr.gmp_calls[short] = self.tr.gmp_calls.get(short, 0) + 1
            if short == "sizeinbase":
                if len(args) != 2 or not (args[1].get("kind") == "IntegerLiteral" and int(args[1]["value"]) == 2):
                    fail(n, "mpz_sizeinbase with a base other than the literal 2")
                self.count(args[1])
                if ctype(n) != U64:
                    fail(n, "result type")
                return Val("GmpSem.sizeinbase2 %s" % self.mpz_read(args[0]), U64)
            if short == "fdiv_ui":
                if len(args) != 2 or ctype(n) != U64:
                    fail(n, "mpz_fdiv_ui shape")
                z = self.mpz_read(args[0])
                d = self.expr(args[1])
                if d.t != U64:
                    fail(args[1], "argument type")
                return Val("GmpSem.fdiv_ui %s %s" % (z, d.p()), U64)
            if short == "cmp":
                fail(n, "mpz_cmp result used other than in a comparison with the literal 0 (only its sign is specified)")
            fail(n, "GMP function mpz_%s (returning a value) is not in the mapping table" % short)
        if kind == "CXXMethodDecl":
            m = self.method_of_poly(did, n, ("get_modulus",))
            if m is not None:
                return self.inline(m, [self.expr(a) for a in args], n)
        fail(n, "call of %s %r is not translated" % (kind, name))

    # ---------- non-integer operands
    def strip_casts(self, n):
        while True:
            n = self.strip_paren(n)
            if n.get("kind") == "ImplicitCastExpr" and n.get("castKind") in ("NoOp", "ArrayToPointerDecay"):
                self.count(n)
                n = n["inner"][0]
            else:
                return n

    def obj_slot(self, n, kinds):
        """Slot named by `this->member` or by a variable / reference parameter"""
        n = self.strip_casts(n)
        if n.get("kind") == "MemberExpr":
            self.count(n)
            obj = n["inner"][0] if n.get("inner") else {}
            if not n.get("isArrow") or obj.get("kind") != "CXXThisExpr":
                fail(n, "member access that is not this->member")
            self.count(obj)
            s = self.slots.get(n.get("referencedMemberDecl"))
            if not self.is_ctor:
                self.use_g = True
        elif n.get("kind") == "DeclRefExpr":
            self.count(n)
            s = self.slots.get(n.get("referencedDecl", {}).get("id"))
        else:
            fail(n, "operand is not a variable, a parameter or a member")
        if s is None or s.kind not in kinds:
            fail(n, "operand %r is not a translated %s" % (n.get("name") or n.get("referencedDecl", {}).get("name"), "/".join(kinds)))
        return s

    def mpz_ref(self, n):
        """(Slot, index Val or None) of an mpz_t operand"""
        n = self.strip_casts(n)
        if not is_mpz(n):
            fail(n, "operand is not an mpz_t")
        if n.get("kind") == "CXXOperatorCallExpr":
            kind, name, did = callee_decl(n)
            oq = qual(n["inner"][1]) if len(n["inner"]) == 3 else ""
            if name != "operator[]" or not re.fullmatch(r"(const )?std::array<__mpz_struct\[1\], \d+>", oq):
                fail(n, "element access that is not std::array<mpz_t, n>::operator[]")
            for x in (n, n["inner"][0], n["inner"][0]["inner"][0]):
                self.count(x)
            if len(n["inner"]) != 3:
                fail(n, "operator[] shape")
            s = self.obj_slot(n["inner"][1], ("mpzarr",))
            i = self.expr(n["inner"][2])
            if i.t != U64:
                fail(n, "index type")
            return s, i
        return self.obj_slot(n, ("mpz",)), None

    def read_ref(self, s, i, at):
        if i is None:
            if not s.init:
                fail(at, "read of the mpz_t %s that holds no value (not initialised, or cleared)" % s.name)
            return s.rname
        if not (s.all_init or i.s in s.cells):
            fail(at, "read of %s[%s] before an mpz_init* of that element" % (s.name, i.s))
        return "(%s.getD %s 0)" % (s.rname, i.p())

    def mpz_read(self, n):
        s, i = self.mpz_ref(n)
        return self.read_ref(s, i, n)

    def write_ref(self, s, i, val, at, pad, out):
        if not s.writable:
            fail(at, "write to %s, which is not writable here" % s.rname)
        if i is None:
            out.append("%slet %s := %s" % (pad, s.name, val))
            s.init = True
        else:
            out.append("%slet %s := %s.set %s (%s)" % (pad, s.name, s.name, i.p(), val))
            s.cells.add(i.s)
        self.wrote(s)

    def poly_cell(self, n):
        """`op(cm, i)`: (words Slot, index Val) through the body of poly::operator()"""
        kind, name, did = callee_decl(n)
        m = self.method_of_poly(did, n, ("operator()",))
        if m is None:
            fail(n, "operator call that is not nfl::poly::operator()(cm, i)")
        for x in (n, n["inner"][0], n["inner"][0]["inner"][0]):
            self.count(x)
        s = self.obj_slot(n["inner"][1], ("words",))
        args = [self.expr(a) for a in n["inner"][2:]]
        return s, self.inline(m, args, n, want_lvalue=True)

    # ---------- statements
    def gmp_stmt(self, s, pad, out):
        kind, name, did = callee_decl(s)
        if not (kind == "FunctionDecl" and name.startswith("__gmpz_")):
            fail(s, "call of %s %r is not translated (not a GMP function of the mapping table)" % (kind, name))
        short = name[7:]
        for x in (s, s["inner"][0], s["inner"][0]["inner"][0]):
            self.count(x)
        self.tr.gmp_calls[short] = self.tr.gmp_calls.get(short, 0) + 1
        args = s["inner"][1:]
        out.append("%s-- %s" % (pad, self.src(s)))
        if short in GMP_VARIADIC or short == "clear":
            if short != "clear":
                last = args[-1] if args else {}
                while last.get("kind") == "ImplicitCastExpr":
                    last = last["inner"][0]
                if last.get("kind") != "CXXNullPtrLiteralExpr":
                    fail(s, "mpz_%s not terminated by nullptr" % short)
                args = args[:-1]
            for a in args:
                sl, i = self.mpz_ref(a)
                if GMP_VARIADIC.get(short) == "init":
                    self.write_ref(sl, i, "GmpSem.init", s, pad, out)
                elif i is None:
                    if not sl.writable:
                        fail(s, "mpz_clear of %s" % sl.rname)
                    sl.init = False          # no value any more
                else:
                    sl.cells.discard(i.s)
            return
        if short not in GMP_STMT:
            fail(s, "GMP function mpz_%s is not in the mapping table (lean/NflVerif/Model/GmpSem.lean)" % short)
        roles, tmpl = GMP_STMT[short]
        if len(args) != len(roles):
            fail(s, "argument count of mpz_%s" % short)
        if short == "invert":
            self.use_inv = True
            self.tr.notes.add("the int result of mpz_invert is ignored by the C++ (%s:%s)" % (self.tr.short(s.get("_file")), s.get("_line")))
        elif ctype_or_void(s) != "void":
            fail(s, "result of mpz_%s" % short)
        vals, dest = [], None
        for r, a in zip(roles, args):
            if r in "oI":
                dest = self.mpz_ref(a)
                if r == "I" or short not in GMP_INIT:
                    cur = self.read_ref(dest[0], dest[1], a)      # GMP requires an initialised destination
                vals.append(cur if r == "I" else None)
            elif r == "z":
                vals.append(self.mpz_read(a))
            else:
                v = self.expr(a)
                if v.t != U64:
                    fail(a, "unsigned long argument of type %s" % g.tyname(v.t))
                vals.append(v.p())
        self.write_ref(dest[0], dest[1], tmpl.format(*vals), s, pad, out)

    def int_target(self, lhs):
        lhs = self.strip_paren(lhs)
        if lhs.get("kind") == "MemberExpr":
            self.count(lhs)
            obj = lhs["inner"][0]
            if not lhs.get("isArrow") or obj.get("kind") != "CXXThisExpr" or lhs.get("referencedMemberDecl") not in self.env:
                fail(lhs, "assignment target")
            self.count(obj)
            if not self.is_ctor:
                fail(lhs, "assignment to a data member of GMP outside its constructor")
            return self.env[lhs["referencedMemberDecl"]]
        return self.target(lhs)

    def with_scope(self, lst, ind):
        """translate a block; variables it declares disappear afterwards; returns (lines, written outer objects)"""
        before_ids = set(self.env) | set(self.slots)
        cells = {id(o): set(o.cells) for o in self.order if isinstance(o, Slot)}
        outer = list(self.order)
        w = set()
        self.wstack.append(w)
        lines = self.stmts(lst, ind)
        self.wstack.pop()
        for did in [d for d in list(self.env) + list(self.slots) if d not in before_ids]:
            self.drop(did)
        for o in self.order:
            if isinstance(o, Slot) and id(o) in cells:
                o.cells = cells[id(o)]
        return lines, [o for o in outer if o in w]

    def block_list(self, n):
        if n.get("kind") == "CompoundStmt":
            self.count(n)
            return n.get("inner", [])
        return [n]

    @staticmethod
    def tuple_of(objs):
        return objs[0].name if len(objs) == 1 else "(" + ", ".join(o.name for o in objs) + ")"

    @staticmethod
    def unpack(objs, st, pad):
        if len(objs) == 1:
            return []
        out = []
        for k, o in enumerate(objs):
            proj = ".2" * k + (".1" if k < len(objs) - 1 else "")
            out.append("%slet %s := %s%s" % (pad, o.name, st, proj))
        return out

    def check_init(self, objs, at, what):
        for o in objs:
            if not o.init:
                fail(at, "%s assigns %s, which holds no value before it" % (what, o.name))

    def stmts(self, lst, ind):
        out = []
        pad = "  " * ind
        for s in lst:
            k = s.get("kind")
            if k == "NullStmt":
                self.count(s)
                continue
            if k == "DeclStmt":
                self.count(s)
                for d in s["inner"]:
                    self.count(d)
                    if d.get("kind") in ("TypeAliasDecl", "TypedefDecl", "StaticAssertDecl"):
                        continue
                    if d.get("kind") != "VarDecl" or d.get("storageClass"):
                        fail(d, "declaration")
                    if is_mpz(d):
                        e = [c for c in d.get("inner", []) if "kind" in c]
                        if [c for c in e if c.get("kind") != "CXXConstructExpr"]:
                            fail(d, "mpz_t with an initialiser")
                        for c in e:
                            self.count(c)
                        sl = Slot(self.new_name(d), "mpz", False)
                        self.slots[d["id"]] = sl
                        self.order.append(sl)
                        out.append("%s-- %s   (mpz_t %s: no value yet)" % (pad, self.src(s), sl.name))
                        continue
                    e = [c for c in d.get("inner", []) if "kind" in c]
                    if d.get("init") != "c" or len(e) != 1:
                        fail(d, "local variable without a `= value` initialiser")
                    v = self.expr(e[0])
                    var = Var(self.new_name(d), ctype(d), True, None, g.is_const(d))
                    if v.t != var.t:
                        fail(d, "initialiser type")
                    self.env[d["id"]] = var
                    self.order.append(var)
                    out.append("%s-- %s" % (pad, self.src(s)))
                    out.append("%slet %s := %s" % (pad, var.name, v.s))
                continue
            if k == "CallExpr":
                self.gmp_stmt(s, pad, out)
                continue
            if k == "BinaryOperator" and s.get("opcode") == "=":
                self.count(s)
                lhs = self.strip_paren(s["inner"][0])
                if lhs.get("kind") == "CXXOperatorCallExpr":
                    v = self.expr(s["inner"][1])
                    sl, i = self.poly_cell(lhs)
                    if v.t != ("U", self.w) or ctype(s) != v.t:
                        fail(s, "type of the stored word")
                    out.append("%s-- %s" % (pad, self.src(s)))
                    if not sl.writable:
                        fail(s, "write to %s" % sl.rname)
                    out.append("%slet %s := %s.set %s (%s)" % (pad, sl.name, sl.name, i.p(), v.s))
                    self.wrote(sl)
                    continue
                var = self.int_target(lhs)
                v = self.expr(s["inner"][1])
                if v.t != var.t or ctype(s) != var.t:
                    fail(s, "assignment type")
                var.init = True
                self.wrote(var)
                out.append("%s-- %s" % (pad, self.src(s)))
                out.append("%slet %s := %s" % (pad, var.name, v.s))
                continue
            if k == "IfStmt":
                self.count(s)
                parts = s["inner"]
                if s.get("hasInit") or s.get("hasVar") or s.get("isConstexpr") or len(parts) not in (2, 3):
                    fail(s, "if statement shape")
                c = self.expr(parts[0])
                if c.t[0] != "B":
                    fail(parts[0], "condition type")
                th, w1 = self.with_scope(self.block_list(parts[1]), ind + 2)
                el, w2 = self.with_scope(self.block_list(parts[2]), ind + 2) if len(parts) == 3 else ([], [])
                objs = [o for o in self.order if o in w1 or o in w2]
                if not objs:
                    fail(s, "if statement without effect on the translated state")
                self.check_init(objs, s, "a conditional")
                for o in objs:
                    self.wrote(o)
                tup = self.tuple_of(objs)
                name = objs[0].name if len(objs) == 1 else "st"
                out.append("%s-- %s" % (pad, self.src(s)))
                out.append("%slet %s :=" % (pad, name))
                out.append("%s  if %s then" % (pad, c.s))
                out += th + ["%s    %s" % (pad, tup)]
                out.append("%s  else" % pad)
                out += el + ["%s    %s" % (pad, tup)]
                out += self.unpack(objs, "st", pad)
                continue
            if k == "ForStmt":
                out += self.for_stmt(s, ind)
                continue
            fail(s, "unknown statement")
        return out

    def for_stmt(self, s, ind):
        pad = "  " * ind
        self.count(s)
        parts = s["inner"]
        if len(parts) != 5 or (parts[1] or {}).get("kind"):
            fail(s, "for statement shape")
        init, _, cond, inc, body = parts
        # for (size_t v = 0; ...
        ds = (init or {}).get("inner", [])
        if (init or {}).get("kind") != "DeclStmt" or len(ds) != 1 or ds[0].get("kind") != "VarDecl" or ds[0].get("init") != "c":
            fail(s, "loop initialisation is not `size_t v = 0`")
        d = ds[0]
        self.count(init)
        self.count(d)
        e = [c for c in d.get("inner", []) if "kind" in c]
        v0 = self.expr(e[0])
        if ctype(d) != U64 or v0.const != 0:
            fail(d, "loop initialisation is not `size_t v = 0`")
        var = Var(self.new_name(d), U64, True, None, True)      # is_const: the body may not assign it
        self.env[d["id"]] = var
        # ...; v < B; ...
        if not (cond and cond.get("kind") == "BinaryOperator" and cond.get("opcode") == "<"):
            fail(s, "loop condition is not `v < bound`")
        self.count(cond)
        lhs = self.expr(cond["inner"][0])
        bound = self.expr(cond["inner"][1])
        if lhs.s != var.name or bound.t != U64 or not (bound.s in ("nmoduli", "degree") or bound.const is not None):
            fail(cond, "loop condition is not `v < (template constant)`")
        # ...; v++ / ++v)
        if not (inc and inc.get("kind") == "UnaryOperator" and inc.get("opcode") == "++"
                and unparen(inc["inner"][0]).get("referencedDecl", {}).get("id") == d["id"]):
            fail(s, "loop increment is not `v++`")
        self.count(inc)
        self.count(unparen(inc["inner"][0]))
        lines, objs = self.with_scope(self.block_list(body), ind + 3)
        self.drop(d["id"])
        if not objs:
            fail(s, "loop without effect on the translated state")
        self.check_init(objs, s, "the loop body")
        for o in objs:
            self.wrote(o)
        tup = self.tuple_of(objs)
        st = objs[0].name if len(objs) == 1 else "st"
        out = ["%s-- %s" % (pad, self.src(s)),
               "%slet %s := (List.range %s).foldl (fun %s %s =>" % (pad, st, bound.p(), st, var.name)]
        out += self.unpack(objs, "st", pad + "      ")
        out += lines
        out.append("%s      %s) %s" % (pad, tup, tup))
        out += self.unpack(objs, "st", pad)
        return out

    # ---------- whole functions
    def setup_fields(self, cls):
        self.fieldlist = []
        for f in cls.get("inner", []):
            if f.get("kind") != "FieldDecl":
                continue
            name = f["name"]
            if name in SYM_ORDER or name in ("P", "g", "inv", "st") or name in g.LEAN_KEYWORDS:
                fail(f, "member name %r clashes with a name of the generated code" % name)
            q = qual(f)
            if is_mpz(f):
                sl = Slot(name, "mpz", not self.is_ctor, None if self.is_ctor else "g." + name, self.is_ctor)
                self.slots[f["id"]] = sl
                self.fieldlist.append((name, "Int", sl))
            elif re.fullmatch(r"std::array<__mpz_struct\[1\], \d+>", q):
                ext = self.extent(f, int(q.split(",")[1].strip(" >")))
                sl = Slot(name, "mpzarr", True, None if self.is_ctor else "g." + name, self.is_ctor, all_init=not self.is_ctor)
                sl.extent = ext
                self.slots[f["id"]] = sl
                self.fieldlist.append((name, "List Int", sl))
            elif g.ctype_of_str(q) == U64:
                v = Var(name, U64, not self.is_ctor)
                self.env[f["id"]] = v
                self.fieldlist.append((name, "Nat", v))
            else:
                fail(f, "data member of type %r" % q)
            self.names[name] = f["id"]
            if self.is_ctor:
                self.order.append(self.fieldlist[-1][2])

    def extent(self, at, n):
        c = [k for k in ("nmoduli", "degree") if self.inst[k] == n]
        if len(c) != 1:
            fail(at, "array extent %d is not one of the template constants" % n)
        self.syms.add(c[0])
        return c[0]

    def translate(self, m, cls):
        self.method = m
        self.is_ctor = m.get("kind") == "CXXConstructorDecl"
        self.setup_fields(cls)
        self.count(m)
        head = []
        for c in m.get("inner", []):
            k = c.get("kind")
            if k == "CompoundStmt":
                continue
            if k == "CXXCtorInitializer" and self.is_ctor:
                e = c.get("inner", [])
                if len(e) != 1 or e[0].get("kind") != "CXXConstructExpr" or e[0].get("inner"):
                    fail(c, "member initialiser that is not the implicit default initialisation")
                self.count(c)
                continue
            if k != "ParmVarDecl":
                fail(c, "unexpected child of the function")
            self.count(c)
            q = qual(c)
            const = q.startswith("const ")
            q = q[6:] if const else q
            if not q.endswith("&"):
                fail(c, "parameter that is not a reference")
            q = q[:-1].strip()
            ma = re.fullmatch(r"std::array<(?:mpz_t|__mpz_struct\[1\]), (\d+)(?:UL)?>", q)
            if ma:
                sl = Slot(self.new_name(c), "mpzarr", True, writable=not const, all_init=True)
                sl.extent = self.extent(c, int(ma.group(1)))
                self.cparams.append((sl.name, "List Int", "std::array<mpz_t, %s>%s: %s integers" % (sl.extent, " const" if const else "", sl.extent)))
            elif q == "nfl::poly<%s, %d, %d>" % (self.tr.cname[self.suffix], self.inst["degree"], self.inst["nmoduli"]):
                sl = Slot(self.new_name(c), "words", True, writable=not const, all_init=True)
                self.cparams.append((sl.name, "List Nat", "poly%s: its nmoduli*degree words `_data`" % (" const" if const else "")))
            else:
                fail(c, "parameter of type %r" % q)
            self.slots[c["id"]] = sl
            self.order.append(sl)
        body = body_of(m)
        self.count(body)
        if self.is_ctor:
            for name, ty, o in self.fieldlist:
                if isinstance(o, Slot) and o.kind == "mpzarr":
                    head.append("  -- std::array<mpz_t, %s> %s: %s integers, none initialised yet (read only after mpz_init*: checked)" % (o.extent, name, o.extent))
                    head.append("  let %s : List Int := List.replicate %s 0" % (name, o.extent))
        self.wstack.append(set())
        lines = self.stmts(body.get("inner", []), 1)
        written = self.wstack.pop()
        if self.is_ctor:
            for name, ty, o in self.fieldlist:
                if not o.init:
                    fail(m, "the constructor leaves the member %s without a value" % name)
            lines.append("  { " + ", ".join("%s := %s" % (n, n) for n, _, _ in self.fieldlist) + " }")
            self.ret_ty = "GmpState"
        else:
            self.ret = [o for o in self.order if isinstance(o, Slot) and o in written and o.kind in ("mpzarr", "words")
                        and any(o.name == p[0] for p in self.cparams)]
            if not self.ret:
                fail(m, "function without effect on its reference parameters")
            lines.append("  " + self.tuple_of(self.ret))
            self.ret_ty = " × ".join({"mpzarr": "List Int", "words": "List Nat"}[o.kind] for o in self.ret)
        self.body_lines = head + lines
        return self

    def render(self, what):
        ps = []
        if self.use_inv:
            ps.append("(inv : Nat → Nat → Nat)")
        syms = [x for x in SYM_ORDER if x in self.syms]
        if syms:
            ps.append("(%s : Nat)" % " ".join(syms))
        if self.use_P:
            ps.append("(P : List Nat)")
        if self.use_g:
            ps.append("(g : GmpState)")
        for n, ty, _ in self.cparams:
            ps.append("(%s : %s)" % (n, ty))
        doc = ["/-- `%s`  (%s:%s), T = %s." % (what, self.tr.short(self.method.get("_file")), self.method.get("_line"), self.tr.cname[self.suffix])]
        if self.use_P:
            doc.append("`P` = nfl::params<T>::P (get_modulus(cm) = P[cm], inlined from poly.hpp).")
        for n, ty, d in self.cparams:
            doc.append("`%s` = %s." % (n, d))
        doc.append("Result: " + ("the data members." if self.is_ctor else "the new value of " + ", ".join(o.name for o in self.ret) + ".") + " -/")
        return "\n".join(doc + ["def %s %s : %s :=" % (self.lean_name, " ".join(ps), self.ret_ty)] + self.body_lines)


def ctype_or_void(n):
    return "void" if qual(n) == "void" else qual(n)


# ------------------------------------------------------------------------------------------------ static_log2
def translate_log2(tr):
    """meta.hpp: the instantiated chains static_log2<N>::value -> impl::_log2<N>::value -> 1 + impl::_log2<K>::value ..."""
    specs = {"static_log2": {}, "_log2": {}}
    for n in tr.byid.values():
        if n.get("kind") == "ClassTemplateSpecializationDecl" and n.get("name") in specs and "inner" in n:
            a = targs(n)
            vs = [c for c in n.get("inner", []) if c.get("kind") == "VarDecl" and c.get("name") == "value"]
            if len(a) == 1 and len(vs) == 1 and [c for c in vs[0].get("inner", []) if "kind" in c]:
                specs[n["name"]][int(a[0]) % 2 ** 64] = vs[0]      # clang prints the size_t argument as a signed number
    owner = {}
    for nm in specs:
        for N, v in specs[nm].items():
            owner[v["id"]] = (nm, N)

    def ref_of(e, at):
        while e.get("kind") in ("ImplicitCastExpr", "ParenExpr", "ConstantExpr") and e.get("castKind", "NoOp") in ("LValueToRValue", "NoOp"):
            e = e["inner"][0]
        if e.get("kind") != "DeclRefExpr" or e.get("referencedDecl", {}).get("id") not in owner:
            fail(at, "initialiser is not a reference to another ::value")
        return owner[e["referencedDecl"]["id"]]

    def lit_of(e, at):
        while e.get("kind") in ("ImplicitCastExpr", "ParenExpr", "ConstantExpr") and e.get("castKind", "IntegralCast") in ("IntegralCast", "NoOp"):
            e = e["inner"][0]
        if e.get("kind") != "IntegerLiteral":
            fail(at, "initialiser is not `literal + reference`")
        return int(e["value"])

    for N, v in specs["static_log2"].items():
        e = [c for c in v["inner"] if "kind" in c][0]
        if ref_of(e, v) != ("_log2", N):
            fail(v, "static_log2<%d>::value is not impl::_log2<%d>::value" % (N, N))
    base, step = {}, {}
    for N, v in specs["_log2"].items():
        e = [c for c in v["inner"] if "kind" in c][0]
        x = e
        while x.get("kind") in ("ImplicitCastExpr", "ParenExpr", "ConstantExpr") and x.get("castKind", "NoOp") in ("IntegralCast", "NoOp"):
            x = x["inner"][0]
        if x.get("kind") == "IntegerLiteral":
            base[N] = int(x["value"])
        elif x.get("kind") == "BinaryOperator" and x.get("opcode") == "+" and ctype(x) == U64:
            nm, K = ref_of(x["inner"][1], v)
            if nm != "_log2":
                fail(v, "recursive reference")
            step[N] = (lit_of(x["inner"][0], v), K)
        else:
            fail(v, "initialiser of impl::_log2<%d>::value" % N)
    if base != {1: 0}:
        raise Unsupported("meta.hpp: base cases of impl::_log2 are %r (expected only _log2<1>::value = 0)" % base)
    bad = [(N, c, K) for N, (c, K) in step.items() if c != 1 or K != N // 2 or N < 2]
    if bad or len(step) < 60:
        raise Unsupported("meta.hpp: impl::_log2<N>::value is not `1 + _log2<N/2>::value` on the instantiations %r (%d observed)" % (bad[:5], len(step)))

    def ev(N):
        r = 0
        while N != 1:
            c, N = step[N]
            r += c
        return r
    vals = {N: ev(N) for N in specs["static_log2"]}
    missing = [N for N in tr.log2_used if N not in vals]
    if missing:
        raise Unsupported("static_log2<%r> used but not found" % missing)
    anyv = next(iter(specs["_log2"].values()))
    src = tr.source_line(specs["_log2"][max(step)]["_file"], specs["_log2"][max(step)]["_line"])
    show = sorted(set(list(tr.log2_used) + [1, 2, 3, 4, 7, 8, 1000, 2 ** 63, 2 ** 64 - 1]) & set(vals))
    text = "\n".join([
        "/-- `nfl::impl::_log2<N>::value` (%s): `%s`, `_log2<1>::value = 0`." % (tr.short(anyv.get("_file")), src),
        "clang's JSON does not print the template argument of the dependent reference; it is read off the %d instantiated" % len(step),
        "specialisations (each `_log2<N>::value` is `1 + _log2<K>::value` with K = N/2: N = 2..66, 1000, 2^32-1, 2^32, 2^63, 2^64-1 and",
        "everything on their chains).  `fuel`: a `size_t` N ≥ 1 reaches 1 after at most 63 halvings; N = 0 never does",
        "(infinite template recursion — `static_log2<0>` is specialised to have no `value`: NbModuli = 0 does not compile). -/",
        "def log2_impl : Nat → Nat → Nat",
        "  | 0, _ => 0",
        "  | fuel + 1, N => if N = 1 then 0 else CSem.addU 64 1 (log2_impl fuel (CSem.divU 64 N 2))",
        "/-- `nfl::static_log2<N>::value = impl::_log2<N>::value` -/",
        "def static_log2 (N : Nat) : Nat := log2_impl 64 N",
        "/-- the values the instantiated chains give (summed by the translator) -/",
    ] + ["example : static_log2 %d = %d := by %s" % (N, vals[N], "decide" if N < 2 ** 16 else "decide +kernel") for N in show])
    return text, len(step)


# ------------------------------------------------------------------------------------------------ driver
class CrtTranslator(g.Translator):
    def load(self, txt):
        self.byid = g.annotate(g.parse_objects(txt))
        self.typedefs = {}
        self.size_t_sites, self.gmp_calls, self.log2_used, self.notes, self.krep = [], {}, set(), set(), {}

    def const_eval(self, n, to):
        # a constant initialised from another constant (poly::nbits = params<T>::kModulusBitsize)
        if n.get("kind") == "ImplicitCastExpr" and n.get("castKind") == "LValueToRValue" and n["inner"][0].get("kind") == "DeclRefExpr":
            c = self.global_const(n["inner"][0].get("referencedDecl", {}), n)
            return c % 2 ** to[1] if to[0] == "U" else c
        return g.Translator.const_eval(self, n, to)

    def krep_of(self, cname):
        for n in self.byid.values():
            if n.get("kind") == "ClassTemplateSpecializationDecl" and n.get("name") == "params" and targs(n) == [cname] and "inner" in n:
                for c in n["inner"]:
                    if c.get("kind") == "VarDecl" and c.get("name") == "kModulusRepresentationBitsize":
                        return self.global_const({"id": c["id"], "name": c["name"]}, c)
        raise Unsupported("nfl::params<%s>::kModulusRepresentationBitsize not found" % cname)

    def find(self, cname, deg, nm):
        found = []
        for n in self.byid.values():
            if n.get("kind") == "ClassTemplateSpecializationDecl" and n.get("name") == "poly" and targs(n) == [cname, deg, nm]:
                for c in n.get("inner", []):
                    if c.get("kind") == "CXXRecordDecl" and c.get("name") == "GMP" and any(x.get("kind") == "FieldDecl" for x in c.get("inner", [])):
                        found.append(c)
        found = list({c["id"]: c for c in found}.values())
        if len(found) != 1:
            raise Unsupported("%d definitions of nfl::poly<%s,%d,%d>::GMP found" % (len(found), cname, deg, nm))
        cls = found[0]
        ms = {}
        for c in cls.get("inner", []):
            if not has_body(c):
                continue
            if c.get("kind") == "CXXConstructorDecl" and not [p for p in c["inner"] if p.get("kind") == "ParmVarDecl"]:
                ms.setdefault("gmp_ctor", []).append(c)
            if c.get("kind") == "CXXMethodDecl" and c.get("name") in ("poly2mpz", "mpz2poly") and len([p for p in c["inner"] if p.get("kind") == "ParmVarDecl"]) == 2:
                ms.setdefault(c["name"], []).append(c)
        for k in ("gmp_ctor", "poly2mpz", "mpz2poly"):
            if len(ms.get(k, [])) != 1:
                raise Unsupported("%d instantiated bodies of nfl::poly<%s,%d,%d>::GMP::%s found" % (len(ms.get(k, [])), cname, deg, nm, k))
        return cls, {k: v[0] for k, v in ms.items()}

    def fields_text(self, fn):
        lines = ["/-- the data members of `nfl::poly<T,Degree,NbModuli>::GMP` (poly.hpp): `mpz_t` = Int, `size_t` = Nat (< 2^64),",
                 "`std::array<mpz_t, nmoduli>` = List Int -/", "structure GmpState where"]
        for name, ty, _ in fn.fieldlist:
            lines.append("  %s : %s" % (name, ty))
        return "\n".join(lines)


WHAT = {"gmp_ctor": "nfl::poly<T,Degree,NbModuli>::GMP::GMP()",
        "poly2mpz": "nfl::poly<T,Degree,NbModuli>::GMP::poly2mpz(std::array<mpz_t,Degree>& rop, poly const& op)",
        "mpz2poly": "nfl::poly<T,Degree,NbModuli>::GMP::mpz2poly(poly& rop, std::array<mpz_t,Degree> const& poly_mpz)"}


def translate_inst(tr, cname, suf, deg, nm):
    w = int(suf[1:])
    cls, ms = tr.find(cname, deg, nm)
    fns = []
    for k in ("gmp_ctor", "poly2mpz", "mpz2poly"):
        fn = CrtFn(tr, k, suf, w, {"degree": deg, "nmoduli": nm})
        fn.translate(ms[k], cls)
        fns.append(fn)
    return fns


def make_tu():
    os.makedirs(g.BUILD, exist_ok=True)
    tu = os.path.join(g.BUILD, "crt_ast_tu.cpp")
    lines = ['#include "nfl.hpp"']
    for t, _, suf in g.TYPES:
        for d, m in INSTS[suf]:
            p = "nfl::poly<%s, %d, %d>" % (t, d, m)
            lines.append("template %s::GMP::GMP();" % p)
            lines.append("template void %s::GMP::poly2mpz(std::array<mpz_t, %d>&, %s const&);" % (p, d, p))
            lines.append("template void %s::GMP::mpz2poly(%s&, std::array<mpz_t, %d> const&);" % (p, p, d))
    for N in LOG2_PROBES:
        lines.append("static_assert(nfl::static_log2<%dULL>::value < 64, \"\");" % N)
    open(tu, "w").write("\n".join(lines) + "\n")
    return tu


def main():
    repo = os.environ.get("VERIF_REPO", "/repo")
    out = OUT
    if "--repo" in sys.argv:
        repo = sys.argv[sys.argv.index("--repo") + 1]
    if "--out" in sys.argv:
        out = sys.argv[sys.argv.index("--out") + 1]
    repo = os.path.abspath(repo)
    txt = clang_ast(repo, make_tu())
    if "--keep" in sys.argv:
        open(os.path.join(g.BUILD, "crt_ast_dump.json"), "w").write(txt)
    tr = CrtTranslator(repo)
    try:
        tr.load(txt)
        texts, first, fields = {}, [], None
        for _, cname, suf in g.TYPES:
            per = []
            for k, (d, m) in enumerate(INSTS[suf]):
                sites = len(tr.size_t_sites)
                fns = translate_inst(tr, cname, suf, d, m)
                per.append("\n\n".join(f.render(WHAT[f.fname]) for f in fns))
                ft = tr.fields_text(fns[0])
                if fields is not None and ft != fields:
                    raise Unsupported("the data members of GMP differ between instantiations")
                fields = ft
                if k == 0:
                    first += fns
                else:
                    del tr.size_t_sites[sites:]
                if per[k] != per[0]:
                    raise Unsupported("poly<%s,%d,%d> and poly<%s,%d,%d> do not translate to the same text up to the parameters nmoduli / degree "
                                      "(a concrete value of the instantiation would be baked in)" % ((cname,) + INSTS[suf][0] + (cname, d, m)))
            texts[suf] = per[0]
        log2_text, log2_n = translate_log2(tr)
        for _, cname, suf in g.TYPES:
            tr.krep[suf] = tr.krep_of(cname)
    except Unsupported as e:
        msg = "gen_crt_ast: UNSUPPORTED C++ construct, nothing translated: %s" % e
        sys.stderr.write(msg + "\n")
        print(json.dumps({"ok": False, "err": msg}))
        sys.exit(3)
    consts = []
    for _, cname, suf in g.TYPES:
        consts.append("/-- `nfl::params<%s>::kModulusRepresentationBitsize` (params.hpp, value read from the AST) -/" % cname)
        consts.append("def kModulusRepresentationBitsize_%s : Nat := %d" % (suf, tr.krep[suf]))
    head = [
        "-- GENERATED by tools/gen_crt_ast.py from clang++-14's typed AST of include/nfl/gmp.hpp (GMP::GMP(), GMP::poly2mpz(array&, poly const&),",
        "-- GMP::mpz2poly), include/nfl/poly.hpp (class GMP, get_modulus, operator()(cm,i)) and include/nfl/meta.hpp (static_log2).  Do not edit.",
        "-- Instantiations poly<T,Degree,NbModuli>: " + "; ".join("%s: %s" % (t, ", ".join("<%d,%d>" % dm for dm in INSTS[s])) for t, _, s in g.TYPES) +
        " — for every T both give the text below",
        "-- (nmoduli, degree, kModulusRepresentationBitsize are parameters).  One `let` per C++ statement; every GMP call is the operation of",
        "-- Model/GmpSem.lean with the same name; integer expressions use Model/CSem.lean; `for (size_t v = 0; v < B; v++)` = fold over List.range B.",
        "import NflVerif.Model.CSem",
        "import NflVerif.Model.GmpSem",
        "namespace Nfl.Gen",
        "open Nfl",
        "set_option linter.unusedVariables false   -- a C++ variable that is dead after its last assignment",
        "",
    ]
    text = "\n".join(head) + "\n" + log2_text + "\n\n" + fields + "\n\n" + "\n".join(consts) + "\n\n" + \
           "\n\n".join(texts[s] for _, _, s in g.TYPES) + "\n\nend Nfl.Gen\n"
    changed = g.write_if_changed(out, text)
    print(json.dumps({
        "ok": True, "functions": [f.lean_name for f in first] + ["static_log2", "GmpState"], "nodes": sum(f.nodes for f in first),
        "node_kinds": dict(sorted(tr.kinds.items())), "gmp_calls": dict(sorted(tr.gmp_calls.items())),
        "instantiations_compared": {s: INSTS[s] for _, _, s in g.TYPES}, "static_log2_specialisations_checked": log2_n,
        "size_t_sites": [json.loads(x) for x in dict.fromkeys(json.dumps(x) for x in tr.size_t_sites)], "notes": sorted(tr.notes),
        "not_translated": ["poly::set_mpz(It,It) and the forwarding overloads / constructors / operator=", "GMP::poly2mpz(poly const&) (by-value wrapper)", "GMP::~GMP()"],
        "sha": hashlib.sha256(text.encode()).hexdigest()[:16], "changed": changed,
        "out": os.path.relpath(out, g.VERIF), "repo": repo}))


def clang_ast(repo, tu):
    import subprocess
    inc = os.path.join(repo, "include")
    cmd = [g.CLANG, "-std=gnu++17", "-fsyntax-only", "-DNFL_OPTIMIZED", "-Wno-instantiation-after-specialization", "-fno-access-control",
           "-I" + inc, "-I" + os.path.join(inc, "nfl"), "-I" + os.path.join(inc, "nfl", "prng"),
           "-Xclang", "-ast-dump=json", "-Xclang", "-ast-dump-filter=nfl::", tu]
    r = subprocess.run(cmd, capture_output=True, text=True)
    if r.returncode != 0:
        raise SystemExit("gen_crt_ast: clang failed (rc=%d):\n%s" % (r.returncode, r.stderr[-3000:]))
    return r.stdout


if __name__ == "__main__":
    main()
