#!/usr/bin/env python3
"""Translator: clang's typed AST of the LOOP STRUCTURE of NFLlib's SSE / AVX2 transforms -> lean/NflVerif/Generated/VLoopAst.lean

Two configurations of one translation unit including "nfl.hpp" (the flags of tools/gen_simd_ast.py):
    sse  : -DNFL_OPTIMIZED -DNTT_SSE  -msse4.2        avx2 : -DNFL_OPTIMIZED -DNTT_AVX2 -mavx2
with explicit instantiations of poly<T,Degree,1>::core::ntt for T = uint16_t, uint32_t, uint64_t and Degree = 16, 64 (`degree` is kept
as a PARAMETER: both degrees must give the same text).  Translated from the CURRENT text of $REPO/include/nfl/opt/arch/sse.hpp,
avx2.hpp and core.hpp, reusing the machinery of tools/gen_nttloop_ast.py (imported, not modified):
  ntt_loop_sse_run_uW    nfl::ops::ntt_loop_sse_unrolled<poly>::run(x, wtab, winvtab, p)    W = 16, 32
  ntt_loop_avx2_run_uW   nfl::ops::ntt_loop_avx2_unrolled<poly>::run(x, wtab, winvtab, p)   W = 16, 32
  ntt_sse_uW / ntt_avx2_uW   nfl::poly<T,Degree,1>::core::ntt of that build, W = 16, 32, 64, calling the `run` that
                    `ops::ntt_loop<CC_SIMD, poly>::run` RESOLVES TO in the AST (the inheritance chain is followed and recorded: for
                    uint64_t it ends in ntt_loop<simd::serial, poly, T>::run, whose text is re-translated here and must be, character
                    for character, the `ntt_loop_run_u64` of Generated/NttLoopAst.lean, which is then called).
Reading of the C++ (beyond gen_nttloop_ast.py; semantics: lean/NflVerif/Model/CSemVLoop.lean):
  * `body_sse(&x[a], &x[b], &winvtab[c], &wtab[d])` on an object of ntt_loop_body<simd::sse|avx2, poly, T>: the kernel
    `GenSimd.<mode>_bfly_uW` of Generated/SimdAst.lean (tools/gen_simd_ast.py: constructor + operator() as a function of the loaded
    registers; NOT re-translated) applied to `CSemVLoop.rdv L arr idx` — the L = bits/W consecutive cells from idx on, lane 0 = lowest
    address (the view of SimdView.relane and of the hand model) — the results written back with `CSemVLoop.wrv` in parameter order.
    The register width is read off operator()'s body: every use of a pointer parameter must be the argument of one
    `_mm_load_si128` / `_mm256_load_si256` (exactly one per parameter) or `_mm_store_si128` / `_mm256_store_si256`; the parameter
    list must be the one of the generated kernel's signature in SimdAst.lean.  ALIGNMENT is not modelled in Lean (the concrete
    run below checks that every vector access is at an offset that is a multiple of L from its base array, assumed 32-byte aligned).
  * the scalar functor `body(...)` = block `ntt_body_uW` of Generated/NttAst.lean, as in gen_nttloop_ast.py;
  * `for (…; i += e)` with `e` a constant expression (`simd::sse::elt_count<T>::value = 16/sizeof(T)`, translated node by node with
    sizeof(T) from the C type) = CSemLoop.forRange with that step; `if (c) { … }` without else inside a loop = `if c then … else state`;
  * `constexpr size_t w = J-1; M = 1 << w` : plain lets (for degree < 8 not a constant expression => the build is rejected: probed).
BOUNDS: the translated loop nests are RUN on the index expressions alone for every degree 2^3 … 2^15 and both vector limb types:
every cell of every vector / scalar access inside its array (x: degree cells, tables: degree-1), the two stored registers disjoint,
offsets multiples of L, shift counts and loop steps without wrap — otherwise the translator stops, naming the expression.
SMALL DEGREES: the translator compiles probes (Degree = 1, 2, 4, 8 per configuration and limb type): the vector loops (uint16_t,
uint32_t) must be rejected by clang for 1, 2, 4 and accepted for 8; uint64_t accepted for all.  Result: `VLoop.min_degree`.
Unknown node kind / callee / type => non-zero exit naming kind and file:line.  The last line of stdout is a JSON summary.
Usage: gen_vloop_ast.py [--repo DIR] [--out FILE] [--keep]
"""
import hashlib, json, os, re, subprocess, sys

HERE = os.path.dirname(os.path.abspath(__file__))
sys.path.insert(0, HERE)
import gen_ops_ast as g
import gen_ntt_ast as gn
import gen_crt_ast as gc
import gen_nttloop_ast as gl
import gen_simd_ast as gs
from gen_ops_ast import Unsupported, fail, ctype
from gen_nttloop_ast import E, Ptr, Bounds, proj, unparen, U64, S32, BOOL

OUT = os.path.join(g.VERIF, "lean", "NflVerif", "Generated", "VLoopAst.lean")
SIMD_LEAN = os.path.join(g.VERIF, "lean", "NflVerif", "Generated", "SimdAst.lean")
NTTLOOP_LEAN = os.path.join(g.VERIF, "lean", "NflVerif", "Generated", "NttLoopAst.lean")
CONFIGS = gs.CONFIGS                     # [("sse", flags), ("avx2", flags)]
DEGREES = [16, 64]
CHECK_K = list(range(3, 16))
PROBE_DEGREES = [1, 2, 4, 8]
LOADS = {"_mm_load_si128": 128, "_mm256_load_si256": 256}
STORES = {"_mm_store_si128": 128, "_mm256_store_si256": 256}
SIZEOF = {("U", 16): 2, ("U", 32): 4, ("U", 64): 8}


class Kernel:
    """a vector functor class ntt_loop_body<simd::MODE, poly, T>: the generated kernel of SimdAst.lean and its memory footprint"""

    def __init__(self, mode, suf, w, bits, params, op, cls):
        self.mode, self.suf, self.w, self.bits, self.params, self.op, self.cls = mode, suf, w, bits, params, op, cls
        self.L = bits // w
        self.lean_name = "GenSimd.%s_bfly_%s" % (mode, suf)


def walk(n, f):
    f(n)
    for c in n.get("inner", []):
        if isinstance(c, dict):
            walk(c, f)


class VFn(gl.LFn):
    def __init__(self, tr, m, fname, suf, w, deg):
        gl.LFn.__init__(self, tr, m, fname, suf, w, deg)
        self.vfunctors = {}

    # ---------- expressions
    def expr(self, n):
        if n.get("kind") == "UnaryExprOrTypeTraitExpr":
            self.count(n)
            at = n.get("argType") or {}
            t = g.ctype_of_str(at.get("desugaredQualType", at.get("qualType", "")))
            if n.get("name") != "sizeof" or ctype(n) != U64 or t not in SIZEOF or n.get("inner"):
                fail(n, "type trait %r of %r" % (n.get("name"), at))
            c = SIZEOF[t]
            return E(str(c), U64, lambda env: c, atom=True)
        return gl.LFn.expr(self, n)

    def symbolic(self, n):
        rd = n.get("referencedDecl", {})
        d = self.tr.byid.get(rd.get("id")) or {}
        par = d.get("_parent") or {}
        if d.get("kind") == "VarDecl" and par.get("kind") == "ClassTemplateSpecializationDecl" and par.get("name") == "elt_count":
            # simd::sse::elt_count<T>::value / simd::avx2::elt_count<T>::value
            owner = (par.get("_parent") or {}).get("_parent") or {}
            if rd.get("name") != "value" or owner.get("kind") != "CXXRecordDecl" or owner.get("name") not in ("sse", "avx2") or \
                    gn.targs(par) != [self.tr.cname[self.suf]] or not d.get("constexpr") or d.get("storageClass") != "static" or ctype(n) != U64:
                fail(n, "reference to %s::elt_count<%s>::%s" % (owner.get("name"), gn.targs(par), rd.get("name")))
            if d["id"] not in self.hoisted:
                init = [c for c in d.get("inner", []) if "kind" in c]
                if len(init) != 1:
                    fail(d, "static constexpr member without a single initialiser")
                self.count(d)
                v = self.expr(init[0])
                if v.t != ctype(d) or v.ev is None:
                    fail(d, "initialiser type")
                nm = self.new_name(d, "%s_elt_count" % owner["name"])
                self.prelude += ["  -- %s   (simd::%s::elt_count<%s>::value)" % (self.src(d), owner["name"], self.tr.cname[self.suf]),
                                 "  let %s := %s" % (nm, v.s)]
                ev = v.ev

                def act(env, nm=nm, ev=ev):
                    env[nm] = ev(env)
                self.pre_acts.append(act)
                self.hoisted[d["id"]] = (nm, v.t)
            nm, t = self.hoisted[d["id"]]
            return E(nm, t, lambda env: env[nm], atom=True)
        return gl.LFn.symbolic(self, n)

    # ---------- statements
    def stmts(self, lst, ind):
        out, acts = [], []

        def seq(env):
            for a in acts:
                if a(env) == "ret":
                    return "ret"
        for pos, s in enumerate(lst):
            if s.get("kind") == "IfStmt":
                br = s["inner"][1] if len(s.get("inner", [])) >= 2 else {}
                blst = br.get("inner", []) if br.get("kind") == "CompoundStmt" else [br]
                if blst and blst[-1].get("kind") == "ReturnStmt":       # `if (c) return …` : the rest of the list is the else branch
                    l, a = gl.LFn.stmts(self, lst[pos:], ind)
                    out += l
                    acts.append(a)
                    return out, seq
                self.count(s)
                l, a = self.if_stmt(s, ind)
            else:
                l, a = gl.LFn.stmts(self, [s], ind)
            out += l
            acts.append(a)
        return out, seq

    def if_stmt(self, s, ind):
        """`if (c) { … }` without else, without return: a conditional update of the state the branch assigns"""
        pad = "  " * ind
        parts = s["inner"]
        if s.get("hasInit") or s.get("hasVar") or s.get("isConstexpr") or s.get("hasElse") or len(parts) != 2:
            fail(s, "if statement shape (only `if (c) { … }` without else is translated here)")
        c = self.expr(parts[0])
        if c.t != BOOL or c.ev is None:
            fail(parts[0], "condition")
        br = parts[1]
        blst = br.get("inner", []) if br.get("kind") == "CompoundStmt" else [br]
        if br.get("kind") == "CompoundStmt":
            self.count(br)
        mark = len(self.declared)
        self.wstack.append(set())
        bl, ba = self.stmts(blst, ind + 3)
        written = self.wstack.pop()
        del self.declared[mark:]
        state = [nm for nm in self.declared if nm in written]
        if not state:
            fail(s, "if statement without effect on the translated state")
        for nm in state:
            self.wrote(nm)
        tup = "(%s)" % ", ".join(state) if len(state) > 1 else state[0]
        out = ["%s-- %s" % (pad, self.src(s)), "%slet st := if %s then" % (pad, c.s)] + bl + ["%s      %s" % (pad, tup), "%s    else %s" % (pad, tup)]
        for j, nm in enumerate(state):
            out.append("%slet %s := %s" % (pad, nm, proj("st", j, len(state))))
        ce = c.ev

        def act(env):
            if ce(env):
                if ba(env) == "ret":
                    raise Bounds("return inside an if at %s" % self.src(s))
        return out, act

    def for_stmt(self, s, ind):
        """gen_nttloop_ast.LFn.for_stmt, for a header `v += e` whose step `e` is a constant size_t EXPRESSION (not assigned in the loop);
        every other header goes to gen_nttloop_ast's own translation"""
        inc0 = unparen((s.get("inner") or [None] * 5)[3] or {})
        if not (len(s.get("inner", [])) == 5 and inc0.get("kind") == "CompoundAssignOperator" and inc0.get("opcode") == "+="
                and gn.literal_value(inc0["inner"][1]) is None):
            return gl.LFn.for_stmt(self, s, ind)
        pad = "  " * ind
        parts = s["inner"]
        if (parts[1] or {}).get("kind"):
            fail(s, "for statement shape")
        init, _, cond, inc, body = parts
        ds = (init or {}).get("inner", [])
        if (init or {}).get("kind") != "DeclStmt" or len(ds) != 1 or ds[0].get("kind") != "VarDecl" or ds[0].get("init") != "c":
            fail(s, "loop initialisation is not `size_t v = a`")
        d = ds[0]
        self.count(init)
        self.count(d)
        if ctype(d) != U64:
            fail(d, "loop variable that is not a size_t")
        a = self.expr([c for c in d["inner"] if "kind" in c][0])
        mark = len(self.declared)
        var = self.new_name(d)
        self.ints[d["id"]] = (var, U64, False)
        if not (cond and cond.get("kind") == "BinaryOperator" and cond.get("opcode") == "<"):
            fail(s, "loop condition is not `v < bound`")
        self.count(cond)
        lhs = self.expr(cond["inner"][0])
        bound = self.expr(cond["inner"][1])
        if lhs.s != var or bound.t != U64 or a.t != U64:
            fail(cond, "loop condition is not `v < bound` in size_t")
        n = inc0
        tgt = unparen(n["inner"][0])
        if tgt.get("referencedDecl", {}).get("id") != d["id"]:
            fail(s, "loop increment (only `v += e` on the loop variable is translated here)")
        self.count(n)
        self.count(tgt)
        step = self.expr(n["inner"][1])
        if step.t != U64 or step.ev is None:
            fail(n, "loop step is not a size_t expression")
        step_refs = []
        self.referenced_ids(n["inner"][1], step_refs)
        assigned = []
        self.assigned_ids(body, assigned)
        if d["id"] in assigned:
            fail(s, "the loop body assigns the loop variable")
        refs = []
        self.referenced_ids(cond["inner"][1], refs)
        if (set(refs) | set(step_refs)) & (set(assigned) | {d["id"]}):
            fail(s, "the loop bound / step depends on a variable the loop assigns")
        if s["id"] in self.blocks:
            fail(s, "a block loop with a non-literal step")
        self.wstack.append(set())
        blst = body.get("inner", []) if body.get("kind") == "CompoundStmt" else [body]
        if body.get("kind") == "CompoundStmt":
            self.count(body)
        bl, ba = self.stmts(blst, ind + 3)
        return self.finish_for(s, ind, d, var, a, bound, step, bl, ba, mark)

    def finish_for(self, s, ind, d, var, a, bound, step, bl, ba, mark):
        pad = "  " * ind
        written = self.wstack.pop()
        del self.declared[mark:]
        self.ints.pop(d["id"])
        state = [nm for nm in self.declared if nm in written]
        if not state:
            fail(s, "loop without effect on the translated state")
        for nm in state:
            self.wrote(nm)
        tup = "(%s)" % ", ".join(state) if len(state) > 1 else state[0]
        out = ["%s-- %s" % (pad, self.src(s)),
               "%slet st := CSemLoop.forRange %s %s %s (fun %s st =>" % (pad, a.p(), bound.p(), step.p(), var)]
        for j, nm in enumerate(state):
            out.append("%s      let %s := %s" % (pad, nm, proj("st", j, len(state))))
        out += bl
        out.append("%s      %s) %s" % (pad, tup, tup))
        for j, nm in enumerate(state):
            out.append("%slet %s := %s" % (pad, nm, proj("st", j, len(state))))
        ae, be, se = a.ev, bound.ev, step.ev

        def act(env):
            lo, hi, st = ae(env), be(env), se(env)
            if st <= 0:
                raise Bounds("loop step %d at %s (degree %d)" % (st, self.src(s), env["degree"]))
            if hi + st > 2 ** 64:
                raise Bounds("loop variable may wrap at %s (bound %d, degree %d)" % (self.src(s), hi, env["degree"]))
            v = lo
            while v < hi:
                env[var] = v
                if ba(env) == "ret":
                    raise Bounds("return inside a loop at %s" % self.src(s))
                v += st
            env.pop(var, None)
        return out, act

    def var_decl(self, d, s, ind):
        pad = "  " * ind
        init = [c for c in d.get("inner", []) if "kind" in c and c["kind"] not in ("AlignedAttr",)]
        tq = (d.get("type") or {}).get("desugaredQualType", (d.get("type") or {}).get("qualType", ""))
        if init and unparen(init[0]).get("kind") == "CXXConstructExpr":
            m = re.fullmatch(r"(?:nfl::ops::)?ntt_loop_body<(?:nfl::)?simd::(sse|avx2), .*>", tq)
            if m:                                                    # ntt_loop_body<simd::sse, poly, value_type> body_sse(p);
                c = unparen(init[0])
                self.count(c)
                k = self.tr.kernel(m.group(1), self.suf, self.deg, d)
                ctor = self.tr.byid.get((c.get("ctorType") or {}).get("id", ""), None)
                args = [self.expr(a) for a in c.get("inner", [])]
                if len(args) != 1 or args[0].t != ("U", self.w):
                    fail(c, "constructor arguments of ntt_loop_body<simd::%s>" % m.group(1))
                self.vfunctors[d["id"]] = (k, [args[0].s])
                return ["%s-- %s   (functor object: vector kernel `%s` of Generated/SimdAst.lean, %d lanes of %d bits, constructor argument %s)" % (
                    pad, self.src(s), k.lean_name, k.L, k.w, args[0].s)], None
        return gl.LFn.var_decl(self, d, s, ind)

    # ---------- calls
    def call_stmt(self, n, ind, decl):
        inner = n["inner"]
        callee = inner[0]
        if not (callee.get("kind") == "ImplicitCastExpr" and callee.get("castKind") == "FunctionToPointerDecay"
                and callee["inner"][0].get("kind") == "DeclRefExpr"):
            fail(callee, "callee expression")
        rd = callee["inner"][0]["referencedDecl"]
        md = self.tr.byid.get(rd.get("id")) or {}
        if n.get("kind") == "CXXOperatorCallExpr":
            obj = unparen(inner[1])
            while obj.get("kind") == "ImplicitCastExpr" and obj.get("castKind") == "NoOp":
                obj = unparen(obj["inner"][0])
            fid = obj.get("referencedDecl", {}).get("id")
            if obj.get("kind") == "DeclRefExpr" and fid in self.vfunctors and decl is None:
                return self.kernel_call(n, ind, md, fid)
            return gl.LFn.call_stmt(self, n, ind, decl)
        if md.get("name") == "run" and md.get("id") == (self.tr.run_m.get((self.suf, self.deg)) or {}).get("id"):
            return self.run_call(n, ind, decl, md)
        return gl.LFn.call_stmt(self, n, ind, decl)

    def kernel_call(self, n, ind, md, fid):
        pad = "  " * ind
        inner = n["inner"]
        self.count(n)
        self.count(inner[0])
        self.count(inner[0]["inner"][0])
        obj = unparen(inner[1])
        while obj.get("kind") == "ImplicitCastExpr" and obj.get("castKind") == "NoOp":
            self.count(obj)
            obj = unparen(obj["inner"][0])
        self.count(obj)
        k, pval = self.vfunctors[fid]
        if md.get("id") != k.op["id"]:
            fail(n, "operator() of another class")
        if len(k.params) != len(inner) - 2:
            fail(n, "argument count")
        acc = []
        for (pname, const), a in zip(k.params, inner[2:]):
            p, s, ev, _ = self.ptr_arg(a)
            if not const and not p.writable:
                fail(a, "kernel %s stores through the read-only pointer into %s" % (k.lean_name, p.base))
            acc.append((pname, const, p, s, ev))
        outs = [x for x in acc if not x[1]]
        lines = ["%s-- %s   … vector kernel `%s` of Generated/SimdAst.lean on the %d cells from %s" % (
            pad, self.src(n), k.lean_name, k.L, ", ".join(x[0] for x in acc)),
                 "%slet o := %s %s %s" % (pad, k.lean_name, " ".join(pval), " ".join("(CSemVLoop.rdv %d %s (%s))" % (k.L, x[2].base, x[3]) for x in acc))]
        for j, (pname, _, p, s, _) in enumerate(outs):
            lines.append("%slet %s := CSemVLoop.wrv %s (%s) %s" % (pad, p.base, p.base, s, proj("o", j, len(outs))))
            self.wrote(p.base)
        L = k.L

        def act(env):
            idx = [(x, x[4](env)) for x in acc]
            for (pname, const, p, s, _), i in idx:
                for j in (0, L - 1):
                    self.access(env, p, i + j, "vector %s (%s, %d lanes)" % ("read" if const else "read+write", pname, L), n)
                env["__n"][0] += L - 2
                if i % L != 0:
                    raise Bounds("vector access of %d lanes at %s[%d]: not a multiple of the lane count (alignment, base assumed 32-byte aligned) at %s (degree %d)" % (
                        L, p.base, i, self.src(n), env["degree"]))
            ws = [(x[2].base, i) for x, i in idx if not x[1]]
            for a_ in range(len(ws)):
                for b_ in range(a_ + 1, len(ws)):
                    if ws[a_][0] == ws[b_][0] and abs(ws[a_][1] - ws[b_][1]) < L:
                        raise Bounds("kernel %s stores two overlapping registers (%s) at %s (degree %d)" % (k.lean_name, ws, self.src(n), env["degree"]))
        return lines, act

    def run_call(self, n, ind, decl, md):
        """`ops::ntt_loop<CC_SIMD, poly>::run(x, wtab, winvtab, p)` — the method the AST resolves the name to (gen_nttloop_ast.LFn.call_stmt's
        generic part, with the callee identified by its declaration id instead of by the class name)"""
        pad = "  " * ind
        inner = n["inner"]
        self.count(n)
        self.count(inner[0])
        self.count(inner[0]["inner"][0])
        args = inner[1:]
        f = self.tr.function("ntt_loop_run", self.suf, self.deg)
        prms = [c for c in md["inner"] if c.get("kind") == "ParmVarDecl"]
        if len(prms) != len(args):
            fail(n, "argument count")
        largs, vals, pts = ["degree"], [], []
        for prm, a_ in zip(prms, args):
            if gn.is_ptr_type(prm) or "*&" in prm["type"].get("qualType", "").replace(" ", ""):
                pts.append(self.ptr_arg(a_))
            else:
                vals.append(self.expr(a_))
        largs += [v.p() for v in vals]
        for (p, s, ev, var), fp in zip(pts, f.pparams):
            if fp.byref and var is None:
                fail(n, "reference-to-pointer parameter bound to something that is not a pointer variable")
            if fp.writable and not p.writable:
                fail(n, "writable pointer parameter bound to a read-only pointer")
            largs += [p.base, "(%s)" % s]
        if f.arrays or len(pts) != len(f.pparams) or len(vals) != len(f.vparams):
            fail(n, "parameters of %s" % f.lean_name)
        rn = f.result_names()
        outs = [p.base for (p, s, ev, var), fp in zip(pts, f.pparams) if fp.writable and fp.base in f.fn_written]
        outs += [var.off for (p, s, ev, var), fp in zip(pts, f.pparams) if fp.byref]
        if f.ret_t == BOOL or decl is None or ctype(decl) != f.ret_t:
            fail(n, "result of %s is not stored in a variable of its type" % f.lean_name)
        nm = self.new_name(decl)
        self.ints[decl["id"]] = (nm, f.ret_t, False)
        outs.append(nm)
        if len(outs) != len(rn) + 1:
            fail(n, "result arity of %s" % f.lean_name)
        lines = ["%s-- %s   … resolves to %s" % (pad, self.src(n), self.tr.dispatch_text(self.suf, self.deg)),
                 "%slet rr := %s %s" % (pad, f.lean_name, " ".join(largs))]
        for j, o in enumerate(outs):
            lines.append("%slet %s := %s" % (pad, o, proj("rr", j, len(outs))))
            self.wrote(o)

        def act(env):
            sub = {"degree": env["degree"], "__ext": {}, "__n": env["__n"]}
            for (p, s, ev, var), fp in zip(pts, f.pparams):
                sub[fp.off] = ev(env)
                sub["__ext"][fp.base] = env["__ext"][p.base]
            f.run(sub)
            for (p, s, ev, var), fp in zip(pts, f.pparams):
                if fp.byref:
                    env[var.off] = sub[fp.off]
            env[outs[-1]] = sub["__ret"]
        return lines, act


class VLoopTranslator(gl.LoopTranslator):
    def __init__(self, repo, cfg):
        gl.LoopTranslator.__init__(self, repo)
        self.cfg = cfg
        self.qualname = dict(self.qualname)
        self.qualname["ntt_loop_%s_run" % cfg] = "nfl::ops::ntt_loop_%s_unrolled<poly>::run(x, wtab, winvtab, p)" % cfg
        self.qualname["ntt_%s" % cfg] = "nfl::poly<T, Degree, NbModuli>::core::ntt(x, wtab, winvtab, p)  [build simd::%s]" % cfg
        self.kernels, self.chain, self.run_cls = {}, {}, {}

    def spec(self, name, args):
        hit = [n for n in self.byid.values() if n.get("kind") == "ClassTemplateSpecializationDecl" and n.get("name") == name and gn.targs(n) == args
               and (n.get("inner") and any(c.get("kind") not in ("TemplateArgument",) for c in n["inner"]))]
        hit = list({x["id"]: x for x in hit}.values())
        return hit

    def prepare(self, deg):
        for _, cname, suf in g.TYPES:
            w = int(suf[1:])
            cls, ntt = self.find(cname, deg)
            self.body_cls[(suf, deg)] = cls
            self.body_op[(suf, deg)] = [c for c in cls["inner"] if c.get("kind") == "CXXMethodDecl" and c.get("name") == "operator()" and gn.has_body(c)][0]
            self.ntt_m[(suf, deg)] = ntt
            if (suf, "ntt_body") not in self.blocks:
                self.blocks[(suf, "ntt_body")] = self.loop_body(cls, suf, w)
            # the `run` that core::ntt calls
            calls = []

            def f(n):
                if n.get("kind") == "CallExpr":
                    r = n["inner"][0]
                    while r.get("kind") in ("ImplicitCastExpr", "ParenExpr") and r.get("inner"):
                        r = r["inner"][0]
                    if r.get("kind") == "DeclRefExpr" and r.get("referencedDecl", {}).get("name") == "run":
                        calls.append(r["referencedDecl"]["id"])
            walk(gn.body_of(ntt), f)
            if len(calls) != 1 or calls[0] not in self.byid or not gn.has_body(self.byid[calls[0]]):
                raise Unsupported("poly<%s,%d,1>::core::ntt: %d calls of a method `run` with an instantiated body" % (cname, deg, len(calls)))
            run = self.byid[calls[0]]
            self.run_m[(suf, deg)] = run
            # the inheritance chain from ops::ntt_loop<CC_SIMD, poly, T> to the class that declares this `run`
            poly = "nfl::poly<%s, %d, 1>" % (cname, deg)
            cur = ("ntt_loop", ["nfl::simd::%s" % self.cfg, poly, cname])
            chain = []
            for _ in range(8):
                hit = self.spec(*cur)
                if len(hit) != 1:
                    raise Unsupported("%d definitions of %s<%s> in the AST" % (len(hit), cur[0], ", ".join(map(str, cur[1]))))
                c = hit[0]
                chain.append("%s<%s>" % (cur[0], ", ".join(str(a).replace("nfl::", "").replace(poly.replace("nfl::", ""), "poly").replace(cname, "T") for a in cur[1])))
                if any(x.get("id") == run["id"] for x in c.get("inner", [])):
                    break
                bases = c.get("bases", [])
                if len(bases) != 1:
                    raise Unsupported("%s has %d base classes and no `run`" % (chain[-1], len(bases)))
                q = bases[0]["type"].get("desugaredQualType", bases[0]["type"]["qualType"])
                m = re.fullmatch(r"nfl::ops::(\w+)<(.*)>", q)
                if not m:
                    raise Unsupported("base class %r" % q)
                a = m.group(2)
                if a == poly:
                    cur = (m.group(1), [poly])
                else:
                    m2 = re.fullmatch(r"(nfl::simd::\w+), (nfl::poly<.*>), (.+)", a)
                    if not m2:
                        raise Unsupported("base class arguments %r" % a)
                    cur = (m.group(1), [m2.group(1), m2.group(2), m2.group(3)])
            else:
                raise Unsupported("inheritance chain of ntt_loop<simd::%s, poly<%s,%d,1>> does not reach the class of `run`" % (self.cfg, cname, deg))
            rc = run.get("_parent") or {}
            if rc.get("kind") != "ClassTemplateSpecializationDecl" or rc.get("name") != cur[0] or gn.targs(rc) != cur[1]:
                raise Unsupported("class of the resolved `run`")
            self.chain[(suf, deg)] = chain
            self.run_cls[(suf, deg)] = cur

    def dispatch_text(self, suf, deg):
        return " : ".join(self.chain[(suf, deg)]) + "::run"

    def is_serial(self, suf, deg):
        name, a = self.run_cls[(suf, deg)]
        return name == "ntt_loop" and a[0] == "nfl::simd::serial"

    def kernel(self, mode, suf, deg, at):
        if (mode, suf, deg) in self.kernels:
            return self.kernels[(mode, suf, deg)]
        cname, w = self.cname[suf], int(suf[1:])
        cs = [c for c in self.spec("ntt_loop_body", ["nfl::simd::%s" % mode, "nfl::poly<%s, %d, 1>" % (cname, deg), cname])
              if any(x.get("kind") == "CXXMethodDecl" and x.get("name") == "operator()" and gn.has_body(x) for x in c.get("inner", []))]
        if len(cs) != 1:
            fail(at, "%d instantiated definitions of ntt_loop_body<simd::%s, poly<%s,%d,1>, %s>" % (len(cs), mode, cname, deg, cname))
        ops = [x for x in cs[0]["inner"] if x.get("kind") == "CXXMethodDecl" and x.get("name") == "operator()" and gn.has_body(x)]
        if len(ops) != 1:
            fail(cs[0], "%d operator() in ntt_loop_body<simd::%s>" % (len(ops), mode))
        op = ops[0]
        prms = [c for c in op["inner"] if c.get("kind") == "ParmVarDecl"]
        pid = {p["id"]: p for p in prms}
        params = []
        for p in prms:
            tq = p["type"].get("desugaredQualType", p["type"]["qualType"])
            if not gn.is_ptr_type(p) or self.elem_type_of_ptr(tq, suf, deg, p, cs[0]) != ("U", w):
                fail(p, "operator() parameter that is not a pointer to the limb type")
            params.append((p["name"], "const" in tq.split("*")[0]))
        # footprint: every use of a pointer parameter is THE argument of one whole-register load / store intrinsic
        uses = {p["id"]: [] for p in prms}
        total = {p["id"]: 0 for p in prms}

        def scan(n):
            if n.get("kind") == "DeclRefExpr" and n.get("referencedDecl", {}).get("id") in pid:
                total[n["referencedDecl"]["id"]] += 1
            if n.get("kind") == "CallExpr":
                r = n["inner"][0]
                while r.get("kind") in ("ImplicitCastExpr", "ParenExpr") and r.get("inner"):
                    r = r["inner"][0]
                nm = r.get("referencedDecl", {}).get("name") if r.get("kind") == "DeclRefExpr" else None
                if nm in LOADS or nm in STORES:
                    a = n["inner"][1]
                    while a.get("kind") in ("ImplicitCastExpr", "ParenExpr", "CStyleCastExpr") and a.get("castKind", "NoOp") in ("NoOp", "BitCast", "LValueToRValue"):
                        a = a["inner"][0]
                    i = a.get("referencedDecl", {}).get("id") if a.get("kind") == "DeclRefExpr" else None
                    if i not in pid:
                        fail(n, "%s of something that is not a pointer parameter" % nm)
                    uses[i].append(("load", LOADS[nm]) if nm in LOADS else ("store", STORES[nm]))
        walk(gn.body_of(op), scan)
        bits = set()
        for p, (pname, const) in zip(prms, params):
            u = uses[p["id"]]
            if total[p["id"]] != len(u):
                fail(p, "pointer parameter %s of the kernel is used outside a whole-register load / store" % pname)
            if [x for x in u if x[0] == "load"] != [x for x in u if x[0] == "load"][:1] or len([x for x in u if x[0] == "load"]) != 1:
                fail(p, "pointer parameter %s is not loaded exactly once" % pname)
            ns = len([x for x in u if x[0] == "store"])
            if (const and ns) or (not const and ns != 1):
                fail(p, "pointer parameter %s: %d stores" % (pname, ns))
            bits |= {x[1] for x in u}
        if len(bits) != 1:
            fail(op, "register widths %s in one kernel" % sorted(bits))
        k = Kernel(mode, suf, w, bits.pop(), params, op, cs[0])
        # the generated kernel of SimdAst.lean must have exactly this parameter list
        try:
            txt = open(SIMD_LEAN).read()
        except OSError:
            raise Unsupported("Generated/SimdAst.lean is missing (run tools/gen_simd_ast.py first)")
        m = re.search(r"^def %s_bfly_%s (.*) : (.*) :=$" % (mode, suf), txt, re.M)
        want = "(p : Nat) " + " ".join("(%s : Simd.Reg)" % nm for nm, _ in params)
        wret = " × ".join(["Simd.Reg"] * len([1 for _, c in params if not c]))
        if not m or m.group(1) != want or m.group(2) != wret:
            fail(op, "Generated/SimdAst.lean has no kernel `%s_bfly_%s %s : %s`" % (mode, suf, want, wret))
        if "Simd.set1 %d %d " % (w, k.L) not in txt[m.start():m.start() + 3000]:
            fail(op, "lane count of %s_bfly_%s in Generated/SimdAst.lean is not %d" % (mode, suf, k.L))
        self.kernels[(mode, suf, deg)] = k
        return k

    def elem_type_of_ptr(self, tq, suf, deg, at, cls):
        q = tq.strip()
        while q.endswith("const"):
            q = q[:-5].strip()
        q = q[:-1].strip() if q.endswith("*") else q
        q = re.sub(r"^const |\bconst$", "", q).strip()
        t = g.ctype_of_str(q)
        if t:
            return t
        if q.endswith("::value_type"):
            for c in cls.get("inner", []):
                if c.get("kind") in ("TypeAliasDecl", "TypedefDecl") and c.get("name") == "value_type":
                    tt = c.get("type", {})
                    return g.ctype_of_str(tt.get("desugaredQualType", tt.get("qualType", "")))
        fail(at, "element type %r" % tq)

    def function(self, key, suf, deg):
        if (key, suf, deg) in self.fns:
            return self.fns[(key, suf, deg)]
        w = int(suf[1:])
        if key == "ntt_loop_run":
            m = self.run_m[(suf, deg)]
            if self.is_serial(suf, deg):
                f = gl.LFn(self, m, "ntt_loop_run", suf, w, deg)       # the scalar loop: gen_nttloop_ast's own translation
            else:
                name, a = self.run_cls[(suf, deg)]
                if name != "ntt_loop_%s_unrolled" % self.cfg:
                    fail(m, "the %s build resolves ntt_loop::run to %s" % (self.cfg, name))
                f = VFn(self, m, "ntt_loop_%s_run" % self.cfg, suf, w, deg)
            f.translate(None)
        elif key == "ntt":
            m = self.ntt_m[(suf, deg)]
            f = VFn(self, m, "ntt_%s" % self.cfg, suf, w, deg)
            f.translate(self.ntt_block_nodes(m, suf, w))
        else:
            raise Unsupported("function key %r" % key)
        self.fns[(key, suf, deg)] = f
        return f


def translate_cfg(repo, cfg, txt, deg):
    tr = VLoopTranslator(repo, cfg)
    tr.load(txt)
    tr.prepare(deg)
    order = []
    for key in ("ntt_loop_run", "ntt"):
        for _, _, suf in g.TYPES:
            order.append(tr.function(key, suf, deg))
    return tr, order


def concrete_check(fns):
    """run the translated loop nests on the index expressions alone.  Both vector `run`s of both limb types are run; of `core::ntt`
    only the 16-bit instantiation: the three instantiations have the same text up to the names (checked by the caller for 16/32 bit;
    the 64-bit one calls the scalar `run`, whose concrete run is gen_nttloop_ast.py's)"""
    stats = {}
    for f in fns:
        if not f.fname.startswith("ntt_loop_") and f.suf != "u16":
            continue
        tot = 0
        for k in CHECK_K:
            d = 2 ** k
            env = {"degree": d, "__ext": {}, "__n": [0]}
            for p in f.pparams:
                env[p.off] = 0
                env["__ext"][p.base] = d if p.writable else d - 1
            f.run(env)
            tot += env["__n"][0]
        stats[f.lean_name] = tot
    return stats


def make_tu(cfg):
    os.makedirs(g.BUILD, exist_ok=True)
    tu = os.path.join(g.BUILD, "vloop_ast_tu_%s.cpp" % cfg)
    lines = ['#include "nfl.hpp"']
    for d in DEGREES:
        for t, _, _ in g.TYPES:
            lines.append("template struct nfl::ops::ntt_loop_body<nfl::simd::serial, nfl::poly<%s, %d, 1>, %s>;" % (t, d, t))
            lines.append("template bool nfl::poly<%s, %d, 1>::core::ntt(%s*, const %s*, const %s*, %s const);" % (t, d, t, t, t, t))
    open(tu, "w").write("\n".join(lines) + "\n")
    return tu


def probes(repo):
    """which degrees does each build compile core::ntt for?  -> {cfg: {suf: {degree: accepted}}}, and the diagnostics"""
    os.makedirs(g.BUILD, exist_ok=True)
    inc = os.path.join(repo, "include")
    jobs = []
    for cfg, flags in CONFIGS:
        for t, _, suf in g.TYPES:
            for d in PROBE_DEGREES:
                tu = os.path.join(g.BUILD, "vloop_probe_%s_%s_%d.cpp" % (cfg, suf, d))
                open(tu, "w").write('#include "nfl.hpp"\ntemplate bool nfl::poly<%s, %d, 1>::core::ntt(%s*, const %s*, const %s*, %s const);\n' % (t, d, t, t, t, t))
                cmd = [gs.CLANG, "-std=gnu++17", "-fsyntax-only", "-DNFL_OPTIMIZED"] + flags + [
                    "-Wno-instantiation-after-specialization", "-Wno-unknown-attributes",
                    "-I" + inc, "-I" + os.path.join(inc, "nfl"), "-I" + os.path.join(inc, "nfl", "prng"), tu]
                jobs.append((cfg, suf, d, subprocess.Popen(cmd, stdout=subprocess.PIPE, stderr=subprocess.PIPE, text=True)))
    res, diag = {}, {}
    for cfg, suf, d, p in jobs:
        _, err = p.communicate()
        res.setdefault(cfg, {}).setdefault(suf, {})[d] = (p.returncode == 0)
        if p.returncode != 0:
            e = [l for l in err.splitlines() if "error:" in l]
            diag["%s/%s/%d" % (cfg, suf, d)] = (e[0].split("error:", 1)[1].strip() if e else err[-200:])[:160]
    return res, diag


def main():
    repo = os.environ.get("VERIF_REPO", "/repo")
    out = OUT
    if "--repo" in sys.argv:
        repo = sys.argv[sys.argv.index("--repo") + 1]
    if "--out" in sys.argv:
        out = sys.argv[sys.argv.index("--out") + 1]
    repo = os.path.abspath(repo)
    try:
        all_fns, texts, trs, serial_checked, dispatch = [], [], {}, [], {}
        for cfg, flags in CONFIGS:
            txt = gs.clang_ast(repo, make_tu(cfg), flags)
            if "--keep" in sys.argv:
                open(os.path.join(g.BUILD, "vloop_ast_dump_%s.json" % cfg), "w").write(txt)
            per_deg = {}
            for d in DEGREES:
                tr_d, fns_d = translate_cfg(repo, cfg, txt, d)
                emit = [f for f in fns_d if isinstance(f, VFn)]
                per_deg[d] = "\n\n".join(f.render() for f in emit)
                if d == DEGREES[0]:
                    tr, fns = tr_d, fns_d
                else:
                    for suf in ("u16", "u32", "u64"):
                        if tr_d.chain[(suf, d)] != tr.chain[(suf, DEGREES[0])]:
                            raise Unsupported("dispatch of ntt_loop<simd::%s, poly, %s> differs between the degrees" % (cfg, suf))
            for d in DEGREES[1:]:
                if per_deg[d] != per_deg[DEGREES[0]]:
                    la, lb = per_deg[DEGREES[0]].splitlines(), per_deg[d].splitlines()
                    diff = next(((x, y) for x, y in zip(la, lb) if x != y), ("(length)", "(length)"))
                    raise Unsupported("[%s] the translation of degree %d differs from that of degree %d (degree is meant to be a parameter): %r vs %r" % (
                        cfg, d, DEGREES[0], diff[0][:160], diff[1][:160]))
            # scalar dispatch: the re-translated text must be the definition that Generated/NttLoopAst.lean contains
            try:
                ref = open(NTTLOOP_LEAN).read()
            except OSError:
                raise Unsupported("Generated/NttLoopAst.lean is missing (run tools/gen_nttloop_ast.py first)")
            for f in fns:
                if not isinstance(f, VFn):
                    if f.render() + "\n" not in ref:
                        raise Unsupported("[%s] %s resolves to the scalar ntt_loop<simd::serial>::run, whose translation here differs from `%s` in Generated/NttLoopAst.lean" % (
                            cfg, tr.dispatch_text(f.suf, DEGREES[0]), f.lean_name))
                    serial_checked.append("%s/%s" % (cfg, f.lean_name))
            if "def static_log2 (N : Nat) : Nat := log2_impl 64 N" not in ref:
                raise Unsupported("Generated/NttLoopAst.lean does not define NttLoop.static_log2")
            # the 16- and 32-bit instantiations must have the same loop structure up to the names and the lane counts
            base = None
            for suf in ("u16", "u32"):
                t = "\n\n".join(f.render() for f in fns if isinstance(f, VFn) and f.suf == suf)
                t = t.replace("_" + suf, "_uW").replace("T = " + tr.cname[suf], "T").replace("elt_count<%s>" % tr.cname[suf], "elt_count<T>")
                t = re.sub(r"CSemVLoop\.rdv \d+ ", "CSemVLoop.rdv L ", t)
                t = re.sub(r"\d+ lanes of \d+ bits", "L lanes of W bits", t)
                t = re.sub(r"on the \d+ cells", "on the L cells", t)
                t = re.sub(r"(let (?:sse|avx2)_elt_count := CSem\.divU 64 \(CSem\.castSU 64 \d+\)) \d+", r"\1 sizeof(T)", t)
                if base is None:
                    base = t
                elif t != base:
                    la, lb = base.splitlines(), t.splitlines()
                    diff = next(((x, y) for x, y in zip(la, lb) if x != y), ("(length)", "(length)"))
                    raise Unsupported("[%s] the loop structure of the u32 instantiation differs from that of u16: %r vs %r" % (cfg, diff[0][:160], diff[1][:160]))
            # core::ntt: the three instantiations are one text up to the names and the callee of `run`
            base = None
            for _, _, suf in g.TYPES:
                t = "\n\n".join(f.render() for f in fns if isinstance(f, VFn) and f.suf == suf and not f.fname.startswith("ntt_loop_"))
                t = t.replace("_" + suf, "_uW").replace("T = " + tr.cname[suf], "T")
                t = re.sub(r"let rr := \S+ ", "let rr := RUN ", t)
                t = re.sub(r"… resolves to .*", "… resolves to RUN", t)
                if base is None:
                    base = t
                elif t != base:
                    la, lb = base.splitlines(), t.splitlines()
                    diff = next(((x, y) for x, y in zip(la, lb) if x != y), ("(length)", "(length)"))
                    raise Unsupported("[%s] core::ntt of the %s instantiation differs from that of u16: %r vs %r" % (cfg, suf, diff[0][:160], diff[1][:160]))
            trs[cfg] = tr
            all_fns += [f for f in fns if isinstance(f, VFn)]
            texts.append(per_deg[DEGREES[0]])
            dispatch[cfg] = {suf: tr.dispatch_text(suf, DEGREES[0]) for _, _, suf in g.TYPES}
        stats = concrete_check(all_fns)
        pr, diag = probes(repo)
        mins = set()
        for cfg, _ in CONFIGS:
            for suf in ("u16", "u32", "u64"):
                acc = pr[cfg][suf]
                vec = not trs[cfg].is_serial(suf, DEGREES[0])
                if vec:
                    ok = [d for d in PROBE_DEGREES if acc[d]]
                    if not ok or any(acc[d] for d in PROBE_DEGREES if d < min(ok)) or not all(acc[d] for d in PROBE_DEGREES if d >= min(ok)):
                        raise Unsupported("probe compilations of the %s build, %s: accepted degrees %s" % (cfg, suf, acc))
                    mins.add(min(ok))
                elif not all(acc.values()):
                    raise Unsupported("probe compilations of the %s build, %s (scalar loop): %s" % (cfg, suf, acc))
        if len(mins) != 1:
            raise Unsupported("the vector builds have different smallest degrees %s" % sorted(mins))
        min_degree = mins.pop()
        if 2 ** CHECK_K[0] != min_degree:
            raise Unsupported("smallest accepted degree %d is not the first degree of the concrete run (2^%d)" % (min_degree, CHECK_K[0]))
    except Bounds as e:
        msg = "gen_vloop_ast: OUT-OF-BOUNDS / UNDEFINED / MISALIGNED index computation, nothing translated: %s" % e
        sys.stderr.write(msg + "\n")
        print(json.dumps({"ok": False, "err": msg}))
        sys.exit(4)
    except Unsupported as e:
        msg = "gen_vloop_ast: UNSUPPORTED C++ construct, nothing translated: %s" % e
        sys.stderr.write(msg + "\n")
        print(json.dumps({"ok": False, "err": msg}))
        sys.exit(3)
    head = [
        "-- GENERATED by tools/gen_vloop_ast.py from clang++-14's typed AST of include/nfl/opt/arch/sse.hpp (ntt_loop_sse_unrolled<poly>::run),",
        "-- include/nfl/opt/arch/avx2.hpp (ntt_loop_avx2_unrolled<poly>::run) and include/nfl/core.hpp (poly::core::ntt) in the configurations",
        "-- -DNFL_OPTIMIZED -DNTT_SSE -msse4.2 and -DNFL_OPTIMIZED -DNTT_AVX2 -mavx2, instantiated for poly<T,%d,1>, T = uint16_t / uint32_t / uint64_t" % DEGREES[0],
        "-- (degree %s gives the same text: checked on every run; `degree` is a PARAMETER).  Do not edit." % ", ".join(str(d) for d in DEGREES[1:]),
        "-- LOOP STRUCTURE only: a pointer is (base array, offset); a vector functor call is the kernel of Generated/SimdAst.lean on the registers",
        "-- `CSemVLoop.rdv L arr idx` (L consecutive cells, lane 0 = lowest address), stored back with `CSemVLoop.wrv`; the scalar functor and the",
        "-- straight-line blocks of core::ntt are the definitions of Generated/NttAst.lean.  Alignment of the vector accesses is NOT modelled.",
        "-- Dispatch `ops::ntt_loop<CC_SIMD, poly>::run` as resolved in the AST:",
    ] + ["--   %-4s %s: %s" % (cfg, suf, dispatch[cfg][suf]) for cfg, _ in CONFIGS for suf in ("u16", "u32", "u64")] + [
        "-- Index expressions were run for every degree 2^%d … 2^%d: all cells of all accesses in bounds, vector offsets multiples of the lane count," % (CHECK_K[0], CHECK_K[-1]),
        "-- stored registers disjoint, no undefined shift, no wrap of a loop variable.",
        "import NflVerif.Model.CSem",
        "import NflVerif.Model.CSemLoop",
        "import NflVerif.Model.CSemVLoop",
        "import NflVerif.Generated.NttAst",
        "import NflVerif.Generated.NttLoopAst",
        "import NflVerif.Generated.SimdAst",
        "namespace Nfl.Gen",
        "open Nfl",
        "set_option linter.unusedVariables false   -- a C++ variable that is dead after its last assignment",
        "",
        "namespace VLoop",
        "/-- smallest `Degree` for which clang accepts `poly<T,Degree,1>::core::ntt` in the SSE and the AVX2 build for T = uint16_t, uint32_t",
        "(probe compilations of Degree = %s: %s are rejected — `constexpr size_t M = 1 << w` with `w = J-1`," % (
            ", ".join(map(str, PROBE_DEGREES)), ", ".join(str(d) for d in PROBE_DEGREES if d < min_degree)),
        "`J = static_log2<degree>::value-2` is not a constant expression; uint64_t, which uses the scalar loop, is accepted for all of them) -/",
        "def min_degree : Nat := %d" % min_degree,
        "end VLoop",
        "",
    ]
    text = "\n".join(head) + "\n" + "\n\n".join(texts) + "\n\nend Nfl.Gen\n"
    changed = g.write_if_changed(out, text)
    kinds = {}
    for tr in trs.values():
        for k, v in tr.kinds.items():
            kinds[k] = kinds.get(k, 0) + v
    print(json.dumps({
        "ok": True, "functions": [f.lean_name for f in all_fns], "nodes": sum(f.nodes for f in all_fns),
        "node_kinds": dict(sorted(kinds.items())), "degrees_compared": DEGREES, "dispatch": dispatch,
        "scalar_run_text_identical_to_NttLoopAst": serial_checked,
        "kernels_called": sorted({k.lean_name + " (%d lanes)" % k.L for tr in trs.values() for k in tr.kernels.values()}),
        "blocks_called": sorted({b.lean_name for tr in trs.values() for b in tr.blocks.values()} | {"ntt_deg2_uW", "ntt_last2_uW", "ntt_final_uW"}),
        "shift_sites": [s for tr in trs.values() for s in tr.shift_sites],
        "probe_compilations": pr, "probe_diagnostics": diag, "min_degree": min_degree,
        "bounds_checked_degrees": "2^%d..2^%d" % (CHECK_K[0], CHECK_K[-1]), "cells_checked": stats,
        "alignment": "not modelled in Lean; concrete run: every vector access at an offset that is a multiple of the lane count",
        "configuration": "; ".join("%s: -DNFL_OPTIMIZED %s" % (c, " ".join(f)) for c, f in CONFIGS),
        "sha": hashlib.sha256(text.encode()).hexdigest()[:16], "changed": changed,
        "out": os.path.relpath(out, g.VERIF), "repo": repo}))


if __name__ == "__main__":
    main()
