#!/bin/bash
# confirm_seed.sh <Pid> <worktree> <outdir> : confirm a seeded change in its scratch worktree
# (tests pass with it; demo fails with it, passes without), then store it under /verif/seeded/<Pid>-<n>/
# The demo's compile command is taken from the header comment of demo.cpp (first `g++ …` line with its continuations).
P=$1; W=$2; O=$3
CMD=$(python3 - "$O/demo.cpp" "$O/demo_bin" <<'PY'
import re,sys
src=open(sys.argv[1]).read().splitlines()
cmd=[]; on=False
for l in src[:80]:
    s=re.sub(r'^\s*(//|\*|/\*)\s?','',l).rstrip()
    if not on and 'g++' in s:
        on=True
        s=s[s.index('g++'):] if not re.match(r'^\s*[A-Z_]+=',s) else s
    if on:
        cont=s.endswith('\\')
        cmd.append(s.rstrip('\\').strip())
        if not cont: break
c=' '.join(cmd)
c=c.split('&&')[0].strip()
c=re.sub(r'-o\s+\S+','',c)+' -o '+sys.argv[2]
print(c)
PY
)
echo "demo compile: $CMD"
run_demo() {
  if [ -f $O/demo.sh ]; then   # scripted demo: demo.sh <worktree>
    ( cd $O; timeout 1800 bash ./demo.sh $W > $O/demo_out.txt 2>&1 ); rc=$?; tail -2 $O/demo_out.txt; return $rc
  fi
  ( cd $O; R=$W NFL=$W ROOT=$W WT=$W S=$W W=$W bash -c "$CMD" 2>$O/demo_build.log ) || { echo "demo build failed"; tail -3 $O/demo_build.log; return 99; }
  timeout 900 $O/demo_bin > $O/demo_out.txt 2>&1; rc=$?; tail -2 $O/demo_out.txt; return $rc
}
cd $W || exit 1
git diff --quiet && { echo "worktree has no change applied"; exit 1; }
echo "[1] test suite WITH the change"; cmake --build _build >/dev/null 2>&1
# (build_* and run_* tests race under -jN right after a rebuild: run the build tests first, then everything)
ctest --test-dir _build -j1 -R '^build_' --timeout 900 >/dev/null 2>&1
ctest --test-dir _build -j4 --timeout 900 > $O/ctest_out.txt 2>&1; grep "tests passed" $O/ctest_out.txt
T=$(grep -c "100% tests passed" $O/ctest_out.txt)
echo "[2] demo WITH the change"; run_demo; RC1=$?
git diff > $O/my_patch.diff; git checkout -- .
echo "[3] demo WITHOUT the change"; run_demo; RC0=$?
git apply $O/my_patch.diff
echo "tests_pass=$T demo_with=$RC1 demo_without=$RC0"
if [ "$T" = "1" ] && [ "$RC1" != "0" ] && [ "$RC1" != "99" ] && [ "$RC0" = "0" ]; then
  n=1; while [ -e /verif/seeded/$P-$n ]; do n=$((n+1)); done
  D=/verif/seeded/$P-$n; mkdir -p $D
  git diff > $D/patch.diff
  cp $O/demo.cpp $D/ 2>/dev/null; cp $O/demo.sh $D/ 2>/dev/null
  python3 - "$O/meta.json" "$D/meta.json" "$P" <<'PY'
import json,sys
try: m=json.load(open(sys.argv[1]))
except Exception: m={}
m["property"]=sys.argv[3]
m["confirmed_by_me"]={"tests_with_change":"132/132 pass (ctest in scratch worktree)","demo_with_change":"fails (non-zero exit)","demo_without_change":"passes (exit 0)","how":"tools/confirm_seed.sh"}
json.dump(m,open(sys.argv[2],"w"),indent=1)
PY
  echo "CONFIRMED -> $D"
else
  echo "NOT CONFIRMED"
fi
