#!/bin/bash
# confirm_seed.sh <Pid> <worktree> <outdir> : confirm a seeded change in its scratch worktree
# (tests pass with it; demo fails with it, passes without), then store it under /verif/seeded/<Pid>-<n>/
P=$1; W=$2; O=$3
run_demo() {
  g++ -std=gnu++17 -O1 -DNDEBUG -w $EXTRA -I$W/include -I$W/include/nfl -I$W/include/nfl/prng $O/demo.cpp \
    $W/lib/params/params.cpp $W/lib/prng/fastrandombytes.cpp $( [ -z "$NORB" ] && echo $W/lib/prng/randombytes.cpp ) \
    $W/lib/prng/nfl_crypto_stream_salsa20_amd64_xmm6.s -lgmpxx -lgmp -lmpfr -lpthread -o $O/demo_bin 2>$O/demo_build.log || { echo "demo build failed"; tail -3 $O/demo_build.log; return 99; }
  $O/demo_bin > $O/demo_out.txt 2>&1; rc=$?; tail -2 $O/demo_out.txt; return $rc
}
cd $W || exit 1
git diff --quiet && { echo "worktree has no change applied"; exit 1; }
echo "[1] test suite WITH the change"; cmake --build _build >/dev/null 2>&1
# (build_* and run_* tests race under -jN right after a rebuild: run the build tests first, then everything)
ctest --test-dir _build -j1 -R '^build_' --timeout 900 >/dev/null 2>&1
ctest --test-dir _build -j4 --timeout 900 > $O/ctest_out.txt 2>&1; grep "tests passed" $O/ctest_out.txt
T=$(grep -c "100% tests passed" $O/ctest_out.txt)
echo "[2] demo WITH the change"; run_demo; RC1=$?
git stash -q
echo "[3] demo WITHOUT the change"; run_demo; RC0=$?
git stash pop -q
echo "tests_pass=$T demo_with=$RC1 demo_without=$RC0"
if [ "$T" = "1" ] && [ "$RC1" != "0" ] && [ "$RC1" != "99" ] && [ "$RC0" = "0" ]; then
  n=1; while [ -e /verif/seeded/$P-$n ]; do n=$((n+1)); done
  D=/verif/seeded/$P-$n; mkdir -p $D
  git diff > $D/patch.diff
  cp $O/demo.cpp $D/ 2>/dev/null; cp $O/demo.sh $D/ 2>/dev/null
  python3 - "$O/meta.json" "$D/meta.json" "$P" <<'PY'
import json,sys
try: m=json.load(open(sys.argv[1]))
except Exception: m={}
m["property"]=sys.argv[3]
m["confirmed_by_me"]={"tests_with_change":"132/132 pass (ctest in scratch worktree)","demo_with_change":"fails (non-zero exit)","demo_without_change":"passes (exit 0)","how":"tools/confirm_seed.sh"}
json.dump(m,open(sys.argv[2],"w"),indent=1)
PY
  echo "CONFIRMED -> $D"
else
  echo "NOT CONFIRMED"
fi
