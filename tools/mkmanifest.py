#!/usr/bin/env python3
"""Writes /verif/MANIFEST.json from tools/props.py (claimed checks) + tools/manifest_texts.json."""
import json, os, sys
HERE = os.path.dirname(os.path.abspath(__file__))
VERIF = os.path.dirname(HERE)
sys.path.insert(0, HERE)
import props
import glob
texts = json.load(open(os.path.join(HERE, "manifest_texts.json")))
for f in glob.glob(os.path.join(HERE, "manifest_texts.d", "*.json")):
    texts[os.path.basename(f)[:-5]] = json.load(open(f))
allids = [json.loads(l)["id"] for l in open(os.path.join(VERIF, "properties.jsonl"))]
checks = []
for pid in allids:
    if pid in props.PROPS:
        t = texts[pid]
        checks.append({
            "property_id": pid,
            "quick_cmd": "./check %s --tier quick" % pid,
            "thorough_cmd": "./check %s --tier thorough" % pid,
            "evidence_file": "/verif/evidence/%s.json" % pid,
            "replay_cmd_template": "./check %s --replay {path}" % pid,
            "engine": "lean4-proof+correspondence",
            "level_claimed": {"category": "proof", "text": t["text"], "design_ref": t.get("design_ref", "DESIGN.md §3 " + pid)},
            "level_note": t["note"],
            "technique": t["technique"],
        })
na = [{"property_id": pid, "reason": texts.get(pid, {}).get("na_reason", "check not built yet in this session; see DESIGN.md §3 for the planned Lean model, theorems and correspondence")}
      for pid in allids if pid not in props.PROPS]
m = {
    "version": 1,
    "setup_cmd": "./setup.sh",
    "hooks": {
        "guard": "NFLLIB_VERIF",
        "enable": "harness builds pass -DNFLLIB_VERIF (no source line of /repo references it: private members are reached with -fno-access-control, randomness / OS calls are replaced at link time)",
        "baseline_off_cmd": "cmake -G Ninja -S /repo -B /repo/_build >/dev/null && cmake --build /repo/_build >/dev/null && ctest --test-dir /repo/_build -j8 --timeout 900",
        "source_commits": texts.get("_source_commits", []),
        "add_only": True,
    },
    "engines": [{"name": "lean4-proof+correspondence", "path": "/verif/check",
                 "serves_properties": [c["property_id"] for c in checks],
                 "kind_free_text": "Lean 4 theorems about executable models (lake build + #print axioms audit); translators that on every run regenerate from /repo's current source (a) the modulus tables and the static-store footprint and (b) Lean definitions of the C++ code itself from clang's typed AST (tools/gen_*_ast.py: functors, NTT blocks and loops, table initialisation, SIMD kernels, CRT, samplers, PRNG glue, Gaussian sampling step, copy-on-write handles, operator bool, serialisation), proved equal to the hand-written models; and a differential correspondence check (C++ harness built from /repo vs compiled Lean driver) for everything else"}],
    "checks": checks,
    "not_applicable": na,
    "notes": "All checks go through ./check <id>; see DESIGN.md (§13 status, §13.2b source-level translators, §5 trusted base, §14 seeded changes: 57 confirmed changes, each reported by its own property's quick check with a concrete failing input). Evidence level is `proof`; the correspondence counts and the translators' summaries are reported next to obligations/discharged. A run against a scratch tree (VERIF_REPO=<dir>) never writes evidence/.",
}
json.dump(m, open(os.path.join(VERIF, "MANIFEST.json"), "w"), indent=1)
print("claimed:", [c["property_id"] for c in checks])
