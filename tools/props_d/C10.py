"""C10 — Gaussian sampler meets its advertised statistical distance (partial: decision structure proved, TV computed)."""
import os, sys
sys.path.insert(0, os.path.dirname(os.path.abspath(__file__)))
import checklib as cl
import props
import gauss_common as gc


def streams(ctx, res):
    exes = gc.build_all(ctx)
    exe = exes.get(0)
    if not exe:
        return {}
    gc.run_all(ctx, res, exes, "c10")
    out_cov = gc.neg_flagged_coverage(ctx, res, "full-compare:negative")
    gtv = []
    gc.run_mode(ctx, res, exe, "tv", collect=("gtv ", gtv))
    tv = gc.gtv_summary(gtv)
    tv["explanation"] = (
        "NUMERIC SEARCH, NOT A THEOREM: for each parameter set the harness reads the barriers of the live object, computes "
        "D_{Z,sigma,c} with 1536-bit MPFR (explicit sum over |x-c| <= 37.3 sigma + analytic tail bound "
        "rho(x0)(1+sigma^2/|x0-c|) per side, added to the distance), evaluates 1/2 sum |dB_j/W^wp - D(j)| + outside mass and "
        "compares it with 2^-lambda/m; a parameter set above the bound is a failing input (gtv line with ratio > 1)")
    # model-vs-implementation differences are concrete failing inputs of the decode correspondence
    for md in res.modeldiff:
        ctx.setdefault("failing_inputs", []).append({"kind": "implementation-differs-from-verified-model", **md})
    return {"tv_search": tv,
            "out_class_dimension": {"lines_in_flagged_cells_with_negative_sample (out_class/index width/depth)": out_cov,
                                    "poly_set_gaussian_lines_with_negative_sample_from_flagged_cell": gc.poly_coverage(ctx, res)},
            "proved": "decode = full comparison = inverse CDF on tables satisfying tableOK; builder model satisfies tableOK; monotone; prefix; induced mass = barrier differences",
            "computed_not_proved": "total variation between the barrier differences and the discrete Gaussian (tv_search)",
            "derived_parameters": "gpar lines: paramsOK (k = lambda+1+clog2 m exact; (nb-1)/2 >= sigma*sqrt(1+2k*0.693); 2^bits > 2^k (nb-3)) evaluated by the driver on every live object; "
                                  "proved: budget_covers_all_samples (m*2^-k <= 2^-(lambda+1) for EVERY m), clog2 least, k monotone in m, conditions antitone in k",
            "hypotheses_checked_on_real_tables": "barriersWF, sortedB, nb odd, lastOnes, depth<=wp, tableOK, shapeOK on every gtab line"}


def translators_c10(repo):
    """gen_gauss_ast (cmp + sampling path, shared with C11) and gen_lut_ast (buildLookupTables -> Generated/LutAst.lean, re-translated
    from clang's AST on every run; proved equal to the hand model buildLUT, whole function, both depths, by Proofs/LutAstEq.lean + LutAstEq2.lean + LutAstEq3.lean; statements in Properties/C10LutAst.lean)"""
    import json as _json
    out = dict(gc.translators_gauss(repo))
    r = cl.run(["python3", os.path.join(cl.HERE, "gen_lut_ast.py"), "--repo", repo])
    info = {"ok": r.returncode == 0}
    if r.returncode != 0:
        info["err"] = (r.stdout + r.stderr)[-2000:]
    else:
        try:
            info.update(_json.loads(r.stdout.strip().splitlines()[-1]))
            info.pop("node_kinds", None)
        except Exception as e:
            info["ok"] = False
            info["err"] = "unparsable summary: %s" % e
    out["gen_lut_ast"] = info
    return out


LUT_AST_TB = ("source-level tie of FastGaussianNoise::buildLookupTables: clang++-14's typed AST of include/nfl/prng/FastGaussianNoise.hpp instantiated for "
              "<uint8_t,int32_t,1>, <uint16_t,int64_t,1>, <uint16_t,int64_t,2>, <uint8_t,uint64_t,2>, tools/gen_lut_ast.py's traversal and conventions "
              "(members read before assigned = parameters, `barriers` = the list of barrier objects (MPFR part NOT translated); `if (_lu_depth == k)` resolved per "
              "instantiation; new output_t[n]() / calloc / field stores / std::list::push_back (by name) = bounds-checked CLut operations; while / for = "
              "CLut.whileFuel with fuel = bound of the incremented counter + 1 (out of fuel = none; sufficiency proved, not assumed); signed ++, int - / + read as "
              "wrap-around, int division truncating: sites under translators.gen_lut_ast.ub_wrap_assumed; if (_verbose) output skipped) and the per-node semantics "
              "of lean/NflVerif/Model/CSem.lean + CSemGauss.lean + CSemLut.lean")


def search(ctx, res, problems):
    return gc.search_more(ctx, ["c10", "tv"])


PROP = {
    "streams": streams, "search": search, "translators": translators_c10,
    "rule": ("real barriers + real lu_table/lu_table2 dumped (gtab: tableOK and the barrier hypotheses evaluated, builder model compared cell by cell); "
             "getNoise(out,1) on scripted strings (gdec): every probe of a bisection over the wp-word strings for each step of the step function "
             "(gstep: recovered step = barrier), each barrier and its neighbours, both ends of every first-level cell and of every second-level cell "
             "under a flagged first-level cell (8-bit index: all; 16-bit: flagged cells, their neighbours and a random sample), random/all-zero/all-ones strings; "
             "index width 8/16, depth 1/2, several (sigma, lambda, m, centre, constructor) incl. seed-dependent ones; "
             "the same streams for out_class = int32_t (all of the above), int64_t, uint64_t, uint32_t, int16_t, uint16_t x index width x depth (centres 0, -1/2, -1/4, -2/7, -12345.678: "
             "negative samples; a seed-dependent one), plus by construction both ends of FLAGGED final-level cells whose tabulated value is NEGATIVE and the first/last barrier "
             "of their lists +-1; the value on the line is the out_class object itself, the specification compares the integer it denotes when read as the signed type of its width "
             "(Model/Gauss.lean outStore / readOut; the check fails if some out_class x width x depth has no flagged-negative line); "
             "gpoly: the library's own consumer poly<T,n,nm>::set(gaussian<in_class,T,depth>(sampler, amp)) for T = uint64_t / uint32_t / uint16_t, amp 1/2/3, on the scripted stream kinds of C11 "
             "plus 'barriers with a negative value, last word +-1': coefficient = amp*invCDF mod p in every modulus; "
             "gtv: total-variation computation over (1) the grid of the statement (sigma 0.3..300, lambda 32..256, centre 0 / 1/2 / -1/4 / 1000.5), each point with "
             "m = 1, 2^10, 2^20 AND two sample budgets that are not powers of two (2^j±1, 10^j, odd multiples of 2^j, odd numbers: 3 … 2^20-1, rotating with the seed), "
             "(2) the same space off the round values (sigma 0.37 … 226, lambda 33/47/100/129/255, centres 1/3, -2/7, 1000.001, -12345.678, 0.499999; double / mpfr(double) / "
             "mpfr(256-bit, not a double) constructors), (3) random draws (sigma log-uniform as k/10^6, k/10 or k/3; any lambda in [32,256]; m a power of two, a neighbour of one, "
             "a power of ten, an odd multiple, arbitrary or small; centre half-integer / thousandths / integer with large offset / p/q with q in 3,7,11,13,1000003 / quarters / "
             "dyadic with 10..49 fraction bits); parameters are exact rationals on the line (sigma = fl(sn/sd), centre = fl(cn/cd), m itself); "
             "gpar: on every object built, _word_precision / _bit_precision / _number_of_barriers against exact-integer consequences of k = lambda+1+ceil(log2 m) "
             "(Model/GaussParams.lean: tailOK, precOK); distinct = distinct lines, all non-trivial"),
    "trusted_base": props.COMMON_TB + [
        gc.GAUSS_AST_TB,
        LUT_AST_TB,
        "the barrier table is a parameter of the model: read from the live object with -fno-access-control (its hypotheses are validated on every table seen)",
        "MPFR/GMP (used by the code and, at 1536 bits, by the harness's distance computation); the distance computation itself (harness/gauss.cpp tv_ratio_ppm) is trusted, not verified",
        "scripted nfl::fastrandombytes replaces the PRNG at link time",
    ],
    "assumptions": ["barriers well formed and sorted, nb odd, last barrier starts with `depth` all-ones words, depth <= wp (all checked on the real tables)",
                    "outputs fit the signed type of out_class's width (the constructor prints a WARNING only when nb >= 2^(bits-1)); checked on every gtab line (fitsOut); 8-bit out_class not exercised",
                    "the statistical-distance part is computed on a parameter grid, not proved",
                    "ceil(log(m)/log(2)) in double equals ceil(log2 m) (modelled contract of kOf; exact for m <= 2^28)",
                    "OPEN finding F8 (known_findings.json): the mpfr_t-centre constructor keeps only 53 bits of the centre; gtv lines of constructor 2 are reported as KNOWN-FINDING"],
}
