import os, sys
sys.path.insert(0, os.path.dirname(os.path.abspath(__file__)))
import _ntt_common as nc
import props

OPS = ("nttfwd", "nttinv", "roundtrip", "roundtrip2", "nttlin", "tab", "permtab")


def streams(ctx, res):
    seeds = [ctx["seed"]] if ctx["tier"] == "quick" else [ctx["seed"], ctx["seed"] + 1, ctx["seed"] + 2]
    return nc.ntt_streams(ctx, res, OPS, seeds=seeds)


def search(ctx, res, problems):
    import checklib as cl
    r2 = cl.StreamResult()
    nc.ntt_streams(ctx, r2, OPS, seeds=[ctx["seed"] + 11, ctx["seed"] + 12], tier="thorough")
    return [{"kind": "spec", **sf} for sf in r2.specfail[:10]]


PROP = {
    "streams": streams, "search": search, "translators": nc.translators_ntt,
    "rule": "poly<T,n,m>: forward transform (spec: canonical range; n ≤ 256 also the direct evaluation at φ^(2·bitrev(r)+1)), inverse transform, inv∘fwd and fwd∘inv (spec: identity), fwd(a+b) vs fwd(a)+fwd(b); inputs: zero, every unit vector (n ≤ 16), ±X^i, all-(p-1), boundary mixes, sparse, random; degrees/limbs/moduli/backends as C01; transform tables compared entry by entry (phis against independently computed φ^i); distinct = distinct op lines",
    "trusted_base": props.COMMON_TB + [nc.NTT_AST_TB],
    "assumptions": ["inputs canonical", "degree a power of two ≤ kMaxPolyDegree of the limb"],
}
