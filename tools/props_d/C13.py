"""C13 — fastrandombytes returns the Salsa20/20 keystream under a per-request unique nonce (partial: the assembly
routine and "writes nothing outside the buffer" are observed at run time, not proved)."""
import os
import checklib as cl
import props

PRNG = os.path.join(cl.REPO, "lib", "prng")
ASM = os.path.join(PRNG, "nfl_crypto_stream_salsa20_amd64_xmm6.s")
FRB = os.path.join(PRNG, "fastrandombytes.cpp")

# black box: the repository's fastrandombytes.cpp and the assembly are linked, lib/prng/randombytes.cpp is NOT compiled
# (nfl::randombytes is provided by the harness); white box: fastrandombytes.cpp is #included by the harness (statics
# readable, nonce presettable).  The two builds use different `backend` labels only to get distinct cache names.
SPECS = [
    dict(name="salsa", backend="plain", sanitize="undefined", with_prng=False, extra_srcs=[FRB, ASM]),
    dict(name="salsa", backend="serial", sanitize="undefined", with_prng=False, extra_srcs=[ASM],
         extra=["-DFRB_WHITEBOX", "-I" + PRNG]),
]
LABEL = {"plain": "blackbox", "serial": "whitebox"}


def _run(ctx, res, seeds, tier=None):
    exes, errs = cl.build_harnesses(SPECS)
    for k, e in errs.items():
        ctx["problems"].append({"kind": "harness-build", "what": "salsa harness (%s) does not compile" % LABEL[k[1]], "detail": e})
    for sd in seeds:
        for (name, b), exe in sorted(exes.items()):
            env = {"VERIF_SEED": str(sd)}
            if tier:
                env["VERIF_TIER"] = tier
            # every history runs in a forked child: a dead child is reported by the harness itself as a `…fault` line
            cl.run_stream(res, "salsa/%s/seed%s" % (LABEL[b], sd), exe, env=env,
                          trivial=lambda lhs: lhs.split(" ", 1)[0] in ("vector", "jobend"))
    return {"builds": sorted(LABEL[b] for (_, b) in exes)}


def _interleave(fails):
    """the replay keeps the first 20 failing inputs: take them round-robin over (build, op) so that a fault of the assembly
    is reported both as a direct call (`salsa20asm … nonce`) and as the request of fastrandombytes it corrupts (`frb 1 <start> <idx> <len> …`)"""
    groups = {}
    for f in fails:
        groups.setdefault((f["stream"].split("/")[1], f["line"].split(" ", 1)[0]), []).append(f)
    out = []
    qs = [groups[k] for k in sorted(groups, key=lambda k: (k[1] != "frb", k))]
    while any(qs):
        for q in qs:
            if q:
                out.append(q.pop(0))
    return out


def streams(ctx, res):
    sd = ctx["seed"]
    seeds = [sd, sd + 100] if ctx["tier"] == "quick" else [sd, sd + 100, sd + 200, sd + 300]
    cov = _run(ctx, res, seeds)
    res.specfail[:] = _interleave(res.specfail)
    return cov


def search(ctx, res, problems):
    r2 = cl.StreamResult()
    _run(ctx, r2, [ctx["seed"] + 1000, ctx["seed"] + 1001], tier="thorough")
    return [{"kind": "spec", **sf} for sf in r2.specfail[:10]]


PROP = {
    "streams": streams, "search": search,
    "rule": "every request history runs in its own process (forked child; generator state is process-global) with nfl::randombytes "
            "replaced by a seeded key; per request: <index, length, placement, key, run-length history> => seed calls so far, red zone "
            "intact, portable C agrees, output bytes (full up to 1 KiB, beyond that digests of every 256-byte chunk + first/last 64 bytes); "
            "lengths 0,1,63,64,65,255,256,257, 2^20+1, all multiples of 64 up to 1024 ±1, random; buffer flush to a trailing PROT_NONE page, "
            "flush to a leading PROT_NONE page, and at every alignment 0..63 between red zones; carries of the nonce into bytes 1 and 2 reached "
            "natively (65 538 requests), into bytes 3..7 and the 2^64 wrap by presetting the static nonce (white-box build, statics read back "
            "after each request); white-box product {request number classes 0, 2^8-1.., 2^16±1, 2^24±1, 2^32-2..2^32+2, 2^40, 2^48, 2^56, 2^63, 2^64-2, 2^64-1, "
            "two random with all 8 bytes non-zero and distinct} x {length classes 0,1,63,64,65,128,191,192,255,256,257,320,383,511,512,513,703,768,1000,4113 = every route "
            "through the assembly: 4-block loop x0/1/≥2, one-block loop x0/1/≥2, partial block y/n}: the request of that length is the first one served at that "
            "number, a second request of a rotating length follows; direct calls of the assembly with random 64-bit nonces, and for every route: nonce = 0 except "
            "one byte (8 positions), nonce = all bytes equal except one, the nonce classes above, key = 0 except one byte of each word (all 32 positions at length 703); portable C core/quarterround on the examples of the "
            "Salsa20 specification (incl. Salsa20^1000000) and random inputs against the Lean specification; distinct = distinct op lines",
    "trusted_base": props.COMMON_TB + [
        "nfl_crypto_stream_salsa20_amd64_xmm6.s (4823 lines of assembly) is NOT modelled: its equality with the Lean Salsa20/20 stream and the absence of writes outside the buffer are observed on the generated requests only (guard pages, red zones, byte-for-byte comparison); block counters ≥ 2^32 (requests ≥ 256 GiB) are never exercised",
        "my transcription of the examples of the Salsa20 specification (they agree with Lean, portable C and the assembly)",
        "that distinct Salsa20 core inputs give unrelated outputs is the PRF assumption on Salsa20/20 — not claimed",
        "the model is sequential (one request at a time); concurrent callers are the subject of the concurrency properties",
    ],
    "assumptions": ["fewer than 2^64 requests per process (beyond, the nonce wraps: stated in the theorems with mod 2^64)",
                    "nfl::randombytes delivers 32 bytes (environment parameter of the model)"],
}
