"""C13 — fastrandombytes returns the Salsa20/20 keystream under a per-request unique nonce (partial: the assembly
routine and "writes nothing outside the buffer" are observed at run time, not proved)."""
import os
import checklib as cl
import props

PRNG = os.path.join(cl.REPO, "lib", "prng")
ASM = os.path.join(PRNG, "nfl_crypto_stream_salsa20_amd64_xmm6.s")
FRB = os.path.join(PRNG, "fastrandombytes.cpp")

# black box: the repository's fastrandombytes.cpp and the assembly are linked, lib/prng/randombytes.cpp is NOT compiled
# (nfl::randombytes is provided by the harness); white box: fastrandombytes.cpp is #included by the harness (statics
# readable, nonce presettable).  The two builds use different `backend` labels only to get distinct cache names.
SPECS = [
    dict(name="salsa", backend="plain", sanitize="undefined", with_prng=False, extra_srcs=[FRB, ASM]),
    dict(name="salsa", backend="serial", sanitize="undefined", with_prng=False, extra_srcs=[ASM],
         extra=["-DFRB_WHITEBOX", "-I" + PRNG]),
]
LABEL = {"plain": "blackbox", "serial": "whitebox"}


def _run_huge(exes, sd):
    """thorough tier only: requests of 2^27 … 2^33+100 bytes (VERIF_SALSA_PART=huge), once per build, the two builds side by side; about 8.2 + 4.1 GiB of memory"""
    r = cl.StreamResult()
    cl.run_streams_parallel(r, [dict(label="salsa/%s/huge/seed%s" % (LABEL[b], sd), exe=exe, timeout=3000,
                                     env={"VERIF_SEED": str(sd), "VERIF_TIER": "thorough", "VERIF_SALSA_PART": "huge"},
                                     trivial=lambda lhs: lhs.split(" ", 1)[0] in ("vector", "jobend"))
                                for (name, b), exe in sorted(exes.items())], workers=2)
    return r


def _run_huge1(exes, sd):
    """quick tier: one request of 2^32 + small bytes through fastrandombytes and one straight into the assembly
    (black-box build; about 4.1 GiB of memory, ~20 s beside the ordinary streams)"""
    r = cl.StreamResult()
    for (name, b), exe in sorted(exes.items()):
        if b == "plain":
            cl.run_stream(r, "salsa/%s/huge1/seed%s" % (LABEL[b], sd), exe, timeout=1200,
                          env={"VERIF_SEED": str(sd), "VERIF_SALSA_PART": "huge1"},
                          trivial=lambda lhs: lhs.split(" ", 1)[0] in ("vector", "jobend", "hugeskip"))
    return r


def _run(ctx, res, seeds, tier=None, huge=False):
    import threading
    exes, errs = cl.build_harnesses(SPECS)
    for k, e in errs.items():
        ctx["problems"].append({"kind": "harness-build", "what": "salsa harness (%s) does not compile" % LABEL[k[1]], "detail": e})
    hres = []
    ht = None
    if huge and exes:
        # runs beside the ordinary streams (which are single-threaded pipelines harness -> driver)
        fn = _run_huge1 if huge == "one" else _run_huge
        ht = threading.Thread(target=lambda: hres.append(fn(exes, seeds[0])))
        ht.start()
    try:
        _run_std(ctx, res, exes, seeds, tier)
    finally:
        if ht:
            ht.join()
            cl.merge_results(res, hres)
    # every big request must have come with its windows (the Lean side of the check of a big request)
    nbig = sum(v for k, v in res.classes.items() if k.split(":", 1)[0] in ("frbbig", "salsa20asmbig"))
    nwin = sum(v for k, v in res.classes.items() if k.split(":", 1)[0] in ("frbwin", "salsa20asmwin"))
    if nwin < 20 * nbig:
        ctx["problems"].append({"kind": "stream", "what": "big requests without their windows: %d verdict lines, %d window lines" % (nbig, nwin)})
    return {"builds": sorted(LABEL[b] for (_, b) in exes), "big_requests": nbig, "windows_checked_in_lean": nwin}


def _run_std(ctx, res, exes, seeds, tier):
    for sd in seeds:
        for (name, b), exe in sorted(exes.items()):
            env = {"VERIF_SEED": str(sd)}
            if tier:
                env["VERIF_TIER"] = tier
            # every history runs in a forked child: a dead child is reported by the harness itself as a `…fault` line
            cl.run_stream(res, "salsa/%s/seed%s" % (LABEL[b], sd), exe, env=env,
                          trivial=lambda lhs: lhs.split(" ", 1)[0] in ("vector", "jobend"))


def _interleave(fails):
    """the replay keeps the first 20 failing inputs: take them round-robin over (build, op) so that a fault of the assembly
    is reported both as a direct call (`salsa20asm … nonce`) and as the request of fastrandombytes it corrupts (`frb 1 <start> <idx> <len> …`)"""
    groups = {}
    for f in fails:
        groups.setdefault((f["stream"].split("/")[1], f["line"].split(" ", 1)[0]), []).append(f)
    out = []
    order = {"frbbig": 0, "frb": 1, "salsa20asmbig": 2}   # verdict lines (whole request) before windows of the same request
    qs = [groups[k] for k in sorted(groups, key=lambda k: (order.get(k[1], 3), k))]
    while any(qs):
        for q in qs:
            if q:
                out.append(q.pop(0))
    return out


def streams(ctx, res):
    sd = ctx["seed"]
    seeds = [sd, sd + 100] if ctx["tier"] == "quick" else [sd, sd + 100, sd + 200, sd + 300]
    cov = _run(ctx, res, seeds, huge=(True if ctx["tier"] != "quick" else "one"))
    res.specfail[:] = _interleave(res.specfail)
    return cov


def search(ctx, res, problems):
    r2 = cl.StreamResult()
    _run(ctx, r2, [ctx["seed"] + 1000, ctx["seed"] + 1001], tier="thorough")
    return [{"kind": "spec", **sf} for sf in r2.specfail[:10]]


import sys as _sys  # noqa: E402
_sys.path.insert(0, os.path.dirname(os.path.abspath(__file__)))
import _prng_common as _pc  # noqa: E402

PROP = {
    "streams": streams, "search": search, "translators": _pc.translators_prng,
    "rule": "every request history runs in its own process (forked child; generator state is process-global) with nfl::randombytes "
            "replaced by a seeded key; per request: <index, length, placement, key, run-length history> => seed calls so far, red zone "
            "intact, portable C agrees, output bytes (full up to 1 KiB, beyond that digests of every 256-byte chunk + first/last 64 bytes); "
            "lengths 0,1,63,64,65,255,256,257, 2^20+1, all multiples of 64 up to 1024 ±1, random; "
            "LENGTHS WITH A NON-ZERO HIGH PART AND SMALL LOW BITS (64-bit length arithmetic of the assembly): k*2^16 + {0,1,63,64,100,255,256,257} "
            "(whole output through Lean), and as BIG requests 2^24 + {0,1,63,64,100,255,256,257,4500}, 2^26 + small (every run), "
            "2^27+100, 2^28+255, 2^30+64, 2^31-1, 2^31, 2^31+100, 2^31+256, 2^32-1, 2^32 + {0,1,63,64,100,255,256,257,4500}, 2^32+2^16+100, 2^33+100 "
            "(thorough tier, VERIF_SALSA_PART=huge, black box from request 0, white box at request numbers 2^32-1, 2^64-2 and one with all bytes non-zero, "
            "and direct calls of the assembly with random / all-bytes-non-zero / low-word-zero nonces).  A big request is not re-generated in Lean: "
            "`frbbig`/`salsa20asmbig` <request> => <seed calls> <red zone intact> <number of bytes that differ from the portable C Salsa20 over the WHOLE buffer> "
            "<first differing offset | -1> (specification: 0 and -1; the buffer is pre-filled with non-zero bytes), and `frbwin`/`salsa20asmwin` <off> <wlen> <kind> <request> => "
            "the bytes [off, off+wlen) of the buffer, which the driver compares with Spec.Salsa20.window = the blocks off/64… computed by random access "
            "(theorem stream_window: that IS the slice of stream key nonce len); windows: first 384 and last 256 bytes, around every multiple of 2^32, 2^31, 2^24, "
            "around the first/last four and 32 random multiples of 2^16, around the last 256-byte and 64-byte boundary, around len mod 2^k for k = 32, 31, 24, 16 "
            "(where a length truncated to k bits would stop), one at a random place in every 64 MiB, 64 random.  A block counter >= 2^32 (a single request of "
            ">= 256 GiB) is out of reach of this check and is NOT exercised; buffer flush to a trailing PROT_NONE page, "
            "flush to a leading PROT_NONE page, and at every alignment 0..63 between red zones; carries of the nonce into bytes 1 and 2 reached "
            "natively (65 538 requests), into bytes 3..7 and the 2^64 wrap by presetting the static nonce (white-box build, statics read back "
            "after each request); white-box product {request number classes 0, 2^8-1.., 2^16±1, 2^24±1, 2^32-2..2^32+2, 2^40, 2^48, 2^56, 2^63, 2^64-2, 2^64-1, "
            "two random with all 8 bytes non-zero and distinct} x {length classes 0,1,63,64,65,128,191,192,255,256,257,320,383,511,512,513,703,768,1000,4113 = every route "
            "through the assembly: 4-block loop x0/1/≥2, one-block loop x0/1/≥2, partial block y/n}: the request of that length is the first one served at that "
            "number, a second request of a rotating length follows; direct calls of the assembly with random 64-bit nonces, and for every route: nonce = 0 except "
            "one byte (8 positions), nonce = all bytes equal except one, the nonce classes above, key = 0 except one byte of each word (all 32 positions at length 703); portable C core/quarterround on the examples of the "
            "Salsa20 specification (incl. Salsa20^1000000) and random inputs against the Lean specification; distinct = distinct op lines",
    "trusted_base": props.COMMON_TB + [
        _pc.PRNG_AST_TB,
        "nfl_crypto_stream_salsa20_amd64_xmm6.s (4823 lines of assembly) is NOT modelled: its equality with the Lean Salsa20/20 stream and the absence of writes outside the buffer are observed on the generated requests only (guard pages, red zones, byte-for-byte comparison); request lengths go up to 2^33+100 bytes (block counter < 2^27+2); block counters ≥ 2^32 (a single request ≥ 256 GiB) are never exercised",
        "requests longer than 2^21 bytes are compared over their whole length with the portable C Salsa20 only (4-lane form, self-tested against the flat form incl. counters around 2^32); the Lean specification sees sampled windows of them (about 450 windows of 128 bytes per request)",
        "my transcription of the examples of the Salsa20 specification (they agree with Lean, portable C and the assembly)",
        "that distinct Salsa20 core inputs give unrelated outputs is the PRF assumption on Salsa20/20 — not claimed",
        "the model is sequential (one request at a time); concurrent callers are the subject of the concurrency properties",
    ],
    "assumptions": ["fewer than 2^64 requests per process (beyond, the nonce wraps: stated in the theorems with mod 2^64)",
                    "nfl::randombytes delivers 32 bytes (environment parameter of the model)"],
}
