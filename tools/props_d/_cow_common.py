"""Translator hook for C14: tools/gen_cow_ast.py (clang AST of include/nfl/poly_p.hpp -> Generated/CowAst.lean, one step
function per member of the copy-on-write handle class)."""
import json, os
import checklib as cl


def translators_cow(repo):
    """source-level tie of nfl::poly_p: Generated/CowAst.lean is re-translated from clang's AST on every run (every member the
    translation unit instantiates, for poly_p<uint64_t,8,2> and poly_p<uint32_t,16,1>, which must give the same text); the
    equalities with the hand model (Proofs/CowAstEq.lean) and the transported statements (Properties/C14Ast.lean) are then
    re-checked by `lake build`."""
    r = cl.run(["python3", os.path.join(cl.HERE, "gen_cow_ast.py"), "--repo", repo])
    info = {"ok": r.returncode == 0}
    if r.returncode != 0:
        info["err"] = (r.stdout + r.stderr)[-2000:]
    else:
        try:
            info.update(json.loads(r.stdout.strip().splitlines()[-1]))
            info.pop("node_kinds", None)
        except Exception as e:
            info["ok"] = False
            info["err"] = "unparsable summary: %s" % e
    return {"gen_cow_ast": info}


COW_AST_TB = ("source-level tie of nfl::poly_p (every member body translated: which shared_ptr operation, in which order, on which "
              "pointer; the unique() test of detach(), the `this != &o` tests, the get()==get() short-cut): clang++-14's typed AST "
              "(-ast-dump=json) of the members instantiated by the uses in tools/gen_cow_ast.py's translation unit, that script's "
              "traversal, its BY-NAME table (std::allocate_shared/make_shared = fresh cell with one owner; shared_ptr copy = one more "
              "owner; move = transfer; operator= = temporary + swap + destruction; unique()/use_count()/get()/reset(); operator*/-> = the "
              "cell; end of a full-expression / implicit destructor = destruction of the shared_ptr), i.e. the contract "
              "lean/NflVerif/Model/SharedPtrSem.lean (NOT derived from libstdc++'s source), C++17 guaranteed copy elision for the "
              "returned / initialising prvalues, copy construction of the pointee = same value; calls into nfl::poly are abstract "
              "value-level parameters (arguments checked to be plain forwards of the member's parameters); an expression object is "
              "represented by the operand values at the time it is built; the hand-written driver Nfl.CowAst.stepG plays the "
              "language level (which variable holds an object, operand evaluation, storing the returned _p values)")
