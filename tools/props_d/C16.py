"""C16 — serialisation: harness/serial.cpp (raw write/read through std::stringstream at every truncation point,
back-to-back polynomials, operator<< text, cereal archives; ASan+UBSan + canaries) against Model/Serial.lean and the
directly written layout rules in Driver/SerialH.lean."""
import json, os
import checklib as cl
import _cow_common as _cc


def translators(repo):
    """source-level tie of the serialisers: Generated/SerAst.lean is re-translated from clang's AST on every run
    (poly::serialize_manually / deserialize_manually, poly::serialize<cereal::Binary{Output,Input}Archive>, begin/end() const,
    nfl::operator<<(ostream&, poly const&), static N; poly<uint64_t,8,2>, poly<uint32_t,16,3>, poly<uint16_t,4,1> must give the
    same text); the equalities with Model/Serial.lean (Proofs/SerAstEq.lean) and the transported C16 statements
    (Properties/C16Ast.lean) are then re-checked by `lake build`.  Properties/C16Ast.lean reuses Generated/CowAst.lean for the
    poly_p forwarders, so tools/gen_cow_ast.py is re-run too."""
    out = _cc.translators_cow(repo)
    r = cl.run(["python3", os.path.join(cl.HERE, "gen_ser_ast.py"), "--repo", repo])
    info = {"ok": r.returncode == 0}
    if r.returncode != 0:
        info["err"] = (r.stdout + r.stderr)[-2000:]
    else:
        try:
            info.update(json.loads(r.stdout.strip().splitlines()[-1]))
            info.pop("node_kinds", None)
        except Exception as e:
            info["ok"] = False
            info["err"] = "unparsable summary: %s" % e
    out["gen_ser_ast"] = info
    return out


SER_AST_TB = ("source-level tie of the serialisers of nfl::poly (which iostream / cereal call, with which pointer and which count; the "
              "typeid chain, the range-for and its `first` flag in operator<<): clang++-14's typed AST (-ast-dump=json) of the bodies "
              "instantiated by tools/gen_ser_ast.py's translation unit, that script's traversal and its BY-NAME table, i.e. the contract "
              "lean/NflVerif/Model/StreamSem.lean (NOT derived from libstdc++ / cereal sources): ostream::write / istream::read as in the "
              "iostream contract above, reinterpret_cast<char*>(T[N]) = the x86-64 little-endian object representation (Ss.objRepr / "
              "Ss.ofObjRepr: the only place endianness enters), size_t arithmetic mod 2^64 and size_t -> streamsize as two's complement, "
              "os << const char* / std::string / unsigned integer, typeid equality = type identity, std::begin/std::end of T[N] = "
              "offsets 0 / N, range-for over pointers; cereal Binary{Output,Input}Archive::operator()(T(&)[N]) = binary_data of the "
              "whole array through rdbuf()->sputn / sgetn (short transfer throws); poly has exactly one non-static data member `_data` "
              "of type T[N] (checked by the translator); the poly_p forwarders are the step functions of tools/gen_cow_ast.py "
              "(Generated/CowAst.lean) with the translated poly reader plugged in as the value-level meaning of the forwarded call; "
              "poly_p::serialize(Archive&), cereal's portable-binary / JSON archives and poly_p's operator<< are NOT translated "
              "(hand model + differential stream)")

COMMON_TB = [
    "Lean 4.33.0 kernel; axioms limited to propext, Classical.choice, Quot.sound (audited by #print axioms on every run)",
    "no sorry/admit/native_decide/bv_decide/own axioms (grep-audited on every run)",
    "correspondence check: C++ harness (built from /repo's working tree on every run, ASan+UBSan), line protocol, compiled Lean driver",
    "generator coverage bounds what the correspondence sees (distribution printed in class_histogram)",
    "g++ 12 code generation; x86-64 little-endian object representation of uint16_t/uint32_t/uint64_t",
]


def _configs(tier):
    return [0, 1, 2] + ([3] if tier == "thorough" else [])


def _run(ctx, res, env_extra=None):
    src = os.path.join(cl.HARNESS, "serial.cpp")
    specs = [dict(name="serial%d" % i, backend="serial", srcs=[src], extra=["-DCFG=%d" % i]) for i in _configs(ctx["tier"])]
    exes, errs = cl.build_harnesses(specs)
    for k, e in errs.items():
        ctx["problems"].append({"kind": "harness-build", "what": "serial harness does not compile (%s)" % (k[0],), "detail": e})
    cereal = None
    ops = {}

    def count(l):   # run_stream streams the harness output to the driver: count the op lines on the way
        t = l.split(" ", 6)
        if t[0] == "hist":
            k = "hist/%s/%s" % (["raw", "binary", "portable-binary", "JSON"][int(t[1])], "poly_p" if t[5] == "1" else "poly")
        elif t[0] in ("cereal", "cereal2", "cerealtrunc"):
            k = "%s/%s/%s" % (t[0], ["binary", "portable-binary", "JSON"][int(t[1])], "poly_p" if t[5] == "1" else "poly")
        else:
            k = "%s/%s" % (t[0], "poly_p" if t[4] == "1" else "poly")
        ops[k] = ops.get(k, 0) + 1
        return True

    for (name, b), exe in sorted(exes.items()):
        cl.run_stream(res, name, exe, env=env_extra, line_filter=count)
    if exes:
        cereal = any(k.startswith("cereal") for k in ops)
    return cereal, ops


def streams(ctx, res):
    ctx["harness_failure_is_violation"] = "serial harness aborted (AddressSanitizer/UBSan report: memory outside the polynomial touched, or uncaught exception)"
    cereal, ops = _run(ctx, res)
    if cereal is False:
        ctx["problems"].append({"kind": "environment", "what": "cereal headers not found: archive round trips not exercised"})
    return {"cereal_available": cereal, "ops": dict(sorted(ops.items())),
            "configs": "<uint16_t,8,2> <uint32_t,4,3> <uint32_t,4,1> <uint64_t,4,2> <uint16_t,4,1>" +
                       (" <uint64_t,8,4> <uint32_t,16,2>" if ctx["tier"] == "thorough" else "")}


def search(ctx, res, problems):
    found = []
    for s in range(3):
        r2 = cl.StreamResult()
        c2 = dict(ctx)
        c2["problems"] = []
        c2["tier"] = "thorough"
        _run(c2, r2, env_extra={"VERIF_SEED": str(ctx["seed"] * 1000 + s + 7), "VERIF_TIER": "thorough"})
        for sf in r2.specfail:
            found.append({"kind": "spec", **sf})
        if r2.harness_rc != 0:
            found.append({"kind": "runtime", "line": "serial harness aborted", "stderr": r2.harness_err[-2000:]})
        if found:
            break
    return found


PROP = {
    "streams": streams, "search": search, "translators": translators,
    "rule": "raw serialise (bytes compared one by one with the documented layout), raw deserialise from streams cut at EVERY byte offset 0…n·m·w/8, of exact length, and longer (rest of stream compared), arbitrary byte streams, three polynomials back to back (complete and cut streams, sticky failbit), write→read round trips, operator<< text (parsed back by the verified parser), cereal binary/portable-binary/JSON round trips, two objects per archive, truncated archives; histories of statements (write / read / copy / element store) over 1…8 variables and ONE stream, raw and every cereal archive, where the receiving object of a read has a past: old contents, written before, poly_p storage shared with 1…4 other handles (copy constructors, copy assignment, std::vector<poly_p>(k, prototype) with the prototype destroyed or alive), reads back to back into handles that share with each other, writes of shared handles, a read when nothing is left (sticky failbit) — contents of ALL variables after EVERY statement compared with the value-level reading; poly and poly_p; words random (non-canonical), canonical, 0, 2^w-1, distinct-byte ramp, second-half-only; canaries around the plain object + ASan; distinct = distinct lines",
    "trusted_base": COMMON_TB + ["iostream contracts: ostream::write appends the bytes; istream::read extracts min(requested, available) bytes, leaves the rest of the buffer untouched and sets failbit on a short read, is a no-op on a failed stream; operator<< on unsigned integers prints decimal digits (default flags)",
                                 "cereal (archive framing, C-array handling, JSON number formatting) is a contract: only the round trip through it is checked, by the harness",
                                 SER_AST_TB,
                                 "the text parser used as oracle is the one proved inverse to the model's printer (text_roundtrip)"],
    "assumptions": ["little-endian host (the header documents that the format is not portable across endianness)",
                    "streams are binary and carry default formatting flags"],
}
