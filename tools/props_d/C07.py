"""C07 — expression templates evaluate to their coefficient-wise meaning."""
import exprcheck as xc
import props


FUNCTOR_OPS = ("addmod", "submod", "mulmod", "cshoup", "mulshoup4")


def streams(ctx, res):
    cov = xc.expr_streams(ctx, res, "c07")
    # the element functors an expression is made of (coefficient-wise meaning = these, C03): their boundary-directed
    # stream on table rows far from the start is part of C07's tie (the generated TUs use the first 1-3 moduli only)
    props.ops_streams(ctx, res, backends=("serial",), only=lambda l: l.split(" ", 1)[0] in FUNCTOR_OPS)
    return cov


def search(ctx, res, problems):
    return xc.expr_search(ctx, res, problems, "c07")


PROP = {
    "streams": streams, "search": search,
    "rule": "generated C++ translation units (tools/gen_expr.py), one assignment per case: a deterministic set of small shapes "
            "(a op b, a+b*c, shoup(a*b,b'), (a-b)+shoup(c*b,b'), compute_shoup, nested) with every aliasing pattern of the destination "
            "with the leaves, plus random trees predicted to compile for the limb/backend (depth <= 4 quick, <= 6 thorough), poly and poly_p "
            "leaves and destinations, by assignment / add-sub-mul helpers / construction of poly and poly_p / copy-on-write detach; "
            "3-4 operand fills each (random boundary-biased residues, all p-1, 0/1); 3 limbs x {plain, serial, sse, avx2}; the full case list at degree 16 "
            "(thorough: 32 too), and one aliasing pattern of every statement form + random trees at each degree of gen_expr.degree_plan (quick: E, 3E, 64+E, "
            "96, 128-E, 200 for register width E, i.e. small, non-power-of-two, just above 64, just below 128, above 128; thorough: ~20 degrees up to 1024 "
            "incl. degrees only narrower-mode roots accept); every line compares every coefficient of every handle; each line carries the "
            "tree, the store before, the mode the compiler resolved and the store after; distinct = distinct lines; class = form:backend:mode:depth:aliasing:degree class. "
            "ACCEPTANCE BORDER: a representative of every shape family the acceptance rules reject (root kind x operand kind poly / poly_p / sum / product / fused product "
            "in each operand position x quotient-operand kind, per limb x backend; quick: 10 per configuration, seed-rotated, always the fused products with a handle "
            "factor; thorough: all ~500) is compiled alone; one that the compiler accepts is inside the claim and is executed (3-4 fills x every aliasing pattern / "
            "construction / detach, degrees 16 and 48; `asgx` lines: exact meaning under Adm, and the width-1 model): wrong value = failing input, exact value = "
            "problem `predictor-new-shape-correct` (broken tie, no failing input)",
    "trusted_base": props.COMMON_TB + [
        "C++ overload resolution / template matching is observed per generated TU, not modelled: the tree a line reports is the one tools/gen_expr.py wrote; "
        "that it is the tree the compiler built is tied by the reported root simd_mode and by the results",
        "the compile predictor (which shapes each backend accepts) is a generator aid kept honest by -fsyntax-only probes in both directions: rejected shapes are "
        "outside the property; the rejected families are enumerated systematically (tools/gen_expr.py family_keys) over small trees (operands of depth <= 2) - a "
        "shape that starts to compile only at larger depth and in no enumerated family is not seen",
        "SIMD kernels are lane-wise the scalar functors (hypothesis Kernels.Lanewise of kernel_irrelevant; established for the functors by the C03 stream, observed again here per assignment)",
    ],
    "assumptions": ["canonical operands (< p) at every + - * and fused product; third operand of a fused product is the precomputed quotient of the second (Adm)",
                    "degree is a multiple of the register width of the root mode (static_assert in the library)",
                    "moduli are rows of the generated tables (C06)"],
}
