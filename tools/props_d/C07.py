"""C07 — expression templates evaluate to their coefficient-wise meaning."""
import json, os
import checklib as cl
import exprcheck as xc
import props


def translators(repo):
    """source-level tie of the expression-template evaluation machinery: Generated/ExprAst.lean is re-translated from clang's AST on every
    run (serial and SSE builds, 7 expression shapes x uint32_t / uint64_t x two Degree/NbModuli pairs that must give the same text; std::get
    indices resolved through wrapper instantiations; functor calls matched to Generated/OpsAst.lean / SimdAst.lean by C++ name and source line);
    the equalities with Ex.assign / assignW / construct / polyToBool and the resolved-data checks (Proofs/ExprAstEq.lean, Properties/C07Ast.lean)
    are then re-checked by `lake build`."""
    out = {}
    # the functors the evaluators call, and expr::operator bool (whose definition the comparison shapes are bound to), are regenerated first
    for script in ("gen_ops_ast.py", "gen_simd_ast.py", "gen_bool_ast.py", "gen_expr_ast.py"):
        r = cl.run(["python3", os.path.join(cl.HERE, script), "--repo", repo])
        info = {"ok": r.returncode == 0}
        if r.returncode != 0:
            info["err"] = (r.stdout + r.stderr)[-2000:]
        else:
            try:
                info.update(json.loads(r.stdout.strip().splitlines()[-1]))
                info.pop("node_kinds", None)
            except Exception as e:
                if script == "gen_expr_ast.py":
                    info["ok"] = False
                    info["err"] = "unparsable summary: %s" % e
        out[script[:-3]] = info
    return out


FUNCTOR_OPS = ("addmod", "submod", "mulmod", "cshoup", "mulshoup4")


def streams(ctx, res):
    cov = xc.expr_streams(ctx, res, "c07")
    # the element functors an expression is made of (coefficient-wise meaning = these, C03): their boundary-directed
    # stream on table rows far from the start is part of C07's tie (the generated TUs use the first 1-3 moduli only)
    props.ops_streams(ctx, res, backends=("serial",), only=lambda l: l.split(" ", 1)[0] in FUNCTOR_OPS)
    return cov


def search(ctx, res, problems):
    return xc.expr_search(ctx, res, problems, "c07")


PROP = {
    "streams": streams, "search": search, "translators": translators,
    "rule": "generated C++ translation units (tools/gen_expr.py), one assignment per case: a deterministic set of small shapes "
            "(a op b, a+b*c, shoup(a*b,b'), (a-b)+shoup(c*b,b'), compute_shoup, nested) with every aliasing pattern of the destination "
            "with the leaves, plus random trees predicted to compile for the limb/backend (depth <= 4 quick, <= 6 thorough), poly and poly_p "
            "leaves and destinations, by assignment / add-sub-mul helpers / construction of poly and poly_p / copy-on-write detach; "
            "3-4 operand fills each (random boundary-biased residues, all p-1, 0/1); 3 limbs x {plain, serial, sse, avx2}; the full case list at degree 16 "
            "(thorough: 32 too), and one aliasing pattern of every statement form + random trees at each degree of gen_expr.degree_plan (quick: E, 3E, 64+E, "
            "96, 128-E, 200 for register width E, i.e. small, non-power-of-two, just above 64, just below 128, above 128; thorough: ~20 degrees up to 1024 "
            "incl. degrees only narrower-mode roots accept); every line compares every coefficient of every handle; each line carries the "
            "tree, the store before, the mode the compiler resolved and the store after; distinct = distinct lines; class = form:backend:mode:depth:aliasing:degree class. "
            "ACCEPTANCE BORDER: a representative of every shape family the acceptance rules reject (root kind x operand kind poly / poly_p / sum / product / fused product "
            "in each operand position x quotient-operand kind, per limb x backend; quick: 10 per configuration, seed-rotated, always the fused products with a handle "
            "factor; thorough: all ~500) is compiled alone; one that the compiler accepts is inside the claim and is executed (3-4 fills x every aliasing pattern / "
            "construction / detach, degrees 16 and 48; `asgx` lines: exact meaning under Adm, and the width-1 model): wrong value = failing input, exact value = "
            "problem `predictor-new-shape-correct` (broken tie, no failing input)",
    "trusted_base": props.COMMON_TB + [
        "C++ overload resolution / template matching is observed per generated TU, not modelled: the tree a line reports is the one tools/gen_expr.py wrote; "
        "that it is the tree the compiler built is tied by the reported root simd_mode and by the results",
        "the compile predictor (which shapes each backend accepts) is a generator aid kept honest by -fsyntax-only probes in both directions: rejected shapes are "
        "outside the property; the rejected families are enumerated systematically (tools/gen_expr.py family_keys) over small trees (operands of depth <= 2) - a "
        "shape that starts to compile only at larger depth and in no enumerated family is not seen",
        "source-level tie of the evaluation machinery (poly::operator=(expr), poly(expr), poly::load, expr::load/_load, _make_op incl. the shoup(mulmod) fusion, the operator "
        "overloads, simd::serial/sse::load/store, poly::operator bool): clang++-14's typed AST of the instantiations of build/expr_ast_tu_{serial,sse}.cpp, tools/gen_expr_ast.py's "
        "traversal, the heap/object/loop semantics lean/NflVerif/Model/CSemExpr.lean (a poly reference = object number, an expr object = its args tuple, forSt with fuel 2^64) + CSem.lean; "
        "BY NAME: std::get<I> on expr::args (I resolved by clang through nflverif_get wrappers), the std::tuple-of-references constructor, Op{}(x..., cm) -> the functor of "
        "Generated/OpsAst.lean / SimdAst.lean with the same C++ qualified name and source line, _mm_load_si128/_mm_store_si128 (16-byte alignment assumed: alignment_sites), std::begin/end/find_if; "
        "class constants degree / nmoduli / P / Pn are parameters; the 7 shapes x 2 limb types (+3 SSE) are instantiations, not all expression types",
        "SIMD kernels are lane-wise the scalar functors (hypothesis Kernels.Lanewise of kernel_irrelevant; established for the functors by the C03 stream, observed again here per assignment)",
    ],
    "assumptions": ["canonical operands (< p) at every + - * and fused product; third operand of a fused product is the precomputed quotient of the second (Adm)",
                    "degree is a multiple of the register width of the root mode (static_assert in the library)",
                    "moduli are rows of the generated tables (C06)"],
}
