"""Shared by C04 and C15: the source-level translator of poly::set_mpz<It>(It,It) and the overloads / constructors forwarding to it."""
import json, os
import checklib as cl


def translators_setmpz(repo):
    """source-level tie of the big-integer setters: Generated/SetMpzAst.lean is re-translated from clang's AST of gmp.hpp
    (poly::set_mpz<It>(It first, It last) as a whole — size test + throw, loop over the moduli, iterator rewind, copy loop with
    mpz_fdiv_ui, zero padding — for It = mpz_class const* and std::vector<mpz_class>::iterator, two (Degree, NbModuli) per limb type,
    all four texts compared; set_mpz(initializer_list / array<mpz_class> / mpz_class / mpz_t) and the four mpz constructors as calls of
    it) on every run (tools/gen_setmpz_ast.py); the equality with the hand models Setters.setMpz (C15) and Crt.setMpz (C04)
    (Proofs/SetMpzAstEq.lean, Proofs/SetMpzModels.lean) and the transported statements (Properties/C15MpzAst.lean,
    Properties/C04Ast2.lean) are then re-checked by `lake build`."""
    r = cl.run(["python3", os.path.join(cl.HERE, "gen_setmpz_ast.py"), "--repo", repo])
    info = {"ok": r.returncode == 0}
    if r.returncode != 0:
        info["err"] = (r.stdout + r.stderr)[-2000:]
    else:
        try:
            info.update(json.loads(r.stdout.strip().splitlines()[-1]))
            info.pop("node_kinds", None)
            for k in ("size_t_sites", "pointer_sites", "while_sites", "throws", "address_preconditions"):   # the three widths list the same source lines
                info[k] = [x for x in info.get(k, []) if str(x.get("fn", "")).endswith("u16")]
        except Exception as e:
            info["ok"] = False
            info["err"] = "unparsable summary: %s" % e
    return {"gen_setmpz_ast": info}


SETMPZ_AST_TB = ("source-level tie of poly::set_mpz<It>(It,It) and the set_mpz overloads / mpz constructors of gmp.hpp: clang++-14's typed AST of the "
                 "instantiated members (It = mpz_class const*, std::vector<mpz_class>::iterator; two (Degree, NbModuli) per limb type; texts compared), "
                 "tools/gen_setmpz_ast.py's traversal on top of gen_crt_ast.py (iterator = index into the parameter list `vals`; copy / = / < / ++ / -> of "
                 "__normal_iterator and of raw pointers mapped by name to lean/NflVerif/Model/CSemIter.lean; begin() inlined to offset 0 of `_data`; "
                 "`if (c) throw std::runtime_error` before any store = result none; `for (; i < degree && …; ++i, …)` = CSem.whileFuel with fuel 2^64, "
                 "accepted only with a size_t counter advanced by ++ and a loop-invariant bound; mpz_fdiv_ui through Model/GmpSem.lean), and the reading "
                 "of mpz_class as a mathematical integer (get_mpz_t, copy construction, construction from mpz_t keep the value). The alignment assert on "
                 "the address of _data has no counterpart (listed under translators.gen_setmpz_ast.address_preconditions)")
