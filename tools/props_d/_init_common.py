"""Source-level tie of the table initialisation (C06 / C02 / C01): tools/gen_init_ast.py."""
import json, os
import checklib as cl


def _run(script, repo):
    r = cl.run(["python3", os.path.join(cl.HERE, script), "--repo", repo])
    info = {"ok": r.returncode == 0}
    if r.returncode != 0:
        info["err"] = (r.stdout + r.stderr)[-2000:]
    else:
        try:
            info.update(json.loads(r.stdout.strip().splitlines()[-1]))
            info.pop("node_kinds", None)
        except Exception as e:
            info["ok"] = False
            info["err"] = "unparsable summary: %s" % e
    return info


def translators_init(repo, with_ops=True):
    """Generated/InitAst.lean is re-translated from clang's AST of poly::core::initialize() / core::prep_wtab on every run (after
    Generated/OpsAst.lean, whose `mulmod_uW` it calls, and Generated/CrtAst.lean, whose `static_log2` it uses: gen_init_ast.py checks that both
    files carry the text it would produce from its own AST); the equalities with the hand model (Proofs/InitAstEq.lean) and the transported
    C06 statements (Properties/C06Ast.lean) are then re-checked by `lake build`."""
    out = {}
    if with_ops:
        ops = _run("gen_ops_ast.py", repo)
        if not ops.get("ok"):
            out["gen_ops_ast"] = ops
    crt = _run("gen_crt_ast.py", repo)
    if not crt.get("ok"):
        out["gen_crt_ast"] = crt
    out["gen_init_ast"] = _run("gen_init_ast.py", repo)
    return out


INIT_AST_TB = ("source-level tie of the table initialisation: clang++-14's typed AST (-ast-dump=json) of the instantiated poly::core::initialize() and "
               "core::prep_wtab, tools/gen_init_ast.py's traversal (rows = lists, value_type* = element offset into one statically known row, counted "
               "loops = CSemInit.forCount with the counter's wrap, `while (K >= 2) … K /= 2` = whileFuel 64), the per-node semantics of "
               "lean/NflVerif/Model/CSem.lean + CSemInit.lean; the loop over the moduli is NOT translated (shape checked: every member access is the "
               "slice [currentModulus]); the transforms read the tables through the hand model (differential `tab` stream)")
