"""C05 — serial, SSE and AVX2 builds compute bit-identical results.

Streams
  simd/{sse,avx2}   harness/simd.cpp: every modelled intrinsic on the CPU (`i_*`, model comparison) and every
                    kernel called directly (`k_*`: kernel model comparison + spec = lane-wise scalar functor
                    model + exact modular result in the canonical regime), ntt_loop<sse|avx2>::run on arbitrary
                    words, bool(a==b)/bool(a!=b) on polynomials.
  ops/{serial,sse,avx2}   harness/ops.cpp (C03's stream): functors on boundary-directed tuples; the per-lane lines
                    go to the scalar handlers, the register-level `v…` records are renamed to the `k_*` kernel
                    handlers of the build that produced them.
  ntt/{serial,sse,avx2}   harness/ntt.cpp (C01/C02's stream), all three built with -DMIN16=8 -DMIN32=8 so that the
                    random stream and hence the input lines are identical in the three builds.
Cross-build comparison (the property itself): lines are keyed by their left-hand side; wherever two builds
evaluated the same left-hand side the right-hand sides must be identical words.  For ops the three builds see the
same operand tuples (lane batching only repeats some), for ntt the three streams are line-by-line the same inputs.
"""
import json, os, subprocess, time
import checklib as cl
from props import COMMON_TB

VEC_OPS = {"vaddmod": "k_addmod", "vsubmod": "k_submod", "vmulshoup4": "k_mulshoup", "vmuladdshoup5": "k_muladdshoup"}


def translators(repo):
    """source-level tie of the vector kernels: Generated/SimdAst.lean is re-translated from clang's AST of sse.hpp /
    avx2.hpp on every run (tools/gen_simd_ast.py); the equalities with the hand-written kernel models
    (Proofs/SimdAstEq.lean) and the transported C05 lane theorems (Properties/C05Ast.lean) are then re-checked by
    `lake build`.  C05Ast also states the add/sub kernels against the scalar functors re-translated by gen_ops_ast.py.
    LOOP STRUCTURE of the vector transforms: tools/gen_vloop_ast.py re-translates ntt_loop_sse_unrolled::run, ntt_loop_avx2_unrolled::run
    and core::ntt of both vector builds (Generated/VLoopAst.lean: pointers as (array, offset), `degree` a parameter, calling the generated
    kernels of SimdAst.lean on whole registers and the generated scalar block of NttAst.lean; index expressions run for every degree
    2^3..2^15; probe compilations for the smallest accepted degree); it needs the scalar generators run first (gen_ntt_ast, gen_permut_ast,
    gen_nttloop_ast: Generated/NttAst.lean, PermutAst.lean, NttLoopAst.lean).  Proofs/VLoopAstEq.lean + Properties/C05LoopAst.lean: generated
    vector loops = scalar model = generated scalar loop = hand model of the vector loops, every degree; end-to-end C05 for the transform."""
    out = {}
    for name, keep_out in (("gen_ops_ast", ("node_kinds",)), ("gen_simd_ast", ("node_kinds",)), ("gen_ntt_ast", ("node_kinds",)),
                           ("gen_permut_ast", ("node_kinds",)), ("gen_nttloop_ast", ("node_kinds",)),
                           ("gen_vloop_ast", ("node_kinds", "probe_diagnostics", "shift_sites"))):
        r = cl.run(["python3", os.path.join(cl.HERE, name + ".py"), "--repo", repo])
        info = {"ok": r.returncode == 0}
        if r.returncode != 0:
            info["err"] = (r.stdout + r.stderr)[-2000:]
        else:
            try:
                info.update(json.loads(r.stdout.strip().splitlines()[-1]))
                for k in keep_out:
                    info.pop(k, None)
            except Exception as e:
                info["ok"] = False
                info["err"] = "unparsable summary: %s" % e
        out[name] = info
    return out


def _run(exe, env=None, timeout=3000):
    e = dict(os.environ)
    e.update(env or {})
    e.setdefault("ASAN_OPTIONS", "detect_leaks=1:abort_on_error=0:exitcode=97")
    e.setdefault("UBSAN_OPTIONS", "print_stacktrace=1:halt_on_error=1:exitcode=98")
    try:
        h = subprocess.run([exe], capture_output=True, text=True, env=e, timeout=timeout)
    except subprocess.TimeoutExpired:
        return -9, [], "timeout"
    return h.returncode, [l for l in h.stdout.splitlines() if l and not l.startswith("#")], h.stderr[-3000:]


def _stream(res, label, exe, env=None, mapper=None, keep=None):
    """run one harness, optionally rename / drop lines, feed the driver; returns all raw lines"""
    t0 = time.time()
    rc, raw, err = _run(exe, env)
    if rc != 0:
        res.harness_rc = rc
        res.harness_err += "[%s] rc=%d\n%s\n" % (label, rc, err)
    lines = raw
    if mapper:
        lines = [m for m in (mapper(l) for l in lines) if m]
    if keep:
        lines = [l for l in lines if keep(l)]
    cl.feed_driver(res, label, lines, trivial=lambda lhs: False)
    res.streams.append({"label": label, "lines": len(lines), "raw_lines": len(raw), "wall_s": round(time.time() - t0, 2), "harness_rc": rc})
    return raw


def _cross(ctx, name, outs, relabel=None):
    """outs: {backend: [lines]}.  Same left-hand side => same right-hand side in every build."""
    tabs = {}
    for b, lines in outs.items():
        d = {}
        for l in lines:
            if " =>" not in l:
                continue
            lhs, rhs = l.split(" =>", 1)
            if lhs.startswith("v"):
                continue  # register-level records exist only in the vector builds
            prev = d.get(lhs)
            if prev is not None and prev != rhs:
                ctx["failing_inputs"].append({"kind": "cross-build", "line": (lhs + " =>" + rhs)[:4000],
                                              "what": "%s/%s gives two different results for the same operands (lane position matters)" % (name, b),
                                              "other": prev[:2000]})
            d[lhs] = rhs
        tabs[b] = d
    ref = tabs.get("serial")
    stats = {"compared": 0, "mismatch": 0}
    if ref is None:
        return stats
    for b, d in tabs.items():
        if b == "serial":
            continue
        for lhs, rhs in d.items():
            r0 = ref.get(lhs)
            if r0 is None:
                continue
            stats["compared"] += 1
            if r0 != rhs:
                stats["mismatch"] += 1
                if stats["mismatch"] <= 10:
                    ctx["failing_inputs"].append({"kind": "cross-build", "line": (lhs + " =>" + rhs)[:4000],
                                                  "what": "%s: build %s differs from the serial build on the same input" % (name, b),
                                                  "serial": r0[:2000], "backend": b})
    return stats


def streams(ctx, res, nvec=None, seed=None, full_ntt=None):
    ctx.setdefault("failing_inputs", [])
    thorough = ctx["tier"] == "thorough"
    env = {}
    if seed is not None:
        env["VERIF_SEED"] = str(seed)
    if nvec is not None:
        env["VERIF_NVEC"] = str(nvec)
    specs = [dict(name="simd", backend=b) for b in cl.simd_backends()]
    specs += [dict(name="ops", backend=b) for b in ("serial",) + cl.simd_backends()]
    specs += [dict(name="ntt", backend=b, sanitize=None, extra=["-DMIN16=8", "-DMIN32=8"]) for b in ("serial",) + cl.simd_backends()]
    exes, errs = cl.build_harnesses(specs)
    for k, e in errs.items():
        ctx["problems"].append({"kind": "harness-build", "what": "%s harness does not compile for %s" % k, "detail": e})
    cov = {"backends": sorted({b for (_, b) in exes})}

    # ---- (1) intrinsics and kernels
    for b in cl.simd_backends():
        exe = exes.get(("simd", b))
        if exe:
            _stream(res, "simd/" + b, exe, env)

    # ---- (2) functors, three builds
    outs = {}
    for b in ("serial",) + cl.simd_backends():
        exe = exes.get(("ops", b))
        if not exe:
            continue

        def mapper(l, b=b):
            op, rest = l.split(" ", 1)
            if op.startswith("v"):
                k = VEC_OPS.get(op)
                return ("%s_%s %s" % (k, "avx2" if b == "native" else b, rest)) if k else None
            return l
        outs[b] = _stream(res, "ops/" + b, exe, dict(env, VERIF_NOSTRUCT="1"), mapper=mapper)
    cov["cross_build_ops"] = _cross(ctx, "ops", outs)

    # ---- (3) transforms and products, three builds with identical inputs
    full = thorough if full_ntt is None else full_ntt
    outs = {}
    for b in ("serial",) + cl.simd_backends():
        exe = exes.get(("ntt", b))
        if not exe:
            continue

        hb = "avx2" if b == "native" else b    # the host-native build runs the AVX2 kernels: same vector loop model

        def keep(l, b=b, hb=hb):
            f = l.split(" ", 4)
            op, w, k = f[0], int(f[1]) if f[0] != "tab" else 0, int(f[3]) if f[0] != "tab" else 99
            if op == "tab":
                return False
            if full:
                return k <= 11
            if b == "serial":   # the serial build's own stream belongs to C01/C02; here only a sample
                return op in ("nttfwd", "mulnttshoup") and k <= 5
            return k <= 8 or (op == "nttfwd_" + hb and k <= 10)

        def mapper(l, b=b, hb=hb):
            # forward transforms of the vector builds are compared with the vector loop model and, as spec,
            # with the serial model's words
            if b != "serial" and l.startswith("nttfwd "):
                return "nttfwd_" + hb + l[6:]
            return l
        outs[b] = _stream(res, "ntt/" + b, exe, env, mapper=mapper, keep=keep)
    cov["cross_build_ntt"] = _cross(ctx, "ntt", outs)
    return cov


def search(ctx, res, problems):
    """Something broke without a failing input (e.g. a kernel model differs from the kernel only on rare lanes,
    or a proof no longer builds): more vectors, more seeds, whole ntt stream through the models."""
    found = []
    for s in range(3):
        r2 = cl.StreamResult()
        c2 = dict(ctx)
        c2["failing_inputs"] = []
        c2["problems"] = []
        c2["tier"] = "thorough"
        streams(c2, r2, nvec=2000, seed=ctx["seed"] * 1000 + 17 + s, full_ntt=(s == 2))
        for sf in r2.specfail:
            found.append({"kind": "spec", **sf})
        found += c2["failing_inputs"]
        if found:
            break
    return found


PROP = {
    "streams": streams, "search": search, "translators": translators,
    "rule": "simd: every modelled intrinsic executed on the CPU on whole-register boundary classes (0,1,2, 0x7f…/0x80…/0xff…, 0xffff/0x10000 for packus, values around p, 2p and the signed-compare offsets p±2^(w-1)) plus random and mixed lanes; every kernel called directly with the conditional-subtraction boundary (sum=p-1,p,p+1; 2p-1,2p for butterflies) rotated through all lanes, Shoup operands with x·y' within ±2 of a multiple of 2^w, lazy and arbitrary words; ntt_loop<sse|avx2>::run on arbitrary words/tables for n=8..256; poly ==/!= with exactly one differing element at every lane position. ops/ntt: the C03 and C01/C02 streams in three builds. Each line is compared with the model of ITS build (kernel model for k_*/nttfwd_sse/nttfwd_avx2, scalar model otherwise) and, as spec, with the SCALAR model's words — which is what the lane/loop theorems state — and with the exact modular result where the inputs are canonical. In addition the three builds are compared with each other directly: identical left-hand side => identical right-hand side (ops: the three builds evaluate the same operand tuples, lane batching only repeats some of them; ntt: built with the same MIN16/MIN32 the three streams have identical inputs line by line; all lines are compared, only a subset goes through the Lean driver in the quick tier). distinct = distinct left-hand sides fed to the driver; none is trivial.",
    "trusted_base": COMMON_TB + [
        "x86 SSE4.2/AVX2 instructions behave on other CPUs as on the CPU the check runs on (each modelled intrinsic is executed and compared with its Lean model on every run)",
        "alignment of vector loads/stores and the compiler's instruction selection are not modelled (sanitizer builds of the simd/ops harnesses would trap on misaligned or out-of-bounds access)",
        "source-level tie of the vector kernels: clang++-14's typed AST (-ast-dump=json) of sse.hpp/avx2.hpp in the two configurations (-DNTT_SSE -msse4.2, -DNTT_AVX2 -mavx2), tools/gen_simd_ast.py's traversal and its intrinsic-NAME -> model table (`_mm[256]_…` header functions by name, `__builtin_ia32_…` builtins of the macro intrinsics by name + constant immediates; casts between vector types of equal size read as bit-preserving), the scalar node semantics of Model/CSem.lean + Model/SimdView.lean for the `set1` arguments, and the intrinsic models of Model/Simd.lean (each executed on the CPU and compared on every run by harness/simd.cpp); memory (loads before stores, distinct pointers) of ntt_loop_body::operator() is abstracted to registers in / registers out",
        "source-level tie of the vector LOOP structure (tools/gen_vloop_ast.py on top of gen_nttloop_ast.py's machinery): lean/NflVerif/Model/CSemVLoop.lean (a whole-register load / store = L consecutive cells, lane 0 = lowest address; ALIGNMENT not modelled, only checked on the translator's concrete runs relative to the array bases), CSemLoop.lean (pointer = (array, offset), out-of-range read = 0 / write dropped — excluded by the concrete run of the index expressions for the degrees 2^3..2^15 only), distinct pointer parameters are distinct arrays, the by-name contract with gen_simd_ast.py's kernels (parameter list and lane count compared textually with Generated/SimdAst.lean; exactly one whole-register load per pointer parameter and one store per non-const one, read off operator()), sizeof(T) from the C type, the probe compilations for the smallest accepted degree; core::inv_ntt and the element-wise twist of the vector builds are not re-translated",
        "mode reconciliation of mixed expression trees (which sub-expression is evaluated by which backend) is C07's concern; here every functor and the transform are compared per backend",
    ],
    "assumptions": ["16/32-bit limbs: p < 2^w for add/sub, 2p ≤ 2^w for butterflies/transforms (4p ≤ 2^w on every table row); Shoup kernels: lane hypotheses Shoup32Hyp/Shoup16Hyp/Muladd16Hyp, proved to hold for y<p, y'=compute_shoup(y), rop<p and any word x",
                    "degree ≥ 8 for 16/32-bit limbs in the vector builds (smaller degrees do not compile)",
                    "64-bit limbs and mulmod/muladd/compute_shoup use the serial code in every build (inheritance in sse.hpp/avx2.hpp); compared by the streams only"],
}
