"""Shared translator hook for C19 / C13 / C18: tools/gen_prng_ast.py (clang AST of lib/prng/randombytes.cpp and
lib/prng/fastrandombytes.cpp -> Generated/PrngAst.lean, step functions)."""
import json, os
import checklib as cl


def translators_prng(repo):
    """source-level tie of nfl::randombytes and nfl::fastrandombytes: Generated/PrngAst.lean is re-translated from clang's
    AST on every run (each function cut at its external calls into step functions; accesses to the statics inside / outside the
    lock_guard block as data); the equalities with the hand models (Proofs/PrngAstEq.lean) and the transported statements
    (Properties/C19Ast.lean, C13Ast.lean) are then re-checked by `lake build`."""
    r = cl.run(["python3", os.path.join(cl.HERE, "gen_prng_ast.py"), "--repo", repo])
    info = {"ok": r.returncode == 0}
    if r.returncode != 0:
        info["err"] = (r.stdout + r.stderr)[-2000:]
    else:
        try:
            info.update(json.loads(r.stdout.strip().splitlines()[-1]))
            info.pop("node_kinds", None)
        except Exception as e:
            info["ok"] = False
            info["err"] = "unparsable summary: %s" % e
    return {"gen_prng_ast": info}


PRNG_AST_TB = ("source-level tie of nfl::randombytes / nfl::fastrandombytes (control flow around external calls, translated as step "
               "functions): clang++-14's typed AST (-ast-dump=json) of lib/prng/randombytes.cpp and lib/prng/fastrandombytes.cpp, "
               "tools/gen_prng_ast.py's traversal and its SEGMENT-CUTTING CONVENTION (cut at every external call, at the heads of loops "
               "and after ifs that contain one; constant-bound loops unrolled, every loop test it evaluated re-checked by the kernel; a "
               "pointer = offset from its entry value, an array = list of cells; an external call touches the locals only through the "
               "pointers it is given; lock_guard constructor = lock, end of its block = unlock), the per-node semantics of "
               "lean/NflVerif/Model/CSem.lean + CSemPrng.lean (conversions modular: listed under translators.gen_prng_ast.conversions_assumed), "
               "and the hand-written drivers Gen.exec / Gen.frbExec of Proofs/PrngAstEq.lean that play the environment (OS answers, key "
               "source, stream generator) exactly as the hand models do; NOT translated: libc open/read/sleep, std::mutex, the Salsa20 assembly")
