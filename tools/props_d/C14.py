"""C14 — shared-handle polynomials (nfl::poly_p) behave as independent values.

Streams: harness/cow.cpp executes statement histories on real poly_p handles in lockstep with plain poly values
(bounded-exhaustive over three handles + long random histories), built with ASan+UBSan+LSan for every backend;
the Lean driver replays every prefix in the model of Model/Cow.lean (`cow` handler: model = handle mechanics incl.
alias classes and use counts, spec = value semantics `runValues`)."""
import os, re, sys
import checklib as cl
sys.path.insert(0, os.path.dirname(os.path.abspath(__file__)))
import _cow_common as _cc

try:
    import props as _props
    COMMON_TB = list(_props.COMMON_TB)
except Exception:  # pragma: no cover
    COMMON_TB = []

BACKENDS = ("serial", "plain", "sse", "avx2")


def _runtime_failures(label, h):
    """sanitizer aborts / leaks / exceptions reported by the harness on stderr, each with the history in flight"""
    out = []
    if h is None:
        return out
    err = h.stderr or ""
    hist = [l[len("HISTORY "):] for l in err.splitlines() if l.startswith("HISTORY ")]
    leaks = [l for l in err.splitlines() if l.startswith("LEAK ")]
    san = re.search(r"(ERROR: AddressSanitizer: [^\n]*|ERROR: LeakSanitizer: [^\n]*|runtime error: [^\n]*|EXCEPTION [^\n]*|Assertion [^\n]*failed[^\n]*)", err)
    for hl in hist[:3]:
        out.append({"kind": "runtime", "stream": label, "line": "HISTORY " + hl,
                    "what": san.group(1) if san else "harness aborted while executing the last statement of this history",
                    "stderr": err[-2500:]})
    for l in leaks[:3]:
        out.append({"kind": "leak", "stream": label, "line": l,
                    "what": "bytes still allocated after every handle of this history was destroyed"})
    if h.returncode != 0 and not out:
        out.append({"kind": "runtime", "stream": label, "line": "(no history captured) rc=%d" % h.returncode,
                    "what": san.group(1) if san else "harness exited abnormally", "stderr": err[-2500:]})
    return out


def _run(ctx, res, env_extra=None, backends=BACKENDS, record_build_problems=True):
    specs = [dict(name="cow", backend=b, sanitize="address,undefined", with_prng=False) for b in backends]
    exes, errs = cl.build_harnesses(specs)
    if record_build_problems:
        for k, e in errs.items():
            ctx["problems"].append({"kind": "harness-build", "what": "cow harness does not compile for %s" % (k,), "detail": e})
    info = {}
    for (name, b), exe in sorted(exes.items()):
        before_sf = len(res.specfail)
        rc_before = res.harness_rc
        h = cl.run_stream(res, "cow/" + b, exe, env=env_extra)
        fails = _runtime_failures("cow/" + b, h)
        ctx.setdefault("failing_inputs", []).extend(fails)
        sd = 0 if h is None else sum(1 for l in h.stdout.splitlines() if l.startswith("#SHADOWDIFF"))
        if sd and len(res.specfail) == before_sf:
            ctx["problems"].append({"kind": "harness", "what": "harness saw %d handle/shadow mismatches that the driver's spec did not flag (%s)" % (sd, b)})
        info[b] = {"shadowdiff": sd, "runtime_failures": len(fails)}
    return {"backends": sorted(b for (_, b) in exes), "per_backend": info}


def streams(ctx, res):
    return _run(ctx, res)


def search(ctx, res, problems):
    """something broke without a failing history: more seeds, deeper enumeration, longer random histories"""
    found = []
    # histories on which the real handle mechanics (status / alias classes / use counts) leave the model although
    # the values agree with the value semantics: the tie between the theorems and the code is broken there
    for md in sorted(res.modeldiff, key=lambda m: len(m["line"]))[:5]:
        found.append({"kind": "model-mechanics", "what": "status / alias class / use_count through the real handles differs from the model", **md})
    if found:
        return found
    for s in range(3):
        r2 = cl.StreamResult()
        c2 = {"problems": [], "failing_inputs": []}
        _run(c2, r2, env_extra={"VERIF_SEED": str(ctx["seed"] * 1000 + s + 7), "VERIF_COW_NRAND": "8", "VERIF_COW_RANDLEN": "400"},
             backends=("serial",), record_build_problems=False)
        for sf in r2.specfail:
            found.append({"kind": "spec", **sf})
        found.extend(c2["failing_inputs"])
        if not found:
            # a history on which the real handle mechanics (alias classes / use counts) leave the model
            for md in r2.modeldiff[:3]:
                found.append({"kind": "model-mechanics", **md})
        if found:
            break
    return found


PROP = {
    "streams": streams, "search": search, "translators": _cc.translators_cow,
    "rule": "every prefix of every generated history is one line (history + everything observable through the real handles: "
            "status, alias class, use_count, values via const reads, result of the last statement, pairwise ==/!=); "
            "bounded-exhaustive: all well-formed sequences of structural statements {construct, copy-construct, move-construct, "
            "copy-assign, move-assign (self included), write, non-const touch, destroy} over three handles up to length 5 "
            "(uint64 degree 4) / 4 (uint32 degree 8, two moduli) in the quick tier, 6 / 5 thorough, first statement fixed to "
            "handle 0 by symmetry, the concrete C++ form of each construct/write/touch (15 assignment forms incl. scalar, list, "
            "4 distribution tags, set(...), set_mpz, mpz2poly, deserialize, plain-poly; element write; both transforms; 5 expression "
            "shapes incl. destination-as-operand) chosen by a seeded hash of the path; plus random histories of length 220 (400) over "
            "3-5 handles with reads and comparisons; four builds (serial, plain, sse, avx2) under ASan+UBSan+LSan; distinct = distinct histories",
    "trusted_base": COMMON_TB + [
        "std::shared_ptr / std::allocate_shared of libstdc++ behave as modelled (copy = +1 owner, move leaves the source empty, `_p = x` = temporary+swap, unique() = use_count()==1); tied to the model by comparing use_count() and pointer-alias classes after every statement",
        "pointers are modelled as allocation identities (never reused); the real allocator reuses addresses, which only matters for `_p.get()==o._p.get()` between two live handles (same address = same allocation)",
        "setters, samplers, transforms and arithmetic are abstract functions in the theorems; in the correspondence their values come from the same statement on a plain nfl::poly (the property is relative to value-type polynomials); the PRNG is replaced by a deterministic stream so that both executions draw the same bytes",
        "ASan/UBSan/LSan and __sanitizer_get_current_allocated_bytes for real double frees, use-after-free and leaks (runtime part, not proved about the C++)",
        "single-threaded use only (the header itself notes that detach() is not thread-safe; concurrency is outside C14)",
        _cc.COW_AST_TB,
    ],
    "assumptions": [
        "histories are well-formed (wfB): constructions only on non-objects, operands are live values, a moved-from handle is only destroyed or the target of a copy/move assignment, indices in range",
        "`a = b` with a non-const lvalue b does not compile (forwarding operator= wins) and is outside the claim; gaussian<> tag and cereal serialize are not exercised by the harness (they go through the same poly_obj() path)",
    ],
}
