"""C19 — key seeding (nfl::randombytes) survives short reads and transient entropy-source failures.

The repository's lib/prng/randombytes.cpp is compiled as is and linked with --wrap=open,read,sleep; the harness
plays scripts of OS answers to it (one forked child per script so that the file-static descriptor starts at -1),
the Lean driver replays the same scripts with the model and evaluates the executable specification on the
implementation's call log and buffer."""
import os, re, subprocess, time
from concurrent.futures import ThreadPoolExecutor
import checklib as cl

NDRIVERS = 12   # the >1 MiB lines cost ~0.3 s each in the driver (lists of 2^20 elements): feed it in parallel


def _merge(res, parts):
    for r in parts:
        res.lines += r.lines
        res.ok += r.ok
        res.modeldiff += r.modeldiff
        res.specfail += r.specfail
        res.bad += r.bad
        for k, v in r.classes.items():
            res.classes[k] = res.classes.get(k, 0) + v
        res.distinct |= r.distinct
        res.distinct_count += r.distinct_count
        res.specfail_total += r.specfail_total
        res.modeldiff_total += r.modeldiff_total
        res.bad_total += r.bad_total
        res.driver_rc = res.driver_rc or r.driver_rc
    for r in parts:
        for s in r.samples:
            if len(res.samples) < 12 and len(s) < 600:
                res.samples.append(s)


ERRNAME = {2: "ENOENT", 4: "EINTR", 5: "EIO", 9: "EBADF", 11: "EAGAIN", 13: "EACCES", 14: "EFAULT", 21: "EISDIR",
           22: "EINVAL", 23: "ENFILE", 24: "EMFILE"}


def _answers(toks):
    """outcome tokens of a line -> [(kind, value, errno, sleep result)]; kind in openFail/openOk/read-1/read0/readN"""
    out, i, e, r = [], 0, 0, 0
    while i < len(toks):
        t = toks[i]
        if t == 8:
            e = toks[i + 1]; i += 2; continue
        if t == 9:
            r = toks[i + 1]; i += 2; continue
        if t == 0:
            out.append(("openFail", -1, e, r)); i += 1
        elif t == 1:
            out.append(("openOk", toks[i + 1], e, r)); i += 2
        elif t == 2:
            out.append(("read-1", -1, e, r)); i += 1
        elif t == 3:
            out.append(("read0", 0, e, r)); i += 1
        elif t == 4:
            out.append(("readN", toks[i + 1], e, r)); i += 3
        elif t == 5:
            out.append(("readN", toks[i + 1], e, r)); i += 2 + toks[i + 1]
        else:
            raise ValueError("token %d" % t)
        e = r = 0
    return out


def _lhs(line):
    f = line.split("=>")[0].split()
    nc = int(f[2])
    return int(f[1]), [int(x) for x in f[3:3 + nc]], _answers([int(x) for x in f[3 + nc:]])


def _fdclass(fd):
    return str(fd) if fd <= 3 else ("small" if fd < 1024 else ("large" if fd < 2147483647 else "INT_MAX"))


def _errno_coverage(lines):
    """marginal histograms of the error-code dimension (kept out of the driver's class string: 336 classes already)"""
    first_read, first_open, later_read, stale, slp, ebadf_fd = {}, {}, {}, 0, 0, {}
    for l in lines:
        try:
            _, _, ans = _lhs(l)
        except Exception:
            continue
        seen_r = seen_o = False
        fd = None
        for kind, val, e, r in ans:
            nm = ERRNAME.get(e, "none" if e == 0 else str(e))
            if kind == "openOk" and fd is None:
                fd = val
            if kind == "read-1":
                d = later_read if seen_r else first_read
                d[nm] = d.get(nm, 0) + 1
                if e == 9 and fd is not None:
                    k = _fdclass(fd)
                    ebadf_fd[k] = ebadf_fd.get(k, 0) + 1
                seen_r = True
            elif kind == "openFail":
                if not seen_o:
                    first_open[nm] = first_open.get(nm, 0) + 1
                seen_o = True
            elif e:
                stale += 1
            if r:
                slp += 1
    return {"errno_of_first_failing_read(lines)": dict(sorted(first_read.items())),
            "errno_of_later_failing_reads(answers)": dict(sorted(later_read.items())),
            "errno_of_first_failing_open(lines)": dict(sorted(first_open.items())),
            "read_EBADF_by_descriptor_value(answers)": dict(sorted(ebadf_fd.items())),
            "answers>=0_with_stale_errno": stale, "answers_followed_by_interrupted_sleep": slp}


def _diagnose(line):
    """which clause of the property the implementation's call log breaks on this script (for the SPECFAIL entries)"""
    try:
        mode, xlens, ans = _lhs(line)
        rhs = [int(x) for x in line.split("=>")[1].split()]
    except Exception:
        return None
    # walk the per-call records: <returned> <nlog> entries... <buffer>
    i, opens, events, notes = 0, [], [], []
    ai = 0   # index of the next answer (each open/read entry with an answer consumes one)
    for x in xlens:
        if i + 2 > len(rhs) - 1:
            break
        returned, nlog = rhs[i], rhs[i + 1]
        i += 2
        for _ in range(nlog):
            t = rhs[i]
            if t in (1, 9):
                ret = rhs[i + 1]; i += 2
                if ret >= 0:
                    opens.append(ret)
                    if len(opens) == 2:
                        notes.append("second successful open (descriptor %d) in one process history after %s" % (ret, events[-1] if events else "nothing"))
                a = ans[ai] if ai < len(ans) else None; ai += 1
                events.append("open=%d%s" % (ret, " errno=%s" % ERRNAME.get(a[2], a[2]) if a and ret < 0 and a[2] else ""))
            elif t == 2:
                fd, off, req, ret = rhs[i + 1:i + 5]; i += 5
                a = ans[ai] if ai < len(ans) else None; ai += 1
                if opens and fd != opens[0]:
                    notes.append("read on descriptor %d, the opened one is %d" % (fd, opens[0]))
                if not opens:
                    notes.append("read on descriptor %d before any successful open" % fd)
                events.append("read(fd=%d,off=%d,req=%d)=%d%s" % (fd, off, req, ret, " errno=%s" % ERRNAME.get(a[2], a[2]) if a and ret < 0 and a[2] else ""))
            elif t == 3:
                i += 2
            elif t == 4:
                i += 1
                if opens:
                    notes.append("open called again while descriptor %d is open (the script had no answer left for it), after %s" % (opens[0], events[-1] if events else "nothing"))
            elif t == 5:
                i += 4
            else:
                return None
        # skip the buffer
        n = rhs[i]
        if mode == 0:
            buf = rhs[i + 1:i + 1 + n]; i += 1 + n
            if returned and any(v < 0 for v in buf):
                notes.append("returned with %d of %d bytes not delivered by the device" % (sum(v < 0 for v in buf), n))
        else:
            nf = rhs[i + 3]; i += 4 + nf; nl = rhs[i]; i += 1 + nl + 1
    if len(opens) > 1:
        notes.insert(0, "%d successful opens (descriptors %s): the property allows at most 1" % (len(opens), ", ".join(map(str, opens))))
    return "; ".join(dict.fromkeys(notes)) or None


def _run(ctx, res, label, exe, env_extra=None):
    e = dict(os.environ)
    e.update(env_extra or {})
    e.setdefault("ASAN_OPTIONS", "detect_leaks=1:abort_on_error=0:exitcode=97")
    e.setdefault("UBSAN_OPTIONS", "print_stacktrace=1:halt_on_error=1:exitcode=98")
    t0 = time.time()
    try:
        h = subprocess.run([exe], capture_output=True, text=True, env=e, timeout=3000)
    except subprocess.TimeoutExpired:
        res.harness_rc = -9
        res.harness_err += "[%s] harness timeout\n" % label
        return
    t1 = time.time()
    crashes = [l for l in h.stderr.splitlines() if l.startswith("RBCRASH ")]
    for c in crashes[:5]:
        # a sanitizer report / abort inside randombytes while a script was being played
        ctx.setdefault("failing_inputs", []).append(
            {"kind": "runtime", "line": c, "stderr": h.stderr[-3000:],
             "note": "nfl::randombytes crashed (sanitizer report, signal or timeout) on this script of OS answers"})
    if h.returncode != 0:
        res.harness_rc = h.returncode
        res.harness_err += "[%s] rc=%d\n%s\n" % (label, h.returncode, h.stderr[-3000:])
    lines = [l for l in h.stdout.splitlines() if l.startswith("rb ")]
    ctx["_rb_errno_cov"] = _errno_coverage(lines)
    # heavy (compact, >1 MiB) lines spread evenly over the driver processes
    heavy = [l for l in lines if l.startswith("rb 1 ")]
    light = [l for l in lines if not l.startswith("rb 1 ")]
    chunks = [light[i::NDRIVERS] + heavy[i::NDRIVERS] for i in range(NDRIVERS)]
    parts = [cl.StreamResult() for _ in chunks]
    with ThreadPoolExecutor(max_workers=NDRIVERS) as ex:
        list(ex.map(lambda a: cl.feed_driver(a[0], label, a[1]), zip(parts, chunks)))
    _merge(res, parts)
    res.streams.append({"label": label, "lines": len(lines), "harness_wall_s": round(t1 - t0, 2),
                        "driver_wall_s": round(time.time() - t1, 2), "harness_rc": h.returncode,
                        "compact_lines(>1MiB)": len(heavy)})


def _build(ctx):
    src = os.path.join(cl.REPO, "lib", "prng", "randombytes.cpp")
    exes, errs = cl.build_harnesses([dict(name="randbytes", backend="plain", with_prng=False, with_params=False,
                                          extra_srcs=[src], libs=True,
                                          extra=["-Wl,--wrap=open,--wrap=read,--wrap=sleep"])])
    for k, e in errs.items():
        ctx["problems"].append({"kind": "harness-build", "what": "randbytes harness does not compile/link against lib/prng/randombytes.cpp", "detail": e})
    return exes.get(("randbytes", "plain"))


def streams(ctx, res):
    exe = _build(ctx)
    if not exe:
        return {}
    _run(ctx, res, "randbytes", exe)
    res.specfail.sort(key=lambda f: len(f["line"]))   # the replay keeps the first 20: shortest scripts first
    for f in res.specfail[:3000]:
        v = _diagnose(f["line"])
        if v:
            f["violation"] = v
    # a completed second open (the clause "at most one successful open" broken outright) before the attempts the script left unanswered
    res.specfail.sort(key=lambda f: (0 if "successful opens" in f.get("violation", "") else 1, len(f["line"])))
    return {"error_codes": ctx.pop("_rb_errno_cov", {}),
            "error_code_sets": "open = -1: ENOENT EACCES EMFILE ENFILE EINTR; read = -1: EINTR EAGAIN EIO EBADF EFAULT EISDIR EINVAL; read = 0 / answers >= 0: sometimes a stale errno; sleep returns 0 or 1",
            "script_alphabet": "open fails [errno] | open ok(fd) | read -1 [errno] | read 0 | read 1 | read half | read all | read all-1 | read up to a given pointer offset (+ random count, explicit random bytes in the random part)",
            "descriptor_values": "0, 1, 2, 3, 255, 256, 1023, 1024, 32767, 32768, 65535, 65536, 2147483647 (class histogram: fd=0|1|2|small|large|INT_MAX on every multi-call line)",
            "request_sizes": "0, 1, 32 (full buffers), 2^20+5 (compact buffers); random part: 0..1000, 2^20-1, 2^20, 2^20+1, 2^20+5, 2^21+3",
            "bounded_exhaustive": "quick: all well-typed scripts of length <= 6 for sizes 0/1/32, <= 3 for 2^20+5, <= 3 for 11 multi-call sequences; thorough: 7 / 5 / 5"}


def search(ctx, res, problems):
    """model/implementation differ or the harness broke without a spec failure: look for a script on which the
    property itself fails, with more random scripts and other seeds"""
    found = []
    exe = _build(ctx)
    if not exe:
        return found
    for s in range(2):
        r2 = cl.StreamResult()
        c2 = {"problems": []}
        _run(c2, r2, "randbytes-search", exe, {"VERIF_SEED": str(ctx["seed"] * 1000 + s + 7), "VERIF_RB_NRAND": "6000",
                                               "VERIF_RB_LBIG": "2", "VERIF_RB_NBIG": "40"})
        for sf in r2.specfail:
            v = _diagnose(sf["line"])
            found.append({"kind": "spec", **sf, **({"violation": v} if v else {})})
        found += c2.get("failing_inputs", [])
        if found:
            break
    return found


import props as _props  # noqa: E402  (COMMON_TB)
import sys as _sys  # noqa: E402
_sys.path.insert(0, os.path.dirname(os.path.abspath(__file__)))
import _prng_common as _pc  # noqa: E402

PROP = {
    "streams": streams, "search": search, "translators": _pc.translators_prng,
    "rule": "lib/prng/randombytes.cpp linked with --wrap=open,read,sleep; every script of OS answers is played to the real code in a forked child (static fd = -1 at start; multi-call sequences share it) and to the Lean model; compared: full call log (call, arguments incl. pointer offset and request size, answer), buffer (every byte, -1 = never written), number of answers consumed; scripts the code is still looping on when they end are compared too (it must not have returned). Bounded-exhaustive over {open fails, read -1, 0, 1, half, all} (and {…, count-1, all} for sizes 2 and 32); the value returned by the successful open is a dimension of its own: {0, 1, 2, 3, 255, 256, 1023, 1024, 32767, 32768, 65535, 65536, INT_MAX} x sequences of calls x 0/1 (thorough: 2) failed opens before it x every script of <= 2 (3) read outcomes and 9 fault patterns followed by enough full reads for all calls to return — reads must be issued on exactly that descriptor and no second open may happen; requests above 1 MiB (2^20+5, 2^21+3; thorough also 2^20+1, 2^20+2, 3·2^20): short reads that leave the pointer at a multiple of the chunk, one before, one after, and that leave chunk-1 / chunk / chunk+1 bytes wanted, then nothing / read -1 / read 0 / read 1, then full reads, a second small call after it; + seeded random scripts (random short counts, explicit random bytes, leftovers, 1-4 calls). The ERROR CODE of every failing answer is part of the script (`8 e` on the op line, stored in errno by the wrapper just before it returns -1): open: ENOENT/EACCES/EMFILE/ENFILE/EINTR, read: EINTR/EAGAIN/EIO/EBADF/EFAULT/EISDIR/EINVAL; the first failing read of every enumerated script gets the errno (hash(shape)+seed) mod 7 and, for shapes one outcome below the bound of the family (thorough: up to the bound), every one of the 7; on every descriptor value every fault pattern with a failing read once per read errno, the plain pattern after failed opens once per open errno; later failures, stale errno on read = 0, the result of sleep (0 / 1 = interrupted) from the same hash; random scripts draw all of them at random, also a stale errno on answers >= 0. The model (runCallsA) and the specification forget errno and the sleep result: any dependence of the code on them is a difference. Specification: successful opens <= 1 per process history, reads only on the opened descriptor (SPECFAIL entries carry a `violation` text). distinct = distinct script lines; none is trivial",
    "trusted_base": _props.COMMON_TB + [
        "OS contract (stated in Model/RandomBytes.lean, not verified): open returns -1 (errno set) or a descriptor >= 0; read(fd,p,n) returns -1 (errno set, nothing stored), 0 or 1<=k<=n after storing exactly k bytes at p; sleep returns 0 or the unslept seconds",
        "ld --wrap redirects exactly the open/read/sleep references of randombytes.o to the harness (checked indirectly: every call appears in the compared log; an unwrapped call would read the real /dev/urandom and the buffer comparison would fail)",
        "fork(): each script starts from the initial value of the file-static descriptor",
        _pc.PRNG_AST_TB,
    ],
    "assumptions": ["a failing read stores nothing in the buffer (an environment scribbling into it before returning -1 is not played); no real signal is delivered (EINTR / the interrupted sleep are only the values returned); open never returns a descriptor already in use",
                    "request sizes < 2^31 (the `int i` conversions of the code are exact; requests are capped at 2^20)",
                    "the environment respects the read contract (an answer longer than the request is flagged `overlong` by the model and never produced by the harness)",
                    "termination needs a fair environment (theorem completes_when_enough); on an endless failure sequence the function loops for ever by design (theorems spins_on_open_failures / spins_when_short)"],
}
