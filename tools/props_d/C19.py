"""C19 — key seeding (nfl::randombytes) survives short reads and transient entropy-source failures.

The repository's lib/prng/randombytes.cpp is compiled as is and linked with --wrap=open,read,sleep; the harness
plays scripts of OS answers to it (one forked child per script so that the file-static descriptor starts at -1),
the Lean driver replays the same scripts with the model and evaluates the executable specification on the
implementation's call log and buffer."""
import os, re, subprocess, time
from concurrent.futures import ThreadPoolExecutor
import checklib as cl

NDRIVERS = 12   # the >1 MiB lines cost ~0.3 s each in the driver (lists of 2^20 elements): feed it in parallel


def _merge(res, parts):
    for r in parts:
        res.lines += r.lines
        res.ok += r.ok
        res.modeldiff += r.modeldiff
        res.specfail += r.specfail
        res.bad += r.bad
        for k, v in r.classes.items():
            res.classes[k] = res.classes.get(k, 0) + v
        res.distinct |= r.distinct
        res.distinct_count += r.distinct_count
        res.specfail_total += r.specfail_total
        res.modeldiff_total += r.modeldiff_total
        res.bad_total += r.bad_total
        res.driver_rc = res.driver_rc or r.driver_rc
    for r in parts:
        for s in r.samples:
            if len(res.samples) < 12 and len(s) < 600:
                res.samples.append(s)


def _run(ctx, res, label, exe, env_extra=None):
    e = dict(os.environ)
    e.update(env_extra or {})
    e.setdefault("ASAN_OPTIONS", "detect_leaks=1:abort_on_error=0:exitcode=97")
    e.setdefault("UBSAN_OPTIONS", "print_stacktrace=1:halt_on_error=1:exitcode=98")
    t0 = time.time()
    try:
        h = subprocess.run([exe], capture_output=True, text=True, env=e, timeout=3000)
    except subprocess.TimeoutExpired:
        res.harness_rc = -9
        res.harness_err += "[%s] harness timeout\n" % label
        return
    t1 = time.time()
    crashes = [l for l in h.stderr.splitlines() if l.startswith("RBCRASH ")]
    for c in crashes[:5]:
        # a sanitizer report / abort inside randombytes while a script was being played
        ctx.setdefault("failing_inputs", []).append(
            {"kind": "runtime", "line": c, "stderr": h.stderr[-3000:],
             "note": "nfl::randombytes crashed (sanitizer report, signal or timeout) on this script of OS answers"})
    if h.returncode != 0:
        res.harness_rc = h.returncode
        res.harness_err += "[%s] rc=%d\n%s\n" % (label, h.returncode, h.stderr[-3000:])
    lines = [l for l in h.stdout.splitlines() if l.startswith("rb ")]
    # heavy (compact, >1 MiB) lines spread evenly over the driver processes
    heavy = [l for l in lines if l.startswith("rb 1 ")]
    light = [l for l in lines if not l.startswith("rb 1 ")]
    chunks = [light[i::NDRIVERS] + heavy[i::NDRIVERS] for i in range(NDRIVERS)]
    parts = [cl.StreamResult() for _ in chunks]
    with ThreadPoolExecutor(max_workers=NDRIVERS) as ex:
        list(ex.map(lambda a: cl.feed_driver(a[0], label, a[1]), zip(parts, chunks)))
    _merge(res, parts)
    res.streams.append({"label": label, "lines": len(lines), "harness_wall_s": round(t1 - t0, 2),
                        "driver_wall_s": round(time.time() - t1, 2), "harness_rc": h.returncode,
                        "compact_lines(>1MiB)": len(heavy)})


def _build(ctx):
    src = os.path.join(cl.REPO, "lib", "prng", "randombytes.cpp")
    exes, errs = cl.build_harnesses([dict(name="randbytes", backend="plain", with_prng=False, with_params=False,
                                          extra_srcs=[src], libs=True,
                                          extra=["-Wl,--wrap=open,--wrap=read,--wrap=sleep"])])
    for k, e in errs.items():
        ctx["problems"].append({"kind": "harness-build", "what": "randbytes harness does not compile/link against lib/prng/randombytes.cpp", "detail": e})
    return exes.get(("randbytes", "plain"))


def streams(ctx, res):
    exe = _build(ctx)
    if not exe:
        return {}
    _run(ctx, res, "randbytes", exe)
    res.specfail.sort(key=lambda f: len(f["line"]))   # the replay keeps the first 20: shortest scripts first
    return {"script_alphabet": "open fails | open ok(fd) | read -1 | read 0 | read 1 | read half | read all | read all-1 | read up to a given pointer offset (+ random count, explicit random bytes in the random part)",
            "descriptor_values": "0, 1, 2, 3, 255, 256, 1023, 1024, 32767, 32768, 65535, 65536, 2147483647 (class histogram: fd=0|1|2|small|large|INT_MAX on every multi-call line)",
            "request_sizes": "0, 1, 32 (full buffers), 2^20+5 (compact buffers); random part: 0..1000, 2^20-1, 2^20, 2^20+1, 2^20+5, 2^21+3",
            "bounded_exhaustive": "quick: all well-typed scripts of length <= 6 for sizes 0/1/32, <= 3 for 2^20+5, <= 3 for 11 multi-call sequences; thorough: 7 / 5 / 5"}


def search(ctx, res, problems):
    """model/implementation differ or the harness broke without a spec failure: look for a script on which the
    property itself fails, with more random scripts and other seeds"""
    found = []
    exe = _build(ctx)
    if not exe:
        return found
    for s in range(2):
        r2 = cl.StreamResult()
        c2 = {"problems": []}
        _run(c2, r2, "randbytes-search", exe, {"VERIF_SEED": str(ctx["seed"] * 1000 + s + 7), "VERIF_RB_NRAND": "6000",
                                               "VERIF_RB_LBIG": "2", "VERIF_RB_NBIG": "40"})
        for sf in r2.specfail:
            found.append({"kind": "spec", **sf})
        found += c2.get("failing_inputs", [])
        if found:
            break
    return found


import props as _props  # noqa: E402  (COMMON_TB)

PROP = {
    "streams": streams, "search": search,
    "rule": "lib/prng/randombytes.cpp linked with --wrap=open,read,sleep; every script of OS answers is played to the real code in a forked child (static fd = -1 at start; multi-call sequences share it) and to the Lean model; compared: full call log (call, arguments incl. pointer offset and request size, answer), buffer (every byte, -1 = never written), number of answers consumed; scripts the code is still looping on when they end are compared too (it must not have returned). Bounded-exhaustive over {open fails, read -1, 0, 1, half, all} (and {…, count-1, all} for sizes 2 and 32); the value returned by the successful open is a dimension of its own: {0, 1, 2, 3, 255, 256, 1023, 1024, 32767, 32768, 65535, 65536, INT_MAX} x sequences of calls x 0/1 (thorough: 2) failed opens before it x every script of <= 2 (3) read outcomes and 9 fault patterns followed by enough full reads for all calls to return — reads must be issued on exactly that descriptor and no second open may happen; requests above 1 MiB (2^20+5, 2^21+3; thorough also 2^20+1, 2^20+2, 3·2^20): short reads that leave the pointer at a multiple of the chunk, one before, one after, and that leave chunk-1 / chunk / chunk+1 bytes wanted, then nothing / read -1 / read 0 / read 1, then full reads, a second small call after it; + seeded random scripts (random short counts, explicit random bytes, leftovers, 1-4 calls). distinct = distinct script lines; none is trivial",
    "trusted_base": _props.COMMON_TB + [
        "OS contract (stated in Model/RandomBytes.lean, not verified): open returns -1 or a descriptor >= 0; read(fd,p,n) returns -1, 0 or 1<=k<=n after storing exactly k bytes at p; sleep returns",
        "ld --wrap redirects exactly the open/read/sleep references of randombytes.o to the harness (checked indirectly: every call appears in the compared log; an unwrapped call would read the real /dev/urandom and the buffer comparison would fail)",
        "fork(): each script starts from the initial value of the file-static descriptor",
    ],
    "assumptions": ["request sizes < 2^31 (the `int i` conversions of the code are exact; requests are capped at 2^20)",
                    "the environment respects the read contract (an answer longer than the request is flagged `overlong` by the model and never produced by the harness)",
                    "termination needs a fair environment (theorem completes_when_enough); on an endless failure sequence the function loops for ever by design (theorems spins_on_open_failures / spins_when_short)"],
}
