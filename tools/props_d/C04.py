"""C04 — CRT lift (gmp.hpp): streams, directed search, trusted base."""
import os
import checklib as cl
import _setmpz_common as _sm

try:
    import props as _props
    COMMON_TB = list(_props.COMMON_TB)
except Exception:  # loaded stand-alone
    COMMON_TB = ["Lean 4.33.0 kernel; Mathlib v4.33.0; axioms limited to propext, Classical.choice, Quot.sound",
                 "correspondence check: C++ harness, line protocol, compiled Lean driver"]

QUICK_CONFIGS = "lifts only, every number of 64-bit moduli 25..1000 (GMP pre-filter in the harness); full lines: <u16,4,1..2> <u32,4,1..5> <u32,2,37> <u32,2,64> <u64,4,1..4> <u64,2,25>; ASan/UBSan build (default, non-NFL_OPTIMIZED flags): <u16,4,2> <u32,4,3> <u64,4,2> <u64,2,9>"
THOROUGH_CONFIGS = QUICK_CONFIGS.split(";")[0] + " + <u16,8,2> <u32,8,7> <u32,2,{8,16,64,100,128,200,256,290,291}> <u64,8,5> <u64,2,{8,16,64,128,300,1000}>; ASan/UBSan build of the whole quick set"


def translators(repo):
    """source-level tie of the CRT code: Generated/CrtAst.lean is re-translated from clang's AST of gmp.hpp (GMP::GMP(),
    GMP::poly2mpz(array&, poly const&), GMP::mpz2poly; get_modulus / operator()(cm,i) of poly.hpp inlined; static_log2 of meta.hpp)
    on every run, every GMP call mapped by name through Model/GmpSem.lean; the equalities with the hand model
    (Proofs/CrtAstEq.lean, Proofs/CrtAstEq2.lean: mpz2poly_uW = Crt.mpz2poly for all inputs) and the transported C04 statements
    (Properties/C04Ast.lean, Properties/C04Ast2.lean: the round trips of the generated pair) are then re-checked by `lake build`.
    set_mpz(It,It) and its forwarding overloads / constructors: tools/gen_setmpz_ast.py (see _setmpz_common.py)."""
    import json
    r = cl.run(["python3", os.path.join(cl.HERE, "gen_crt_ast.py"), "--repo", repo])
    info = {"ok": r.returncode == 0}
    if r.returncode != 0:
        info["err"] = (r.stdout + r.stderr)[-2000:]
    else:
        try:
            info.update(json.loads(r.stdout.strip().splitlines()[-1]))
            info.pop("node_kinds", None)
        except Exception as e:
            info["ok"] = False
            info["err"] = "unparsable summary: %s" % e
    out = {"gen_crt_ast": info}
    out.update(_sm.translators_setmpz(repo))
    return out


CRT_AST_TB = ("source-level tie of GMP::GMP(), GMP::poly2mpz(array&, poly const&) (and the translation of GMP::mpz2poly): clang++-14's typed AST "
              "(-ast-dump=json) of the instantiated members for two (Degree, NbModuli) per limb type, tools/gen_crt_ast.py's traversal (mpz_t = integer "
              "variable, std::array<mpz_t,n>::operator[] = list element, poly::operator()(cm,i) and get_modulus(cm) inlined from their bodies, counted "
              "`for` loops over template constants = folds over List.range), the GMP-call mapping table lean/NflVerif/Model/GmpSem.lean (= the GMP "
              "contract above, one definition per GMP function name; mpz_invert = the parameter inv), the per-node integer semantics of "
              "lean/NflVerif/Model/CSem.lean for size_t / unsigned long expressions (sites listed under translators.gen_crt_ast.size_t_sites; the "
              "equality theorems assume as explicit hypotheses that they do not wrap: shift < 2^64, nmoduli*degree < 2^64), and for static_log2 the "
              "recursion argument N/2 read off the instantiated specialisations (clang's JSON omits it for the dependent pattern)")


def _specs(tier):
    if tier == "thorough":
        return [dict(name="crt", backend="serial", sanitize=None, extra=["-DCRT_THOROUGH"]),
                dict(name="crt", backend="plain"),
                # every number of 64-bit moduli 129..1000 (the harness pre-filters with GMP and passes on the first lines
                # of each configuration plus every line that violates range/congruence): ~3 min compile, ~8 min run
                dict(name="crtall", backend="serial", srcs=[os.path.join(cl.HARNESS, "crt.cpp")], sanitize=None,
                     extra=["-DCRT_THOROUGH", "-DCRT_ALL64", "-DCRT_ONLY_ALL64", "-ftemplate-depth=2000"])]
    return [dict(name="crt", backend="serial", sanitize=None),
            dict(name="crt", backend="plain", extra=["-DCRT_SMALL"])] + _chunks()


def _chunks():
    """every number of 64-bit moduli 25..1000 in 8 slices compiled in parallel; run with CRT_NOINIT=1 (lifts only, pre-filtered
    with GMP in the harness: the first lines of every configuration and EVERY line violating range/congruence reach the driver)"""
    return [dict(name="crtc%d" % k, backend="serial", srcs=[os.path.join(cl.HARNESS, "crt.cpp")], sanitize=None,
                 extra=["-DCRT_CHUNK=%d" % k, "-ftemplate-depth=2000"]) for k in range(8)]


def _run(ctx, res, specs, env=None):
    exes, errs = cl.build_harnesses(specs)
    for k, e in errs.items():
        ctx["problems"].append({"kind": "harness-build", "what": "crt harness does not compile for %s" % (k,), "detail": e})
    for (name, b), exe in sorted(exes.items()):
        if name.startswith("crtc"):
            continue
        cl.run_stream(res, "crt/" + b, exe, env=env, trivial=lambda lhs: False)
    chunks = sorted((name, exe) for (name, b), exe in exes.items() if name.startswith("crtc"))
    if chunks:
        e2 = dict(env or {}, CRT_NOINIT="1")
        cl.run_streams_parallel(res, [dict(label="crt/all64-" + name, exe=exe, env=e2, trivial=lambda lhs: False) for name, exe in chunks], workers=8)
    return sorted({b for (_, b) in exes})


def streams(ctx, res):
    # a sanitizer report or an uncaught exception inside the conversions is a violation by itself
    ctx["harness_failure_is_violation"] = "crt harness aborted inside poly2mpz/mpz2poly/set_mpz (sanitizer report or uncaught exception); see stderr"
    b = _run(ctx, res, _specs(ctx["tier"]))
    return {"backends": b, "configurations": THOROUGH_CONFIGS if ctx["tier"] == "thorough" else QUICK_CONFIGS}


def search(ctx, res, problems):
    """A theorem, the audit or the model/implementation tie broke without a failing input: run the large-m ladder
    (maximal pre-reduction sums: all residues p-1, up to 1000 moduli) with fresh seeds and report spec failures."""
    found = []
    for s in range(3):
        r2 = cl.StreamResult()
        _run(ctx, r2, [dict(name="crt", backend="serial", sanitize=None, extra=["-DCRT_THOROUGH"])],
             env={"VERIF_SEED": str(ctx["seed"] * 1000 + 17 + s), "VERIF_TIER": "thorough"})
        for sf in r2.specfail:
            found.append({"kind": "spec", **sf})
        if found:
            break
    for s in range(4):
        if found:
            break
        r3 = cl.StreamResult()
        _run(ctx, r3, _chunks(), env={"VERIF_SEED": str(ctx["seed"] * 1000 + 101 + s)})
        for sf in r3.specfail:
            found.append({"kind": "spec", **sf})
    return found


PROP = {
    "streams": streams,
    "search": search,
    "translators": translators,
    "rule": ("static GMP constants (Q, bits, shift, floor(2^s/Q), lifting integers) read from poly<T,N,M>::gmp and compared with the model's gmpInit "
             "and with their defining properties (L_i = delta_ij mod p_j, L_i < Q); poly2mpz / mpz2poly / set_mpz / mpz constructors / assignments on poly and "
             "poly_p with residue patterns generated by construction (zero, all p-1 = maximal pre-reduction sum, one-hot 1 and p-1, all-but-one p-1, residues of "
             "small integers = the case where the conditional subtraction fires, boundary mix, sparse, random) and integers 0, +-1, Q-1, Q, Q+1, -Q, -Q+-1, 2Q, "
             "+-2^300, +-(Q*2^300+5), +-2^64, 2^64-1, +-2^63, +-p_0, p_0*p_last, +-Q/p_0, random below Q, random of 2*bits(Q) bits of both signs; every "
             "admissible and every rejected size of set_mpz(first,last); ring laws with the library's own +,-,* on residues and the transform-based product, "
             "lifted and compared with big-integer arithmetic mod Q. Every line is checked against the Lean model (equality) and against the executable "
             "statement of the property evaluated on the implementation's answer (0 <= x < Q and x mod p_i = r_i; residues in [0,p_i) with p_i | z - r_i; "
             "x = z mod Q; X = (A o B) mod Q; C = schoolbook negacyclic product of A, B over Z_Q). distinct = distinct op lines, all non-trivial."),
    "trusted_base": COMMON_TB + [
        CRT_AST_TB,
        _sm.SETMPZ_AST_TB,
        "GMP is a contract: mpz_t values are mathematical integers; mpz_mul/_ui, mpz_addmul_ui, mpz_submul, mpz_sub, mpz_tdiv_q(_2exp), mpz_divexact, mpz_cmp are exact; "
        "mpz_sizeinbase(x,2) is the bit length; mpz_fdiv_ui(z,p) is the floor remainder in [0,p); mpz_invert(a,p) returns the inverse in [0,p) when gcd(a,p)=1 "
        "(theorems are stated for ANY function with that contract; the extended-Euclid model is proved to meet it). mpz_init2 sizes are allocation hints only.",
        "unsigned long is 64 bits (LP64), so get_modulus(cm) and op(cm,i) pass through mpz_*_ui unchanged",
        "moduli used by poly<T,N,M> are the first M rows of the regenerated table for T (get_modulus(cm) = params<T>::P[cm]); their pairwise coprimality, primality and size come from C06",
        "exactness of the residue-wise operators (addmod/submod/mulmod) is C03; that invntt(ntt a * ntt b) is the per-modulus negacyclic product is C01 — here both are additionally observed through the liftadd/liftsub/liftmul/liftpmul lines",
    ],
    "assumptions": [
        "inputs of poly2mpz are canonical (every word of slice cm is < p_cm) — the library's own invariant (C02/C09)",
        "NbModuli >= 1 (static_log2<0> has no value: NbModuli = 0 does not compile) and NbModuli <= kMaxNbModuli of the limb type",
        "source-level tie (C04Ast): 1 <= NbModuli < 2^64, bits(Q)+w+floor(log2 m)+1 < 2^64 and NbModuli*Degree < 2^64 (no size_t wrap; proved from p <= 2^w, w <= 64, m <= 2^32 in C04Ast.ctorFits_of_small); words of the polynomial are values of T; mpz2poly_uW = Crt.mpz2poly additionally needs 0 < p <= 2^w for the 16/32-bit instantiations (conversion of the remainder); generated set_mpz = Crt.setMpz needs 0 < p < 2^w, an object of n*m words and a valid iterator range first <= last <= length (C04Ast2 / C15MpzAst); poly::operator=(mpz…) of poly.hpp is not translated (differential stream only)",
        "set_mpz / constructor from std::array<mpz_t,Degree> are uninstantiable in the library (set_mpz(It,It) calls viter->get_mpz_t() on an mpz_t): compile error, outside the run-time property",
    ],
}
