"""C15 — coefficient-list setters: harness/setters.cpp (all lengths 0…n·m+1, boundary values, every source kind,
poly and poly_p, sentinel-prefilled object on the throwing path) against Model/Setters.lean and the directly
written rules in Driver/SettersH.lean."""
import os
import checklib as cl
import _set_common as _sc
import _setmpz_common as _sm

COMMON_TB = [
    "Lean 4.33.0 kernel; axioms limited to propext, Classical.choice, Quot.sound (audited by #print axioms on every run)",
    "no sorry/admit/native_decide/bv_decide/own axioms (grep-audited on every run); `decide +kernel` only on the finite generated moduli tables",
    "correspondence check: C++ harness (built from /repo's working tree on every run, ASan+UBSan), line protocol, compiled Lean driver",
    "generator coverage bounds what the correspondence sees (distribution printed in class_histogram)",
    "g++ 12 code generation and the C/C++ semantics of integer promotion / conversion are modelled, not verified",
]

SRC_LIST = ["set(ptr,ptr)", "set(vector it)", "set(init-list)", "set(array it)", "set(wider uint64 src)", "set(narrower uint8 src)",
            "ctor(ptr,ptr)", "ctor(init-list)", "operator=(init-list)"]
SRC_SCALAR = ["set(v)", "ctor(v)", "operator=(v)", "default ctor"]
SRC_MPZ = ["set_mpz(vector it)", "set_mpz(ptr,ptr)", "set_mpz(init-list)", "set_mpz(array<mpz_class>)", "set_mpz(mpz_class)", "set_mpz(mpz_t)",
           "ctor(mpz_class)", "ctor(mpz_t)", "ctor(init-list<mpz_class>)", "ctor(array<mpz_class>)", "operator=(mpz_class)",
           "operator=(array<mpz_class>)", "operator=(init-list<mpz_class>)", "operator=(mpz_t)"]
FLAG_NAMES = {"0": "value 0", "m": "value p-1", "p": "value p / non-zero multiple of p", "W": "value 2^w-1", "g": "value above every modulus",
              "-": "negative integer", "B": "|z| >= 2^64", "H": "|z| >= 2^128"}


def _configs(tier):
    return [0, 1, 2, 3] + ([4] if tier == "thorough" else [])


def _run(ctx, res, env_extra=None):
    src = os.path.join(cl.HARNESS, "setters.cpp")
    specs = [dict(name="setters%d" % i, backend="serial", srcs=[src], extra=["-DCFG=%d" % i]) for i in _configs(ctx["tier"])]
    exes, errs = cl.build_harnesses(specs)
    for k, e in errs.items():
        ctx["problems"].append({"kind": "harness-build", "what": "setters harness does not compile (%s)" % (k[0],), "detail": e})
    kinds = {}
    for (name, b), exe in sorted(exes.items()):
        h = cl.run_stream(res, name, exe, env=env_extra)
        if h is None:
            continue
        for l in h.stdout.splitlines():
            t = l.split(" ", 8)
            if t[0] == "setlist":
                k = "setlist/%s/%s" % (SRC_LIST[int(t[5])], "poly_p" if t[6] == "1" else "poly")
            elif t[0] == "setscalar":
                k = "setscalar/%s/%s" % (SRC_SCALAR[int(t[5])], "poly_p" if t[6] == "1" else "poly")
            elif t[0] == "setmpz":
                k = "setmpz/%s/%s" % (SRC_MPZ[int(t[4])], "poly_p" if t[5] == "1" else "poly")
            else:
                continue
            kinds[k] = kinds.get(k, 0) + 1
    return kinds


def streams(ctx, res):
    ctx["harness_failure_is_violation"] = "setters harness aborted (sanitizer report or exception other than std::runtime_error escaping a setter)"
    kinds = _run(ctx, res)
    # marginal histograms instead of the product (length class × reduce × value flags)
    lens, flags = {}, {}
    for k, n in res.classes.items():
        parts = k.split(":")
        op = parts[0]
        fl = parts[-1] if op != "setscalar" or parts[-1] != "zero" else "0"
        lc = ":".join(parts[:-1])
        lens[lc] = lens.get(lc, 0) + n
        for c in fl:
            nm = "value-class/" + ("mpz/" if op == "setmpz" else "word/") + FLAG_NAMES.get(c, c)
            flags[nm] = flags.get(nm, 0) + n
    res.classes = {**lens, **flags}
    return {"source_kinds": dict(sorted(kinds.items())),
            "configs": "<uint16_t,8,2> <uint32_t,8,3> <uint32_t,4,1> <uint16_t,4,1> <uint64_t,4,2> <uint64_t,8,1>" +
                       (" <uint64_t,4,4> <uint32_t,2,2>" if ctx["tier"] == "thorough" else ""),
            "api_not_compilable": ["set_mpz/ctor/operator=(std::array<mpz_t,Degree>) (gmp.hpp l.100: viter->get_mpz_t() on mpz_t)",
                                   "poly_p::set(std::array<value_type,Degree>) (no poly::set(std::array) to forward to)",
                                   "std::initializer_list<mpz_t> overloads are declared but never defined"]}


def search(ctx, res, problems):
    found = []
    for s in range(3):
        r2 = cl.StreamResult()
        c2 = dict(ctx)
        c2["problems"] = []
        c2["tier"] = "thorough"
        _run(c2, r2, env_extra={"VERIF_SEED": str(ctx["seed"] * 1000 + s + 7), "VERIF_TIER": "thorough"})
        for sf in r2.specfail:
            found.append({"kind": "spec", **sf})
        if r2.harness_rc != 0:
            found.append({"kind": "runtime", "line": "setters harness aborted", "stderr": r2.harness_err[-2000:]})
        if found:
            break
    return found


def translators(repo):
    out = dict(_sc.translators_set(repo) or {})
    out.update(_sm.translators_setmpz(repo))
    return out


PROP = {
    "streams": streams, "translators": translators, "search": search,
    "rule": "every setter entry point (set / set_mpz / constructors / operator=, poly and poly_p; pointer, vector, initializer-list, std::array, wider and narrower integer sources) × every list length 0…degree·moduli+1 × reduce on/off × value patterns built from 0, 1, p-1, p, p+1, 2p, 2^w-1, lazy words, random (native) and 0, ±1, ±(p-1), ±p, ±2^64, ±multi-hundred-bit, negative multiples of p (big integers); object pre-filled with a random sentinel; each line = one call compared with the model and with the directly written rules; distinct = distinct lines",
    "trusted_base": COMMON_TB + ["GMP: mpz_fdiv_ui(z,p) returns the floor remainder (contract; the harness compares it with an independent floor-mod on every line)",
                                 "std::distance / iterator comparison `viter < last` behave as for random-access iterators (all sources used are contiguous)",
                                 _sm.SETMPZ_AST_TB],
    "assumptions": ["sources are unsigned integer element types (value_type, or wider/narrower unsigned) or mpz_class; reduce_coeffs=false only with native words",
                    "the number of moduli does not exceed the table (enforced by the library's static_assert)",
                    "source-level tie of set_mpz (C15MpzAst): valid iterator range first <= last <= length of the sequence, size and degree*nmoduli below 2^64, the object has its degree*nmoduli words, moduli 0 < p < 2^w (64 bit: 0 < p <= 2^64 suffices; 16/32 bit: p < 2^64 suffices for the equality with the model)"],
}
