"""C17 — concurrent arithmetic on distinct polynomials is race-free and deterministic (partial).

Tie between the theorems and the code:
  * translator tools/gen_footprint.py (valgrind-lackey trace of the real binary) regenerates
    Generated/Footprint.lean; `Nfl.C17.footprint_ok` is re-checked by the kernel on it;
  * harness/conc17.cpp under ThreadSanitizer: real schedules, digests compared with a sequential run."""
import json, os, re
import checklib as cl
import props as _props


def translators(repo):
    r = cl.run(["python3", os.path.join(cl.HERE, "gen_footprint.py"), "--repo", repo, "--tier", os.environ.get("VERIF_TIER", "quick")])
    info = {"ok": r.returncode == 0}
    if r.returncode != 0:
        info["err"] = (r.stdout + r.stderr)[-2000:]
    else:
        try:
            info.update(json.loads(r.stdout.strip().splitlines()[-1]))
        except Exception as e:
            info["ok"] = False
            info["err"] = "unparsable summary: %s" % e
    return {"gen_footprint": info}


def tsan_reports(stderr):
    """split TSan's stderr into individual reports"""
    parts = re.split(r"(?m)^==================\n", stderr)
    return [p.strip() for p in parts if "WARNING: ThreadSanitizer" in p]


def short_report(rep, n=28):
    keep = []
    for l in rep.splitlines():
        if l.startswith("WARNING") or l.strip().startswith(("Read of", "Write of", "Previous", "Atomic", "Location", "SUMMARY", "Mutex")) \
                or re.match(r"\s+#[0-2] ", l) or re.search(r"harness/conc1[78]\.cpp", l):
            keep.append(l.rstrip())
    return "\n".join(keep[:n])


def replay_env(env, first):
    renv = dict(env)
    if first.startswith("conc17 "):
        renv["VERIF_ONLY"] = '"%s"' % " ".join(first.split()[1:3])     # replays that round alone
    elif first.startswith("conc17f ") and len(first.split()) > 4:
        f = first.split()
        renv["VERIF_FIRST"] = '"%s %s %s"' % (f[1], f[3], f[4])         # that first-use round alone, in a fresh process
        renv.pop("VERIF_FIRSTONLY", None)
        renv.pop("VERIF_FIRST_REPS", None)
    return renv


def run_tsan_stream(ctx, res, label, exe, env, what):
    e = {"TSAN_OPTIONS": "exitcode=66 halt_on_error=0 report_signal_unsafe=0", **env}
    rc_before = res.harness_rc
    h = cl.run_stream(res, label, exe, env=e)
    if h is None:
        return 0
    reps = tsan_reports(h.stderr)
    # (run_stream pipes the harness's stdout to the driver: the failing lines come back as SPECFAIL entries)
    failed_lines = [sf["line"] for sf in res.specfail if sf.get("stream") == label]
    if reps:
        lines = failed_lines or [l for l in h.stdout.splitlines() if l and not l.startswith("#")]
        bad = [l for l in lines if not l.rstrip().endswith("=> 1 0")]
        first = (bad[0] if bad else (lines[0] if lines else label))
        ctx.setdefault("failing_inputs", []).append({
            "kind": "tsan-race", "line": first[:400],
            "what": what, "reports": len(reps), "first_report": short_report(reps[0]),
            "replay": "%s %s" % (" ".join("%s=%s" % kv for kv in sorted(replay_env(env, first).items())), exe)})
    verdicts = [l for l in h.stderr.splitlines() if l.startswith(("conc17:", "conc18:"))]
    if verdicts:
        lines = failed_lines or [l for l in h.stdout.splitlines() if l and not l.startswith("#")]
        bad = [l for l in lines if not l.rstrip().endswith("=> 1 0") and not l.startswith("conc18 ")] or lines[:1]
        ctx.setdefault("failing_inputs", []).append({
            "kind": "harness-verdict", "line": (bad[0] if bad else label)[:300], "what": what, "verdict": verdicts[:6],
            "replay": "%s %s" % (" ".join("%s=%s" % kv for kv in sorted(replay_env(env, bad[0] if bad else "").items())), exe)})
    if reps:
        pass
    elif h.returncode not in (0,):
        # digest mismatch / wrong answer without a race report: the SPECFAIL line is the failing input; keep stderr
        ctx.setdefault("harness_notes", []).append("[%s] rc=%d %s" % (label, h.returncode, h.stderr[-600:]))
    if h.returncode in (1, 66) and res.harness_rc in (1, 66) and rc_before == 0:
        # exit codes 1 (harness verdict) and 66 (TSan) are verdicts, reported as failing inputs / SPECFAIL lines,
        # not as an abnormal termination of the harness
        res.harness_rc = 0
    return len(reps)


def streams(ctx, res):
    gen = ctx["gen"].get("gen_footprint", {})
    # a static store observed by the translator is a concrete counter-example to "immutable after program start"
    for off in gen.get("offenders", [])[:2]:
        ctx.setdefault("failing_inputs", []).append({
            "kind": "static-store", "line": "footprint %s %s %s" % (off["backend"], off["cfg"], off["op"]),
            "static_objects_written": sorted({s[0] for s in off["stores"]}), "first_offsets": [s[1] for s in off["stores"]][:8],
            "stores_in_window": off["n"], "offending_windows": len(gen.get("offenders", [])),
            "in_preparation_code": off.get("in_preparation", 0),
            "note": "the FIRST execution of this operation after static initialisation (fresh process, private objects) stores into the executable's static storage (harness/footprint.cpp; backend */wp = native write-protection instrument, otherwise valgrind-lackey trace); Nfl.C17.footprint_ok no longer holds",
            "replay": "python3 tools/gen_footprint.py --repo %s --tier %s --force" % (cl.REPO, ctx["tier"])})
    specs = [dict(name="conc17", backend=b, sanitize="thread") for b in ("serial", "sse", "avx2")]
    # the same source without a sanitizer (own name: build_harness keeps one binary per (name, backend)): first-use rounds at real speed
    specs += [dict(name="conc17n", backend=b, sanitize=None, srcs=[os.path.join(cl.HARNESS, "conc17.cpp")]) for b in ("serial", "avx2")]
    exes, errs = cl.build_harnesses(specs)
    for k, e in errs.items():
        ctx["problems"].append({"kind": "harness-build", "what": "conc17 does not compile for %s" % (k,), "detail": e})
    nrep = 0
    # ThreadSanitizer streams: a happens-before detector does not depend on timing, so the three backends run side by side
    from concurrent.futures import ThreadPoolExecutor
    tsan_jobs = [(b, exe) for (name, b), exe in sorted(exes.items()) if name == "conc17"]

    def one(job):
        b, exe = job
        r = cl.StreamResult()
        n = run_tsan_stream(ctx, r, "conc17/" + b, exe, {"VERIF_SEED": str(ctx["seed"]), "VERIF_TIER": ctx["tier"]},
                            "data race while threads run arithmetic API operations on private polynomials (first-use rounds: conc17f lines)")
        return r, n
    with ThreadPoolExecutor(max_workers=3) as ex:
        parts = list(ex.map(one, tsan_jobs))
    cl.merge_results(res, [r for r, _ in parts])
    nrep = sum(n for _, n in parts)
    # unsanitised first-use rounds: timing matters (lockstep), one after the other
    for (name, b), exe in sorted(exes.items()):
        if name == "conc17n":
            run_tsan_stream(ctx, res, "conc17-native-first-use/" + b, exe,
                            {"VERIF_SEED": str(ctx["seed"]), "VERIF_TIER": ctx["tier"], "VERIF_FIRSTONLY": "1",
                             "VERIF_FIRST_REPS": "24" if ctx["tier"] == "thorough" else "6"},
                            "threads performing the FIRST execution of the arithmetic operations in a process (unsanitised build, lockstep) get results that differ from a sequential process, or crash")
    total_specfail = len(res.specfail)
    if len(res.specfail) > 6:      # keep the replay file readable: a few failing rounds + the race report + the static store
        del res.specfail[6:]
    return {"backends": sorted(b for (_, b) in exes), "tsan_reports": nrep, "failing_rounds": total_specfail,
            "footprint": {k: gen.get(k) for k in ("repo_hash", "cached", "tier", "entries", "ops_per_backend", "configs", "lackey_groups", "wp_configs",
                                                   "fresh_processes", "trace_s", "init_stores",
                                                   "static_loads_in_windows", "static_stores_in_windows", "statics_read",
                                                   "static_range", "between_window_stores")}}


def search(ctx, res, problems):
    """theorem broke (footprint_ok) without the streams having produced a failing input: name the operation"""
    found = []
    for off in ctx["gen"].get("gen_footprint", {}).get("offenders", [])[:2]:
        found.append({"kind": "static-store", "line": "footprint %s %s %s" % (off["backend"], off["cfg"], off["op"]),
                      "static_objects_written": sorted({s[0] for s in off["stores"]})})
    return found


PROP = {
    "streams": streams, "search": search, "translators": translators,
    "rule": "footprint (regenerated on every change of /repo, 3 backends): FIRST execution after static initialisation of every operation (construct, transform, +, -, *, shoup, compare, big-integer conversion, serialise, text output; poly and poly_p), preparation code included, each configuration (group) in a fresh process; instruments: valgrind-lackey store/load trace (degrees 16/32, 2048 u32 and u64 with the inverse transform first; thorough: + 65536) and native write-protection of .data/.bss with a canary (every configuration: one per degree class of the bit-reversal path x limb width - 16/32/512/1024 unrolled, 2048/32768 static 16-bit table, 65536 (1 and 2 moduli; thorough 2^20) 32-bit table). runtime: (a) first-use rounds - per degree class a fresh process whose main thread executes nothing; pairs of worker threads per type, released by a barrier, perform the first execution of every operation (prologue) then a mixed sequence; digests compared with a SEPARATE sequential process; under ThreadSanitizer (3 backends) and unsanitised in lockstep (2 backends x 6 repetitions; thorough 24); (b) 2..16 threads x rounds, each thread a seeded mixed sequence of API operations on private objects in 7 configurations (poly/poly_p, 16/32/64-bit limbs, degree 64..2048), digests compared with the same sequences run sequentially, under ThreadSanitizer, three backends; distinct = distinct (threads, round-seed) rounds",
    "trusted_base": _props.COMMON_TB + [
        "PARTIAL: the theorems are about the interleaving model of Model/Conc.lean (atomic accesses, sequentially consistent memory); that a real execution is such an interleaving at this granularity is not proved; real schedules are observed under ThreadSanitizer (happens-before detector: flags a conflicting unordered pair whatever the timing of that run, but only on code paths the run executes)",
        "valgrind 3.19 lackey reports every load/store of the traced run; readelf/nm give the static storage range and symbols of the non-PIE harness; mprotect(PROT_READ) makes every store into a page fault with the exact address (stores performed by the kernel on behalf of a system call would fail instead of being recorded; the canary operation shows on every run that user-mode stores are seen); the footprint of the traced runs (fixed inputs, first execution in a fresh process, one configuration per degree class x limb width) is taken as the footprint of the operation",
        "statics internal to libc / libstdc++ / libgmp (malloc arenas, locale, GMP allocation hooks) and heap blocks reachable from NFLlib's statics (GMP limbs of poly::gmp) are outside the traced range: covered by the libraries' thread-safety contract and, at run time, by ThreadSanitizer's interception of malloc/free",
        "ThreadSanitizer (gcc 12 libtsan) instruments the NFLlib headers and lib/*.cpp as compiled into the harness; uninstrumented code (libgmp, the Salsa20 assembly) is invisible to it",
    ],
    "assumptions": ["no two threads touch the same polynomial object or poly_p handle (handles that share a payload belong to one thread)",
                    "threads are started after static initialisation has completed (after main has been entered)"],
}
