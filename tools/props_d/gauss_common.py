"""Shared by C10.py / C11.py: build + run harness/gauss.cpp (ASan+UBSan+LSan, scripted nfl::fastrandombytes)."""
import re
import checklib as cl


OUT_SETS = {0: "int32_t", 1: "int64_t,uint64_t", 2: "uint32_t", 3: "int16_t,uint16_t"}


def build_all(ctx):
    """harness/gauss.cpp compiled once per set of output types (in parallel): {set number: exe}; set 0 (int32_t) carries the TV search
    and the lifecycles, sets 1..3 the out_class sweeps and poly<T>::set(gaussian)."""
    import os
    src = [os.path.join(cl.HARNESS, "gauss.cpp")]
    specs = [dict(name="gauss", backend="plain", with_prng=False)]
    specs += [dict(name="gauss_o%d" % k, backend="plain", with_prng=False, srcs=src, extra=["-DGAUSS_OSET=%d" % k]) for k in (1, 2, 3)]
    exes, errs = cl.build_harnesses(specs)
    for k, e in errs.items():
        ctx["problems"].append({"kind": "harness-build", "what": "gauss harness (%s) does not compile" % k[0], "detail": e})
    out = {}
    for k in OUT_SETS:
        exe = exes.get(("gauss" if k == 0 else "gauss_o%d" % k, "plain"))
        if exe:
            out[k] = exe
    return out


def build(ctx):
    return build_all(ctx).get(0)


def run_all(ctx, res, exes, mode, env=None):
    for k in sorted(exes):
        run_mode(ctx, res, exes[k], mode, env=env, label="gauss/%s%s" % (mode, "" if k == 0 else "/out=" + OUT_SETS[k]))


# out_class x index width x depth: every instantiation must have decoded a string that lands in a FLAGGED cell (full comparison)
# and yields a NEGATIVE sample (classes are reported by the driver from the model's own decode)
OUT_NAMES = ["i32", "i64", "u64", "u32", "i16", "u16"]


def neg_flagged_coverage(ctx, res, op_marker):
    """op_marker: substring that selects the classes of the stream (gdec: ':negative' on a probe class; gn: '+full:negative')"""
    missing = []
    table = {}
    for o in OUT_NAMES:
        for W in (256, 65536):
            for d in (1, 2):
                pre = "W=%d:depth=%d:out=%s:" % (W, d, o)
                n = sum(v for k, v in res.classes.items() if pre in k and op_marker in k)
                table["%s/W=%d/depth=%d" % (o, W, d)] = n
                if n == 0:
                    missing.append(pre)
    if missing:
        ctx["problems"].append({"kind": "coverage", "what": "no string in a flagged cell with a negative sample for: " + ", ".join(missing)})
    return table


def run_mode(ctx, res, exe, mode, env=None, label=None, collect=None):
    """one harness process; a sanitizer abort / leak report becomes a concrete failing input (the last PARAMS line:
    for a leak that is the first lifecycle whose allocator accounting left sampler memory allocated, if there is one).
    `collect` = (prefix, list): the op lines starting with prefix are also appended to the list."""
    before = res.harness_rc
    res.harness_rc = 0

    def keep(l):
        if collect and l.startswith(collect[0]):
            collect[1].append(l)
        return True
    h = cl.run_stream(res, label or ("gauss/" + mode), exe, args=[mode], env=env, trivial=lambda lhs: False, line_filter=keep if collect else None)
    rc = res.harness_rc
    if rc != 0 and h is not None:
        params = [l[7:] for l in h.stderr.splitlines() if l.startswith("PARAMS ")]
        san = [l.strip() for l in h.stderr.splitlines() if "ERROR: " in l or "runtime error" in l or l.startswith("SUMMARY:")]
        ctx.setdefault("failing_inputs", []).append({
            "kind": "sanitizer" if san else "harness-abort",
            "line": "%s mode=%s :: %s" % (san[0] if san else "rc=%s" % rc, mode, params[-1] if params else "(no PARAMS line)"),
            "last_calls": params[-3:], "report": san[:4], "stderr_tail": h.stderr[-1500:]})
    res.harness_rc = before or rc
    return h


def poly_coverage(ctx, res):
    """gpoly lines per coefficient type / index width / depth whose run contains a negative sample decoded in a flagged cell"""
    table = {}
    for T in ("u64", "u32", "u16"):
        for W in (256, 65536):
            for d in (1, 2):
                pre = "W=%d:depth=%d:poly<%s>:" % (W, d, T)
                table["poly<%s>/W=%d/depth=%d" % (T, W, d)] = sum(v for k, v in res.classes.items() if pre in k and "+full:negative" in k)
    missing = [k for k, v in table.items() if v == 0]
    if missing:
        ctx["problems"].append({"kind": "coverage", "what": "poly::set(gaussian) never saw a negative sample from a flagged cell for: " + ", ".join(missing)})
    return table


def _is_pow2(m):
    return m > 0 and m & (m - 1) == 0


def gtv_summary(lines):
    """gtv W lam m sn sd cn cd ctor => ratio_ppm wp nb hypOK bitprec"""
    worst, n, over, over_known = None, 0, 0, 0
    by_m = {"power of two": [0, 0, 0], "not a power of two": [0, 0, 0]}
    for l in lines:
        if not l.startswith("gtv "):
            continue
        a = l.split("=>")[0].split()
        r = int(l.split("=>")[1].split()[0])
        n += 1
        b = by_m["power of two" if _is_pow2(int(a[3])) else "not a power of two"]
        b[0] += 1
        b[2] = max(b[2], r if a[8] != "2" else 0)
        if r > 1000000:
            if a[8] == "2":
                over_known += 1
                continue
            over += 1
            b[1] += 1
        if a[8] != "2" and (worst is None or r > worst[0]):
            worst = (r, l)
    return {"parameter_sets": n, "exceeding_bound": over,
            "exceeding_bound_mpfr256_centre(known finding)": over_known,
            "by_sample_budget": {k: {"parameter_sets": v[0], "exceeding_bound": v[1], "max_ratio_to_bound": v[2] / 1e6} for k, v in by_m.items()},
            "max_ratio_to_bound": (worst[0] / 1e6) if worst else None, "worst_line": worst[1] if worst else None}


def search_more(ctx, modes, build_fn=build_all):
    """re-run with other seeds in the thorough tier and return spec failures / model-vs-implementation differences."""
    found = []
    exes = build_fn(ctx)
    if not exes:
        return found
    for s in range(2):
        r2 = cl.StreamResult()
        c2 = {"problems": [], "failing_inputs": []}
        for m in modes:
            for k in sorted(exes):
                if m == "tv" and k != 0:
                    continue
                run_mode(c2, r2, exes[k], m, env={"VERIF_SEED": str(ctx["seed"] * 1000 + 17 + s)})
        for sf in r2.specfail:
            found.append({"kind": "spec", **sf})
        for md in r2.modeldiff:
            found.append({"kind": "implementation-differs-from-verified-model", **md})
        found += c2["failing_inputs"]
        if found:
            break
    return found


# ---------------------------------------------------------------------------------------------------------------------
# source-level tie of the sampling path (C10 / C11): tools/gen_gauss_ast.py (appended; nothing above is changed)
def translators_gauss(repo):
    """Generated/GaussAst.lean is re-translated from clang's AST of include/nfl/prng/FastGaussianNoise.hpp on every run (cmp and the
    sampling path of getNoise for three instantiations); the equalities with the hand model (Proofs/GaussAstEq.lean, incl. the
    `*_eq_G : … := rfl` ties of the generated text to its parameterised form) and the transported statements (Properties/C10Ast.lean)
    are then re-checked by `lake build`."""
    import json as _json, os as _os
    r = cl.run(["python3", _os.path.join(cl.HERE, "gen_gauss_ast.py"), "--repo", repo])
    info = {"ok": r.returncode == 0}
    if r.returncode != 0:
        info["err"] = (r.stdout + r.stderr)[-2000:]
    else:
        try:
            info.update(_json.loads(r.stdout.strip().splitlines()[-1]))
            info.pop("node_kinds", None)
        except Exception as e:
            info["ok"] = False
            info["err"] = "unparsable summary: %s" % e
    return {"gen_gauss_ast": info}


GAUSS_AST_TB = ("source-level tie of FastGaussianNoise::cmp / ::getNoise (sampling path): clang++-14's typed AST (-ast-dump=json) of "
                "include/nfl/prng/FastGaussianNoise.hpp instantiated for <uint8_t,int32_t,1>, <uint16_t,int64_t,2>, <uint8_t,uint64_t,2>, "
                "tools/gen_gauss_ast.py's traversal and its conventions (pieces pre / cond / one loop iteration; members and live locals "
                "= parameters; `for (int i = 0; i < B; i++)` and the range-for over std::list = CG.forEach; if with break/return = rest of "
                "the block copied into both branches; fastrandombytes = DATA in the call log, no read after it in a piece; float product "
                "= the PARAMETER innoise_words_f; if (_verbose) I/O, rdtsc, delete[] skipped and listed under translators.gen_gauss_ast.not_translated), "
                "the per-node semantics of lean/NflVerif/Model/CSem.lean + CSemGauss.lean (pointer = object cells + offset, access outside "
                "the object = none; signed ++ read as wrap-around at translators.gen_gauss_ast.ub_wrap_assumed; new[] cells modelled as 0); "
                "NOT translated: init / precomputeBarrierValues (MPFR), buildLookupTables (hand model only), the while loop itself "
                "(hand-written recursion of Model/Gauss.lean, tied to the generated body by Nfl.C10Ast.iter_ast_eq_*)")
