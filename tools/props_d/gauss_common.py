"""Shared by C10.py / C11.py: build + run harness/gauss.cpp (ASan+UBSan+LSan, scripted nfl::fastrandombytes)."""
import re
import checklib as cl


def build(ctx):
    exes, errs = cl.build_harnesses([dict(name="gauss", backend="plain", with_prng=False)])
    for k, e in errs.items():
        ctx["problems"].append({"kind": "harness-build", "what": "gauss harness does not compile", "detail": e})
    return exes.get(("gauss", "plain"))


def run_mode(ctx, res, exe, mode, env=None, label=None, collect=None):
    """one harness process; a sanitizer abort / leak report becomes a concrete failing input (the last PARAMS line:
    for a leak that is the first lifecycle whose allocator accounting left sampler memory allocated, if there is one).
    `collect` = (prefix, list): the op lines starting with prefix are also appended to the list."""
    before = res.harness_rc
    res.harness_rc = 0

    def keep(l):
        if collect and l.startswith(collect[0]):
            collect[1].append(l)
        return True
    h = cl.run_stream(res, label or ("gauss/" + mode), exe, args=[mode], env=env, trivial=lambda lhs: False, line_filter=keep if collect else None)
    rc = res.harness_rc
    if rc != 0 and h is not None:
        params = [l[7:] for l in h.stderr.splitlines() if l.startswith("PARAMS ")]
        san = [l.strip() for l in h.stderr.splitlines() if "ERROR: " in l or "runtime error" in l or l.startswith("SUMMARY:")]
        ctx.setdefault("failing_inputs", []).append({
            "kind": "sanitizer" if san else "harness-abort",
            "line": "%s mode=%s :: %s" % (san[0] if san else "rc=%s" % rc, mode, params[-1] if params else "(no PARAMS line)"),
            "last_calls": params[-3:], "report": san[:4], "stderr_tail": h.stderr[-1500:]})
    res.harness_rc = before or rc
    return h


def _is_pow2(m):
    return m > 0 and m & (m - 1) == 0


def gtv_summary(lines):
    """gtv W lam m sn sd cn cd ctor => ratio_ppm wp nb hypOK bitprec"""
    worst, n, over, over_known = None, 0, 0, 0
    by_m = {"power of two": [0, 0, 0], "not a power of two": [0, 0, 0]}
    for l in lines:
        if not l.startswith("gtv "):
            continue
        a = l.split("=>")[0].split()
        r = int(l.split("=>")[1].split()[0])
        n += 1
        b = by_m["power of two" if _is_pow2(int(a[3])) else "not a power of two"]
        b[0] += 1
        b[2] = max(b[2], r if a[8] != "2" else 0)
        if r > 1000000:
            if a[8] == "2":
                over_known += 1
                continue
            over += 1
            b[1] += 1
        if a[8] != "2" and (worst is None or r > worst[0]):
            worst = (r, l)
    return {"parameter_sets": n, "exceeding_bound": over,
            "exceeding_bound_mpfr256_centre(known finding)": over_known,
            "by_sample_budget": {k: {"parameter_sets": v[0], "exceeding_bound": v[1], "max_ratio_to_bound": v[2] / 1e6} for k, v in by_m.items()},
            "max_ratio_to_bound": (worst[0] / 1e6) if worst else None, "worst_line": worst[1] if worst else None}


def search_more(ctx, modes, build_fn=build):
    """re-run with other seeds in the thorough tier and return spec failures / model-vs-implementation differences."""
    found = []
    exe = build_fn(ctx)
    if not exe:
        return found
    for s in range(2):
        r2 = cl.StreamResult()
        c2 = {"problems": [], "failing_inputs": []}
        for m in modes:
            run_mode(c2, r2, exe, m, env={"VERIF_SEED": str(ctx["seed"] * 1000 + 17 + s)})
        for sf in r2.specfail:
            found.append({"kind": "spec", **sf})
        for md in r2.modeldiff:
            found.append({"kind": "implementation-differs-from-verified-model", **md})
        found += c2["failing_inputs"]
        if found:
            break
    return found
