"""C09 — everything that creates a polynomial yields canonical, CRT-consistent residues."""
import os, sys
sys.path.insert(0, os.path.dirname(os.path.dirname(os.path.abspath(__file__))))
import _set_common as sc
import samplers_streams as ss
from props import COMMON_TB


# C09 judges the fixed-weight lines with its own statement (canonical, one signed value +-1 per coefficient for every
# modulus, weight h); WHICH positions are chosen is C12's statement (handlers hwt / hwtw add it to the spec verdict)
RENAME = {"hwt": "hwt9", "hwtw": "hwtw9"}


def streams(ctx, res):
    return ss.run(ctx, res, ops=None, want=("canonical",), rename=RENAME)


def search(ctx, res, problems):
    return ss.search(ctx, res, problems, ops=None, want=("canonical",), rename=RENAME)


PROP = {
    "streams": streams, "search": search, "translators": sc.translators_set,
    "rule": "real creators (poly / poly_p constructors, set, operator=) run with nfl::fastrandombytes replaced at link time by a scripted tape: all 2^16 words for uniform and for 19 (B,A) pairs on the 16-bit limb, all 256 bytes x all 256 rho, boundary words (0,1,p-1,p,p+1,mask,mask+1,2^w-1,…) on 32/64 bit, B in powers of two and neighbours up to 2^20 (2^61 thorough) and 2^47..2^61 on uint64, A in {1,2,3,1024}, all (n<=8,h) index tuples with rejection-zone words, fixed weight / uniform / bounded / ternary at the largest degrees of every limb (512, 32768, 2^17; 2^20 thorough), fixed weight with the extreme weights (h = n, n-1; more classes at 64..512 and in the thorough tier) at every degree class 64..2^17, bounds at/beyond the limb width (must throw), ternary rho = 0 / 255 at the largest degrees and uniform with every row of the 32/64-bit tables as a modulus, real FastGaussianNoise on the same tape, scalars/lists/mpz; every line: model equality + executable spec (canonical, one signed integer in the support for all moduli) on the implementation's output; the mask of set(uniform) of all 1293 rows extracted bit by bit from the real code and compared with the model (Nat.log2) and with an integer bit length; excluded points (A*(B-1)>=p, A=0, B=0, |v|*amp>=p) are run and reported in class_histogram, not judged; distinct = distinct op lines",
    "trusted_base": COMMON_TB + [
        "source-level tie of the per-coefficient arithmetic of set(uniform / non_uniform / gaussian / ZO_dist / hwt_dist / value / It,It): clang++-14's typed AST (-ast-dump=json) of the instantiated members of poly<T,8,2> (poly<T,16,1> must give the same text), tools/gen_set_ast.py's traversal and its slice convention (a piece = one iteration of the loops over i / cm; loop variables only in array indices and get_modulus; index expressions checked; cells written inside a loop depend on its variable; `*ptr++` = the cell the walking pointer designates), the per-node integer semantics of lean/NflVerif/Model/CSem.lean + CSemSet.lean (variable shift counts and divisors listed under translators.gen_set_ast.ub_*_sites; unsigned->signed conversion modular), std::numeric_limits<size_t>::max() = 2^64-1; the if/else joining the two loop bodies of set(non_uniform) is re-assembled by hand (Nfl.C09Ast.bnd_uW); loops, request sizes, refills, sort and the composition into whole polynomials are NOT translated (hand model + differential stream)",
        "floor(log2((double) p)) enters the translated mask of set(uniform) as a function parameter `flog2`; the equality with the model is proved under `flog2 p = Nat.log2 p`",
        "floor(log2((double)p)) of set(uniform) is modelled by Nat.log2: validated on all 1293 rows by the umask stream on every run, not proved",
        "the harness's replacement of nfl::fastrandombytes serves the scripted bytes in call order and records them (the recorded requests, not the script, are what the model receives)",
        "FastGaussianNoise::getNoise is not modelled here: the noise it wrote (same object, same tape) is a parameter of the model",
        "the driver evaluates array-backed versions of the models and spec predicates, proved equal to them for all inputs (Nfl.Samplers.setHwtFast_eq, …, Nfl.Spec.Samplers.canonicalA_eq, …)",
        "GMP mpz_fdiv_ui contract (floored remainder) and std::sort contract (ascending permutation)",
    ],
    "assumptions": [
        "moduli as in params.hpp: 2 <= p, 4p <= 2^w, w <= 64 (theorem tables_modOK proves it for the regenerated tables)",
        "bounded: 1 <= B < p (else the code throws), 1 <= A, A*(B-1) < p for every modulus (precondition of non_uniform, not checked by the code)",
        "Gaussian: |noise_i|*amp < p for every modulus (not checked by the code)",
        "fixed weight: 0 < h <= degree (assert in the code); the tape is long enough for the rejection loop to terminate",
        "values: reduction enabled",
    ],
}
