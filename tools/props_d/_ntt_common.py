"""Shared stream builder for C01/C02 (and reused by C05): harness/ntt.cpp on three backends."""
import json, os
import checklib as cl

NTT_SPECS = [dict(name="ntt", backend=b, sanitize=None, extra=(["-DMIN16=8", "-DMIN32=8"] if b != "serial" else []))
             for b in ("serial",) + cl.simd_backends()]


def ntt_streams(ctx, res, ops, seeds=None, tier=None):
    exes, errs = cl.build_harnesses(NTT_SPECS)
    for k, e in errs.items():
        ctx["problems"].append({"kind": "harness-build", "what": "ntt harness does not compile for %s" % (k,), "detail": e})
    flt = lambda l: l.split(" ", 1)[0] in ops
    jobs = []
    for sd in (seeds or [ctx["seed"]]):
        for (name, b), exe in sorted(exes.items()):
            env = {"VERIF_SEED": str(sd)}
            if tier:
                env["VERIF_TIER"] = tier
            jobs.append(dict(label="ntt/%s/seed%s" % (b, sd), exe=exe, env=env, line_filter=flt))
    cl.run_streams_parallel(res, jobs)
    return {"backends": sorted(b for (_, b) in exes)}


def translators_ntt(repo):
    """source-level tie of the SCALAR transform kernels: Generated/NttAst.lean is re-translated from clang's AST of
    ntt_loop_body<simd::serial>::operator() (algos.hpp) and of the straight-line blocks of poly::core::ntt (core.hpp:
    degree-2 block, body of the last-two-layers loop, NTT_STRICTMOD statement) on every run; the equalities with the hand
    model (Proofs/NttAstEq.lean) and the transported per-block C02 facts (Properties/C02Ast.lean) are then re-checked by
    `lake build`.  The loop structure (indices, table-pointer advance, bit reversal) stays hand-modelled."""
    r = cl.run(["python3", os.path.join(cl.HERE, "gen_ntt_ast.py"), "--repo", repo])
    info = {"ok": r.returncode == 0}
    if r.returncode != 0:
        info["err"] = (r.stdout + r.stderr)[-2000:]
    else:
        try:
            info.update(json.loads(r.stdout.strip().splitlines()[-1]))
            info.pop("node_kinds", None)
        except Exception as e:
            info["ok"] = False
            info["err"] = "unparsable summary: %s" % e
    out = {"gen_ntt_ast": info}
    import _init_common as ic          # the tables the transforms read: core::initialize() / prep_wtab (Generated/InitAst.lean)
    out.update(ic.translators_init(repo))
    return out


NTT_AST_TB = ("source-level tie of the scalar transform kernels (arithmetic blocks only): clang++-14's typed AST (-ast-dump=json) of the "
              "instantiated ntt_loop_body<simd::serial>::operator() and poly::core::ntt, tools/gen_ntt_ast.py's traversal and its "
              "block-extraction convention (one cell per (pointer, constant index); all reads before all writes, checked; written cells "
              "distinct), the per-node integer semantics of lean/NflVerif/Model/CSem.lean (signed `int` overflow read as wrap-around at the "
              "sites listed under translators.gen_ntt_ast.ub_wrap_assumed; unsigned->signed conversion modular); the loop structure, the "
              "table-pointer advance and the bit reversal are NOT translated (hand model + differential stream); the TABLES the transforms read are tied to "
              "core::initialize() / core::prep_wtab by tools/gen_init_ast.py (Nfl.C06Ast.tables_ast: generated builder = hand model's initTables)")


# ---- loop structure of the scalar transform (appended): the three generators in dependency order
_translators_ntt_blocks = translators_ntt


def translators_ntt(repo):
    """source-level tie of the SCALAR transform, blocks AND loops: gen_ntt_ast.py (straight-line blocks, Generated/NttAst.lean),
    gen_permut_ast.py (permut.hpp: unrolled template recursion and table builder, Generated/PermutAst.lean) and gen_nttloop_ast.py
    (ntt_loop<serial>::run, core::ntt, core::inv_ntt with pointers as (array, offset), `degree` a parameter, the blocks called —
    Generated/NttLoopAst.lean; index expressions run for every degree 2^1..2^15: bounds, shift counts, loop-variable wrap) are re-run
    on every check; the equalities with the hand model for every degree (Proofs/NttLoopAstEq.lean, PermutAstEq.lean,
    Properties/C02LoopAst.lean) and the end-to-end C02/C01 statements about the translated transform are re-checked by `lake build`."""
    out = _translators_ntt_blocks(repo)
    for name in ("gen_permut_ast", "gen_nttloop_ast"):
        r = cl.run(["python3", os.path.join(cl.HERE, name + ".py"), "--repo", repo])
        info = {"ok": r.returncode == 0}
        if r.returncode != 0:
            info["err"] = (r.stdout + r.stderr)[-2000:]
        else:
            try:
                info.update(json.loads(r.stdout.strip().splitlines()[-1]))
                info.pop("node_kinds", None)
            except Exception as e:
                info["ok"] = False
                info["err"] = "unparsable summary: %s" % e
        out[name] = info
    return out


NTT_AST_TB = NTT_AST_TB.replace(
    "; the loop structure, the table-pointer advance and the bit reversal are NOT translated (hand model + differential stream)", "") + (
    "; loop structure (tools/gen_nttloop_ast.py, gen_permut_ast.py): lean/NflVerif/Model/CSemLoop.lean and CSemPermut.lean (a pointer is "
    "(array, offset), exact pointer arithmetic, out-of-range read = 0 / write dropped — excluded by the translator's concrete run of the "
    "index expressions for the degrees 2^1..2^15 only; canonical `for` loops as folds; `1 << w` in int as wrap-around, outside the proved "
    "range k <= 32), distinct pointer parameters are distinct arrays, the r_loop/r_set template recursion is read off the instantiated "
    "specialisations of degree 16 and 64, permut_compute's idx_type is uint16_t (degrees 2^11..2^15), the element-wise twist "
    "(mulShoupList) and core::initialize's tables stay the hand model's")


# ---- the two public entry points (appended): the generated evaluator of the twist statement, then the glue
_translators_ntt_loops = translators_ntt


def translators_ntt(repo):
    """… and the PUBLIC ENTRY POINTS core::ntt_pow_phi / core::invntt_pow_invphi (tools/gen_entry_ast.py -> Generated/EntryAst.lean): the
    twist statement `op = shoup(op * phis, shoupphis)` as a call of the generated expression-template evaluator (gen_simd_ast, gen_bool_ast,
    gen_expr_ast are re-run first: Generated/ExprAst.lean), the loop over the moduli as a fold calling the generated core::ntt / core::inv_ntt
    on the slice &op(cm,0) with row cm of the tables; the equalities with the hand model's nttPowPhi / invnttPowInvphi slice by slice
    (Proofs/EntryAstEq.lean, Properties/C01Ast.lean) are re-checked by `lake build`."""
    out = _translators_ntt_loops(repo)
    for name in ("gen_simd_ast", "gen_bool_ast", "gen_expr_ast", "gen_entry_ast"):
        r = cl.run(["python3", os.path.join(cl.HERE, name + ".py"), "--repo", repo])
        info = {"ok": r.returncode == 0}
        if r.returncode != 0:
            info["err"] = (r.stdout + r.stderr)[-2000:]
        else:
            try:
                info.update(json.loads(r.stdout.strip().splitlines()[-1]))
                info.pop("node_kinds", None)
            except Exception as e:
                if name in ("gen_expr_ast", "gen_entry_ast"):
                    info["ok"] = False
                    info["err"] = "unparsable summary: %s" % e
        if name in ("gen_expr_ast", "gen_entry_ast") or not info["ok"]:
            out[name] = info
    return out


NTT_AST_TB = NTT_AST_TB.replace("the element-wise twist (mulShoupList) and core::initialize's tables stay the hand model's",
    "entry points (tools/gen_entry_ast.py): lean/NflVerif/Model/CSemEntry.lean (the static tables are one InitRow per modulus; "
    "reinterpret_cast<poly const&>(F[nmoduli][degree]) is the concatenation of the rows; a pointer into an array handed to core::ntt / "
    "core::inv_ntt is the window [o, o+degree) resp. the suffix seen from offset 0 — the callees' index expressions are run by "
    "gen_nttloop_ast.py for 2^1..2^15 and stay in [0, degree)), callees / members / get_modulus mapped BY NAME, the twist statement bound to "
    "Generated/ExprAst.lean's evaluator of the same shape by the operator= clang selected")
