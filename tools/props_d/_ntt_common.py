"""Shared stream builder for C01/C02 (and reused by C05): harness/ntt.cpp on three backends."""
import checklib as cl

NTT_SPECS = [dict(name="ntt", backend=b, sanitize=None, extra=(["-DMIN16=8", "-DMIN32=8"] if b != "serial" else []))
             for b in ("serial",) + cl.simd_backends()]


def ntt_streams(ctx, res, ops, seeds=None, tier=None):
    exes, errs = cl.build_harnesses(NTT_SPECS)
    for k, e in errs.items():
        ctx["problems"].append({"kind": "harness-build", "what": "ntt harness does not compile for %s" % (k,), "detail": e})
    flt = lambda l: l.split(" ", 1)[0] in ops
    jobs = []
    for sd in (seeds or [ctx["seed"]]):
        for (name, b), exe in sorted(exes.items()):
            env = {"VERIF_SEED": str(sd)}
            if tier:
                env["VERIF_TIER"] = tier
            jobs.append(dict(label="ntt/%s/seed%s" % (b, sd), exe=exe, env=env, line_filter=flt))
    cl.run_streams_parallel(res, jobs)
    return {"backends": sorted(b for (_, b) in exes)}
