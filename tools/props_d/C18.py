"""C18 — concurrent sampling never reuses keystream (partial).

The theorems are about the locked interleaving model (Model/Prng18.lean).  Tie to the code: harness/conc18.cpp links
/repo's fastrandombytes.cpp + the Salsa20 assembly with a fixed-key nfl::randombytes, runs under ThreadSanitizer,
identifies every returned block among the reference keystreams; the Lean driver evaluates the executable reading of
the theorems' conclusion (Spec/Prng18Spec.lean: histOk) on each observed history."""
import importlib.util, os
import checklib as cl
import props as _props

_spec = importlib.util.spec_from_file_location("props_d_C17_helpers", os.path.join(os.path.dirname(os.path.abspath(__file__)), "C17.py"))
_c17 = importlib.util.module_from_spec(_spec)
_spec.loader.exec_module(_c17)


def first_request_configs(seed, n):
    """n fresh-process configurations of the first-request family (harness/conc18.cpp, VERIF_FIRST / VERIF_SLOWSEED):
    thread count x start mode x stagger x duration and granularity of the seeding call x requests per thread.
    The staggers are chosen relative to the duration D of the seeding call so that first requests arrive before,
    during and after it; a few absolute short ones and immediate delivery keep the natural-speed windows covered."""
    import random
    rnd = random.Random(seed * 7919 + 18)
    modes = [1, 2, 1, 3, 2, 1, 4, 0]               # linear stagger, leader+rest, random delays, no barrier, barrier
    out = []
    for i in range(n):
        T = [2, 3, 4, 6, 8, 12, 16][(i + seed) % 7]
        mode = modes[i % len(modes)]
        prof = i % 16
        if prof == 15:
            pre, chunk, gap = 0, 0, 0                                   # immediate delivery (natural speed)
        elif prof % 3 == 0:
            pre, chunk, gap = rnd.choice([500, 2000, 5000]), 32, 0      # late, in one piece
        elif prof % 3 == 1:
            pre, chunk, gap = rnd.choice([0, 300, 1500]), rnd.choice([16, 8, 4]), rnd.choice([250, 600])   # in pieces
        else:
            pre, chunk, gap = rnd.choice([0, 200]), 1, 60               # byte by byte
        D = pre + ((32 // chunk - 1) * gap if chunk else 0)
        if D == 0 or i % 11 == 10:
            stagger = rnd.choice([2, 10, 40, 150])
        elif mode in (1, 3):
            stagger = max(1, int(D * rnd.choice([0.5, 1.0, 1.6]) / T))  # arrivals spread over [0, f*D]
        else:
            stagger = max(1, int(D * rnd.choice([0.05, 0.3, 0.6, 0.9, 1.2])))
        out.append(dict(T=T, R=rnd.choice([1, 2, 3, 5]), mode=mode, stagger=stagger, slow="%d:%d:%d" % (pre, chunk, gap), seed=seed * 100000 + 1800 + i))
    return out


def streams(ctx, res):
    prng_srcs = [os.path.join(cl.REPO, "lib", "prng", "fastrandombytes.cpp"),
                 os.path.join(cl.REPO, "lib", "prng", "nfl_crypto_stream_salsa20_amd64_xmm6.s")]
    specs = [dict(name="conc18", backend=b, sanitize="thread", with_prng=False, extra_srcs=prng_srcs) for b in ("serial", "avx2")]
    # boundary mode (position in the process's history), unsanitised = real speed: black box (counted advance) and
    # white box (the repository's fastrandombytes.cpp #included: `nonce` presettable, as in C13's harness)
    src = [os.path.join(cl.HARNESS, "conc18.cpp")]
    prng_dir = os.path.join(cl.REPO, "lib", "prng")
    specs += [dict(name="conc18n", backend="serial", sanitize=None, with_prng=False, srcs=src, extra_srcs=prng_srcs),
              dict(name="conc18w", backend="serial", sanitize=None, with_prng=False, srcs=src, extra_srcs=prng_srcs[1:],
                   extra=["-DFRB_WHITEBOX", "-I" + prng_dir])]
    exes, errs = cl.build_harnesses(specs)
    whitebox = "available"
    for k, e in errs.items():
        if k[0] == "conc18w" and ("conc18n", "serial") in exes:
            # the same source compiles as a black box: the white-box handle (static `nonce` of fastrandombytes.cpp) is gone
            whitebox = "unavailable (fastrandombytes.cpp has no presettable static `nonce`: %s); boundaries above 2^24 not reached" % \
                       (" ".join(l.strip() for l in e.splitlines() if "error" in l)[:200])
            continue
        ctx["problems"].append({"kind": "harness-build", "what": "conc18 does not compile for %s" % (k,), "detail": e})
    # the executable spec must reject a reused nonce, a gap, a second seeding, a report (self-test of the tie)
    st = cl.StreamResult()
    selftest = ["conc18 2 0 2 => 1 0 0 0 1 1 0 1", "conc18 2 0 2 => 1 0 0 0 1 1 2 1", "conc18 2 0 2 => 2 0 0 0 1 1 1 1",
                "conc18 2 0 2 => 1 1 0 0 1 1 1 1", "conc18 1 0 2 => 1 0 0 1 1 0 0 1", "conc18 2 0 2 => 1 0 0 1 1 1 0 1",
                # boundary histories around 2^24: good; a new ticket with the old epoch (nonce 0 again); the new epoch too early (a skipped nonce)
                "conc18b 2 16777214 4 24 0 => 1 0 2 16777214 1 0 16777215 1 1 16777216 1 0 16777217 1",
                "conc18b 2 16777214 4 24 0 => 1 0 2 16777214 1 0 16777215 1 1 0 1 0 16777217 1",
                "conc18b 2 16777214 4 24 0 => 1 0 2 16777214 1 0 33554431 1 1 16777216 1 0 16777217 1"]
    cl.feed_driver(st, "selftest", selftest)
    if len(st.specfail) != 7 or st.ok != 2:
        ctx["problems"].append({"kind": "selftest", "what": "executable spec histOk does not reject the bad histories (specfail=%d ok=%d)" % (len(st.specfail), st.ok)})
    thorough = ctx["tier"] == "thorough"
    # ---- first-request family: the START of the process's history under concurrency, with a slow entropy source.
    # One fresh unsanitised process per configuration; every returned buffer goes to the driver (conc18k lines:
    # executable Salsa20 specification under the key randombytes delivered) followed by the history (conc18f).
    # measured on seeded change C18-3 (flag published before the key is written, unlocked fast path), 10 quick runs
    # (seeds 1..10, machine loaded): 267 of the 320 processes report a buffer generated under the all-zero / a partially
    # written key (linear stagger 117/120, leader 71/80, random 39/40, no barrier 33/40, barrier 7/40), i.e. 23-28 of the 32
    # processes of every run => 10/10 runs; unchanged tree and the two halves of that change alone: 0/320
    fexe = exes.get(("conc18n", "serial"))
    fruns = ffail = 0
    nrep0 = 0
    if fexe:
        for c in first_request_configs(ctx["seed"], 160 if thorough else 32):
            env = {"VERIF_SEED": str(c["seed"]), "VERIF_THREADS": str(c["T"]), "VERIF_REQS": str(c["R"]), "VERIF_TIER": ctx["tier"],
                   "VERIF_FIRST": "%d:%d" % (c["mode"], c["stagger"]), "VERIF_SLOWSEED": c["slow"]}
            nsf, nfi = len(res.specfail), len(ctx.get("failing_inputs", []))
            nrep0 += _c17.run_tsan_stream(ctx, res, "conc18-first/%d" % fruns, fexe, env,
                                          "a FIRST request of the process, made while the key is being seeded by another thread (slow entropy source), returns keystream of the all-zero / partially written key, or the seeding/nonce bookkeeping of the first requests is wrong")
            fruns += 1
            if len(res.specfail) > nsf:
                ffail += 1
                if ffail > 2:            # two failing processes are reported in full; the others are counted
                    del res.specfail[nsf:]
                    del ctx["failing_inputs"][nfi:]
                else:
                    del res.specfail[nsf + 3:]
    Ts = list(range(2, 17)) if thorough else [2, 3, 4, 6, 8, 12, 16]
    reps = 4
    nrep = 0
    runs = 0
    # ---- boundary bursts: the burst straddles a carry of the request counter (k*2^8, k*2^16, k*2^24; white box 2^32..2^64)
    # measured on seeded change C18-2 (ticket/epoch split at 2^24): one burst at a 2^24 boundary detects it with
    # probability 0.45-0.78 (T=4..16, R=10..150; 5 processes x 8 bursts each) => 7 bursts: miss probability < 0.55^7 = 0.015
    bseed = ctx["seed"] * 1000 + 18
    n24 = int(os.environ.get("VERIF_C18_N24", "0")) or (24 if thorough else 7)
    bjobs = [("conc18n", "blackbox", {"VERIF_THREADS": "8", "VERIF_REQS": "16", "VERIF_BOUNDARY": "8:6,16:6,24:%d" % n24}),
             ("conc18n", "blackbox-T4", {"VERIF_THREADS": "4", "VERIF_REQS": "40", "VERIF_BOUNDARY": "8:4,16:4" + (",24:12" if thorough else "")}),
             ("conc18n", "blackbox-T16", {"VERIF_THREADS": "16", "VERIF_REQS": "10", "VERIF_BOUNDARY": "8:4,16:4" + (",24:12" if thorough else "")}),
             ("conc18w", "whitebox", {"VERIF_THREADS": "8", "VERIF_REQS": "16",
                                      "VERIF_BOUNDARY": "8:2,16:2,24:%d,32:%d,40:%d,48:%d,56:%d,64:%d" % ((40,) * 6 if thorough else (8,) * 6)}),
             ("conc18", "tsan", {"VERIF_THREADS": "8", "VERIF_REQS": "16", "VERIF_BOUNDARY": "8:3,16:3"})]
    bruns = 0
    for name, label, env in bjobs:
        exe = exes.get((name, "serial"))
        if not exe:
            continue
        env = dict(env, VERIF_SEED=str(bseed), VERIF_TIER=ctx["tier"])
        nrep += _c17.run_tsan_stream(ctx, res, "conc18-boundary/" + label, exe, env,
                                     "a burst of concurrent requests that straddles a carry boundary of the 64-bit request counter reuses or skips a nonce")
        bruns += 1
    for (name, b), exe in sorted(exes.items()):
        if name != "conc18":
            continue
        for T in Ts:
            for r in range(reps):
                if b != "serial" and r > 1:
                    continue
                env = {"VERIF_SEED": str(ctx["seed"] * 1000 + 37 * T + r), "VERIF_THREADS": str(T), "VERIF_TIER": ctx["tier"]}
                if T >= 12 and not thorough:
                    env["VERIF_REQS"] = "200"
                nrep += _c17.run_tsan_stream(ctx, res, "conc18/%s/T%d/%d" % (b, T, r), exe, env,
                                             "data race on the generator state / sampler objects while threads request random bytes")
                runs += 1
    total_specfail = len(res.specfail)
    for sf in res.specfail:        # a history line can be very long: keep the head, the driver verdict names the line
        if len(sf["line"]) > 1500:
            sf["line"] = sf["line"][:1500] + " …"
    if len(res.specfail) > 6:
        del res.specfail[6:]
    return {"backends": sorted(b for (n_, b) in exes if n_ == "conc18"), "tsan_reports": nrep, "process_runs": runs, "failing_runs": total_specfail,
            "boundary_runs": bruns, "whitebox_nonce_preset": whitebox,
            "first_request_processes": fruns, "first_request_failing_processes": ffail,
            "note": "every process run starts with all threads released together before any request has been made (first-request race); the first-request family adds fresh processes with staggered / leader / random / unsynchronised starts against a slow, piecewise seeding call, every buffer identified under the delivered key"}


import sys as _sys  # noqa: E402
_sys.path.insert(0, os.path.dirname(os.path.abspath(__file__)))
import _prng_common as _pc  # noqa: E402

def search(ctx, res, problems):
    """A proof obligation, a translator or the tie broke without a failing input (the schedule-dependent streams are
    probabilistic: one quick run misses seeded change C18-2 about once in five on a loaded machine): repeat the streams
    with fresh seeds and three times as many bursts at the 2^24 carry, up to three times."""
    found = []
    old = os.environ.get("VERIF_C18_N24")
    os.environ["VERIF_C18_N24"] = "21"
    try:
        for k in range(3):
            c2 = dict(ctx, seed=ctx["seed"] * 100 + 61 + k, problems=[], failing_inputs=[])
            r2 = cl.StreamResult()
            streams(c2, r2)
            found += [{"kind": "spec", **sf} for sf in r2.specfail[:6]] + list(c2.get("failing_inputs", []))[:6]
            if found:
                break
    finally:
        if old is None:
            os.environ.pop("VERIF_C18_N24", None)
        else:
            os.environ["VERIF_C18_N24"] = old
    return found


PROP = {
    "streams": streams, "search": search, "translators": _pc.translators_prng,
    "rule": "first-request family (start of the process's history): 32 (thorough 160) fresh unsanitised processes, T in {2,3,4,6,8,12,16} threads whose FIRST requests start together / linearly staggered / one leader then the rest / at random delays / unsynchronised, against a harness randombytes that is SLOW (waits 0-5 ms, then delivers the 32 key bytes in pieces of 32/16/8/4/1 bytes 60-600 us apart; staggers chosen relative to that duration; some immediate), 1-5 requests per thread of lengths 8,9,64,100,1000,16,3,65,128,2,63,32,1,256,511; EVERY returned buffer is a driver line checked against the executable Salsa20 specification (Spec/Salsa20.lean) under the key randombytes delivered and the nonce identified; a buffer that is not is looked up under the all-zero key and the 31 partially written keys and reported with the key it matches; then the history (nonces 0..N-1 each once, one seeding). Then boundary bursts (position in the process's history): the main thread advances the generator with counted silent requests to N0 = k*2^b - d (b = 8, 16, 24 black box, really performed, up to 17 M requests per boundary; b = 32..56 and the wrap 2^64 white box by presetting the static nonce, when it exists), probes (must be nonce N0-1), then T = 4/8/16 threads are released so that their N = T*R requests straddle the carry; blocks identified among the reference keystreams of [N0-1-24, N0+N+24] and of the window shifted by +-2^b, +-2^(b-8); history must be N0-1..N0+N-1 each once; repeated per boundary (quick: 7 x 2^24 - measured single-burst detection of seeded change C18-2 0.45-0.78 - thorough 48). Then each run = one process: T in {2,3,4,8,16} (thorough 2..16) threads released together before ANY request, 200-300 (thorough 800) requests per thread of lengths 8,1,64,100,1000,3,16,65,128,2,63 from /repo's fastrandombytes (fixed key); every returned block identified among portable-C Salsa20 reference keystreams of nonces 0..N+15 (cross-checked against the assembly), short blocks by maximum matching; the Lean driver checks per run: nonces = {0..N-1} each once, per-thread increasing, one seeding, zero TSan reports; then one FastGaussianNoise object shared by threads calling getNoise while others sample uniform/ZO/hwt/bounded/gaussian polynomials; distinct = distinct runs",
    "trusted_base": _props.COMMON_TB + [
        "the interleaving model's assumption that every access to init / nonce and every write of key happens with the mutex held, and that the stream call reads key outside it, is no longer only an assumption: it is regenerated from the C++ text (Generated/PrngAst.lean: frb_accesses) and checked by the kernel on every run (Properties/C13Ast.lean: init_nonce_guarded, key_writes_guarded, unguarded_is_stream_key_read, accesses_match_step_model); " + _pc.PRNG_AST_TB,
        "PARTIAL: the theorems are about the interleaving model of Model/Prng18.lean (each line of the request = one atomic step; the seeding step split into the call of randombytes, one write per delivered piece of the key - any number of pieces - and the write of the flag, in either order; sequentially consistent memory, std::mutex = an atomic test-and-set that is enabled only when free); that the compiled code is such an interleaving is not proved; real schedules are observed under ThreadSanitizer",
        "block identification (the search for the nonce) is done in C++ (harness/conc18.cpp: portable Salsa20/20 reference, cross-checked against the repository's assembly called directly); in the first-request family the identification of every buffer is re-checked by the driver against the executable Lean Salsa20 (Spec/Salsa20.lean, C13's specification), in the long TSan runs and boundary bursts it is not; a block is identified with the (nonce, key) it was generated from",
        "first-request family: timing is chosen, not controlled - the slow harness randombytes widens the seeding window to milliseconds and the starts are spread over it, but which thread seeds and which interleaving occurs is the machine's choice (measured on seeded change C18-3: 23-28 of the 32 processes of a quick run report it, 10 runs of 10; 0 of 320 on the unchanged tree)",
        "ThreadSanitizer (gcc 12 libtsan) sees the C++ accesses to init/key/nonce in fastrandombytes.cpp and the samplers in the headers; the Salsa20 assembly's own reads of key/my_nonce are uninstrumented",
        "harness-provided nfl::randombytes (fixed key, call counter) replaces lib/prng/randombytes.cpp (that file is C19's subject)",
    ],
    "assumptions": ["fewer than 2^64 requests per process (the nonce is a 64-bit counter; the theorems state the result modulo 2^64)",
                    "randombytes returns (its behaviour on entropy-source failures is C19)"],
}
