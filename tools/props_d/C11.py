"""C11 — Gaussian sampler memory safety / no reuse of randomness (partial: loop model proved, real accesses observed)."""
import os, sys
sys.path.insert(0, os.path.dirname(os.path.abspath(__file__)))
import checklib as cl
import props
import gauss_common as gc


def streams(ctx, res):
    exes = gc.build_all(ctx)
    if 0 not in exes:
        return {}
    gc.run_all(ctx, res, exes, "c11")
    out_cov = gc.neg_flagged_coverage(ctx, res, "+full:negative")
    for md in res.modeldiff:
        ctx.setdefault("failing_inputs", []).append({"kind": "implementation-differs-from-verified-model", **md})
    return {"out_class_dimension": {"getNoise_calls_with_a_negative_sample_from_a_flagged_cell (out_class/index width/depth)": out_cov},
            "proved": "reads_in_bounds (+ over-read witness for bufLen < wp), writes_exact, terminates, consumption_disjoint of the getNoise loop model, for all rlen, bufLen >= wp, tables of the right shape, buffers",
            "observed_not_proved": "real heap accesses of constructor / getNoise / destructor: ASan + UBSan + LSan build, every call preceded by a PARAMS line (a report = concrete failing input)",
            "lifecycles": "glc lines: residue of the real allocator per lifecycle (blocks, bytes) vs Model/GaussLife.lean (per-thread MPFR caches released by the constructor); "
                          "proved: lifecycle_releases_all (every event list, any threads / order / number of samplers), release_in_destructor_witness; "
                          "a non-zero residue is a SPECFAIL carrying the parameters of every sampler and the whole event list; LSan's exit report is attributed to the first such lifecycle",
            "sanitizers": "address,undefined (+leak at exit) + per-lifecycle allocator accounting through __sanitizer_install_malloc_and_free_hooks"}


def search(ctx, res, problems):
    return gc.search_more(ctx, ["c11"])


PROP = {
    "streams": streams, "search": search, "translators": gc.translators_gauss,
    "rule": ("getNoise(out, rlen) with a scripted random stream, exact-size output buffer pre-filled with a sentinel: request lengths 0..64 (quick) / every length 0..4096 on the 8-bit depth-2 sampler and every 4th/8th length on three more samplers (thorough) "
             "and 4096, stream kinds random / all-zero / all-ones / barrier copies / barrier with last word +-1 / barrier on a long prefix / words of flagged cells; "
             "both index widths and depths; out_class int32_t (all of this) and int64_t / uint64_t / uint32_t / int16_t / uint16_t (lengths 0..64, 257; also stream kind 'barriers with a negative value, last word +-1'), "
             "outputs compared as the integer the out_class object denotes read as the signed type of its width; per line: observed buffer length (must be >= wp), number and size of fastrandombytes requests, all outputs compared with the "
             "loop model and with a table-free reference decoder (inverse CDF on consecutive pieces), model trace re-checked (in bounds, consecutive, disjoint); "
             "constructor/getNoise/destructor on one thread over the parameter grid with m = 1, 2^20 and sample budgets that are not powers of two, lambda not a multiple of 8, "
             "centres that are not dyadic, all three constructors (glife); "
             "lifecycles over threads (glc): one sampler with every assignment of constructor / getNoise / destructor to {main, a fresh std::thread that ends right after, worker 1, worker 2} "
             "(a constructing worker ending before or after the destruction); 2..4 samplers of mixed index width / depth / parameters alive at once, destroyed in FIFO / LIFO / random order on the "
             "constructing thread, main, a fresh thread or another worker; random interleavings of construct / getNoise / destroy over main, fresh threads and three workers with workers "
             "ending at random points and sampler slots reused; per lifecycle the allocator accounting (ASan malloc/free hooks: every block obtained inside constructor / getNoise / destructor "
             "on any thread, removed when freed on any thread) must end at 0 blocks / 0 bytes and is compared with the allocation model's residue; everything under ASan+UBSan+LSan"),
    "trusted_base": props.COMMON_TB + [
        gc.GAUSS_AST_TB,
        "AddressSanitizer/UBSan/LeakSanitizer of g++ 12 detect the out-of-bounds accesses, leaks and UB they are documented to detect (MPFR/GMP are not instrumented)",
        "the float product that sizes the buffer is abstracted: bufLen is read off the request the scripted fastrandombytes receives and must be >= wp",
        "scripted nfl::fastrandombytes replaces the PRNG at link time",
        "MPFR's caches are per thread and mpfr_free_cache() releases those of the calling thread only (contract of Model/GaussLife.lean; MPFR built with TLS); "
        "ASan's malloc/free hooks see every allocation of the process, also those made by the uninstrumented MPFR/GMP",
    ],
    "assumptions": ["tables have the shape buildLookupTables gives them (shapeOK, checked on the real tables)", "depth <= wp (lambda >= 32 gives wp >= 5 for the 8-bit and >= 3 for the 16-bit index)",
                    "16-bit-index depth-2 tables only for sigma <= 10 (2 MB per flagged first-level cell)"],
}
