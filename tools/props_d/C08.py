"""C08 — equality and inequality compare whole polynomials."""
import exprcheck as xc
import props


def streams(ctx, res):
    return xc.expr_streams(ctx, res, "c08")


def search(ctx, res, problems):
    return xc.expr_search(ctx, res, problems, "c08")


PROP = {
    "streams": streams, "search": search,
    "rule": "generated C++ translation units: bool(l == r), bool(l != r), bool(e) for poly / poly_p / expression on either side "
            "(fixed shapes + random trees predicted to compile), driven through data patterns built by construction: equal pairs, pairs differing in "
            "exactly one residue at every position (quick: 12 positions incl. first/last/modulus boundary), pairs equal in exactly one residue, unrelated "
            "pairs; poly -> bool on zero / one-hot / random; poly_p on identical storage; the former defect witnesses {1,2,3} vs {1,5,6} / {4,5,6} and "
            "{1..8} vs {1,9,3,9,5,9,7,9}; 3 limbs x {plain, serial, sse, avx2}; class = backend:mode:root:difference class",
    "trusted_base": props.COMMON_TB + [
        "C++ overload resolution / template matching is observed per generated TU, not modelled (which of poly_p's operator== overloads is chosen is visible in the op name the harness prints)",
        "GCC vector extension: == / != on __m128i/__m256i compare 64-bit lanes and yield all-ones/zero lanes (modelled in cmpWord; observed by the stream in the sse/avx2 builds)",
    ],
    "assumptions": ["rows have the size of a polynomial; for expression operands: the C07 admissibility hypotheses (canonical operands, precomputed quotients)",
                    "degree is a multiple of the register width of the mode the comparison is evaluated in (static_assert in the library)"],
}
