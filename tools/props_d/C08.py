"""C08 — equality and inequality compare whole polynomials."""
import json, os
import checklib as cl
import exprcheck as xc
import props


def translators(repo):
    """source-level tie of expr::operator bool: Generated/BoolAst.lean is re-translated from clang's AST on every run (12
    instantiations that must give the same text; the translation unit also static_asserts is_eqmod / elt_count / degree /
    nmoduli); the equality with Ex.exprToBoolM (Proofs/BoolAstEq.lean) and the transported C08 statements
    (Properties/C08Ast.lean) are then re-checked by `lake build`."""
    r = cl.run(["python3", os.path.join(cl.HERE, "gen_bool_ast.py"), "--repo", repo])
    info = {"ok": r.returncode == 0}
    if r.returncode != 0:
        info["err"] = (r.stdout + r.stderr)[-2000:]
    else:
        try:
            info.update(json.loads(r.stdout.strip().splitlines()[-1]))
            info.pop("node_kinds", None)
        except Exception as e:
            info["ok"] = False
            info["err"] = "unparsable summary: %s" % e
    out = {"gen_bool_ast": info}
    # the comparison shapes instantiated through the expression machinery (Generated/ExprAst.lean: eqmod / neqmod functors, the resolved
    # store / load / elt_count / is_eqmod of expr::operator bool; Proofs/ExprAstEq2.lean, Properties/C07Ast2.lean) are re-translated too
    for script in ("gen_ops_ast.py", "gen_simd_ast.py", "gen_expr_ast.py"):
        r = cl.run(["python3", os.path.join(cl.HERE, script), "--repo", repo])
        i2 = {"ok": r.returncode == 0}
        if r.returncode != 0:
            i2["err"] = (r.stdout + r.stderr)[-2000:]
        else:
            try:
                i2.update(json.loads(r.stdout.strip().splitlines()[-1]))
                i2.pop("node_kinds", None)
            except Exception as e:
                if script == "gen_expr_ast.py":
                    i2["ok"] = False
                    i2["err"] = "unparsable summary: %s" % e
        out[script[:-3]] = i2
    return out


def streams(ctx, res):
    return xc.expr_streams(ctx, res, "c08")


def search(ctx, res, problems):
    return xc.expr_search(ctx, res, problems, "c08")


PROP = {
    "streams": streams, "search": search, "translators": translators,
    "rule": "generated C++ translation units: bool(l == r), bool(l != r), bool(e) for poly / poly_p / expression on either side "
            "(fixed shapes + random trees predicted to compile), driven through data patterns built by construction: equal pairs, pairs differing in "
            "exactly one residue at every position (quick: 12 positions incl. first/last/modulus boundary), pairs equal in exactly one residue, unrelated "
            "pairs; poly -> bool on zero / one-hot / random; poly_p on identical storage; the former defect witnesses {1,2,3} vs {1,5,6} / {4,5,6} and "
            "{1..8} vs {1,9,3,9,5,9,7,9}; 3 limbs x {plain, serial, sse, avx2}. DEGREES: the full shape list at degree 16 (thorough: 32 too) and a reduced "
            "list (every root kind x every evaluation mode x poly / poly_p / expression operand) at the degrees of gen_expr.degree_plan, derived from the "
            "backend's register width E: E, 3E, 64+E, 96, 128-E, 200 (quick; e.g. 1, 3, 65, 96, 127, 200 for the scalar builds) and in thorough also 2E, 5E, "
            "24, 40, 64-E, 64, 72, 128, 128+E, 192, 256+E, 320, 512/1024 and degrees no register width divides (only narrower-mode roots exist there); 2 moduli "
            "(1 for the largest). POSITIONS: per shape and degree, one `bsweep` line = the difference (resp. the only agreement) placed at EVERY coefficient "
            "position in turn for polynomial-only shapes (and all shapes when n*moduli <= 160), at the boundary-directed positions otherwise (first/last two "
            "of every modulus row, around the last partial block for block sizes 2..128); poly -> bool one-hot at every position; a failing batch line is "
            "expanded into its single evaluations for the report; class = backend:mode:root:difference class:degree class. "
            "ACCEPTANCE BORDER: the comparison families the acceptance rules reject (== / != x operand kind poly / poly_p / sum / product / fused product per side, per "
            "limb x backend; quick: a seed-rotated subset always containing a handle operand per root, thorough: all) are compiled alone; one the compiler accepts is "
            "driven through the equal / differ-in-one / equal-in-one / unrelated patterns (`eboolx` lines: whole-polynomial comparison of the exact meanings)",
    "trusted_base": props.COMMON_TB + [
        "C++ overload resolution / template matching is observed per generated TU, not modelled (which of poly_p's operator== overloads is chosen is visible in the op name the harness prints)",
        "GCC vector extension: == / != on __m128i/__m256i compare 64-bit lanes and yield all-ones/zero lanes (modelled in cmpWord; observed by the stream in the sse/avx2 builds)",
        "source-level tie of expr::operator bool (the three loops, their bounds and strides, the early return, the is_eqmod ternary, the final return): clang++-14's typed AST "
        "(-ast-dump=json, -mavx2 -DNTT_AVX2 -DNTT_SSE) of 12 instantiations, tools/gen_bool_ast.py's traversal, the loop semantics lean/NflVerif/Model/CSemBool.lean (forRet: "
        "first return in iteration order; fuel 2^64 = states of a size_t counter) + size_t arithmetic of CSem.lean; BY NAME: simd_mode::store(tmp, load<simd_mode>(cm, j)) = the "
        "abstract `stored cm j` (the kernels behind it are C05 / Compose2's subject, the hand model's rootWord is plugged in); class constants are parameters, tied to the hand "
        "model's values by static_asserts compiled with the translation unit; poly::operator bool (core.hpp, std::find_if) is NOT translated",
    ],
    "assumptions": ["rows have the size of a polynomial; for expression operands: the C07 admissibility hypotheses (canonical operands, precomputed quotients)",
                    "degree is a multiple of the register width of the mode the comparison is evaluated in (static_assert in the library)"],
}
