"""Shared by C09 (and to be referenced by C12 / C15): the source-level translator of the setters / samplers."""
import json, os
import checklib as cl


def translators_set(repo):
    """source-level tie of the PER-COEFFICIENT ARITHMETIC of the setters / samplers: Generated/SetAst.lean is re-translated from
    clang's AST of poly::set(uniform / non_uniform / gaussian / ZO_dist / hwt_dist / value / It,It) (core.hpp) on every run
    (tools/gen_set_ast.py); the equalities with the hand model (Proofs/SetAstEq.lean) and the transported per-coefficient C09 / C12
    statements (Properties/C09Ast.lean) are then re-checked by `lake build`.  Loop structure, request sizes, buffer refills, the
    reservoir as a whole and floor(log2(double)) stay hand-modelled (differential streams) in SetAst; gen_smp_ast.py (second run below) translates the
    whole functions around the pieces."""
    r = cl.run(["python3", os.path.join(cl.HERE, "gen_set_ast.py"), "--repo", repo])
    info = {"ok": r.returncode == 0}
    if r.returncode != 0:
        info["err"] = (r.stdout + r.stderr)[-2000:]
    else:
        try:
            info.update(json.loads(r.stdout.strip().splitlines()[-1]))
            info.pop("node_kinds", None)
            for k in ("ub_div_sites", "ub_shift_sites"):        # the three instantiations list the same source lines
                info[k] = [x for x in info.get(k, []) if str(x.get("piece", x.get("functor", ""))).endswith("u16")]
        except Exception as e:
            info["ok"] = False
            info["err"] = "unparsable summary: %s" % e
    out = {"gen_set_ast": info}
    # WHOLE functions (loops, request sizes, index expressions, pointer walks, library calls): Generated/SmpAst.lean (tools/gen_smp_ast.py);
    # equalities with the hand model in Proofs/SmpAstEq.lean + SmpAstEq2.lean, transported statements in Properties/C12Ast.lean + C12Ast2.lean
    r = cl.run(["python3", os.path.join(cl.HERE, "gen_smp_ast.py"), "--repo", repo])
    info2 = {"ok": r.returncode == 0}
    if r.returncode != 0:
        info2["err"] = (r.stdout + r.stderr)[-2000:]
    else:
        try:
            info2.update(json.loads(r.stdout.strip().splitlines()[-1]))
        except Exception as e:
            info2["ok"] = False
            info2["err"] = "unparsable summary: %s" % e
    out["gen_smp_ast"] = info2
    return out
