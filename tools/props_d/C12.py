"""C12 — uniform, bounded, ternary, fixed-weight samplers: exact support and bias bounds."""
import os, sys
sys.path.insert(0, os.path.dirname(os.path.dirname(os.path.abspath(__file__))))
import samplers_streams as ss
from props import COMMON_TB
import _set_common as _sc

WANT = ("uniform", "bounded", "zo", "hwt")


def streams(ctx, res):
    return ss.run(ctx, res, ops=ss.C12_OPS, want=WANT)


def search(ctx, res, problems):
    return ss.search(ctx, res, problems, ops=ss.C12_OPS, want=WANT)


PROP = {
    "streams": streams, "translators": _sc.translators_set, "search": search,
    "rule": "enumerating tape on the real samplers: ALL 2^16 words (uniform, both moduli; bounded for 16+ admissible (B,A) pairs), all 256 bytes x all 256 rho, all reduced index tuples for every (n<=6,h) (n<=8 in the thorough tier; quick: n=7 h>=2, n=8 h>=4 exhaustive, the rest 400 random tuples) with rejection-zone words interleaved, boundary words on 32/64 bit; LARGE PARAMETERS: fixed weight at degree 512/4096/32768/65536/2^17 (2^20 thorough) on probe tapes (at ~100 steps k per line - first, last, 2^j-2..2^j+1, random, longest/shortest incomplete top block - one boundary word of that step: M_k-1, M_k, M_k+1, 2^64-1, 2^64-2^j(-1), middle/random word of the rejection zone, M_k-(k+1); each followed by a recorder word that stores the step number in a fresh reservoir slot) and random tapes with rejection-zone words, WEIGHT x DEGREE: at every degree class 64..2^17 (2^20 thorough; 128/256/512 on all three limbs) the extreme weights h = n and n-1 (at 64..512 and, thorough, everywhere: 1, 2, 3, n/2-1..n/2+1, n-2 and the weights 2^j-1, 2^j, 2^j+1 around 128, 256, 8192 (8h = 2^16 bytes), 32768, 65536), h = 0 and h > n excluded (assert / no terminating run); uniform with every row of the 32/64-bit tables as a modulus and at the largest degrees, bounded next to 2^61/2^29 at degree 16384/32768 and for every B = 2^j, 2^j+-1 below the moduli plus bounds at/beyond the limb width (2^w-1..2^w+4, 2^32.., 2^63.., 2^64-1: must throw), ternary at the largest degree of every limb incl. rho = 0 and 255; a call that does not return (sanitizer report, assert) is reported with its input (op, w, n, nm, via, parameters, scripted tape); every line: model equality + spec on the implementation's output (support exactly A*[-(B-1),B-1], ternary law of each byte, weight exactly h with identical positions, positions = reservoir run with exact rejection over the served words, number of requests = what that run needs; a failing fixed-weight line is explained in the SPECFAIL line: which word was accepted/rejected against the rule at which step); CROSS-CHECK (python, labelled as such): the statements of the counting theorems (every residue/value reachable, max count <= 2 min count, zo counts, every h-subset exactly (n-h)! times) are evaluated on the real code's outputs over the full enumerations; mask of all 1293 rows; distinct = distinct op lines",
    "trusted_base": COMMON_TB + [
        "floor(log2((double)p)) modelled by Nat.log2 (validated on all 1293 rows on every run, not proved)",
        "scripted nfl::fastrandombytes (recorded requests are what the model receives)",
        "the driver evaluates array-backed versions of the models and spec predicates (Model/SamplersFast.lean), proved equal to them for all inputs (C12.fast_evaluators_are_model, C12.fast_spec_is_spec)",
        "the explanation printed with a failing fixed-weight line (which word, which step) is inferred by a search over inverted accept/reject decisions; the verdict itself (positions / requests differ from the exact-rejection run) does not depend on it",
        "probability statements are derived from the preimage counts under the hypothesis that the random words are uniform and independent (that hypothesis is C13's subject)",
    ],
    "assumptions": [
        "moduli as in params.hpp (ModOK, proved for the regenerated tables)",
        "bounded: 1 <= B, 2B <= 2^w, 1 <= A, A*(B-1) < p",
        "fixed weight: 0 < h <= n; tape long enough for the rejection loop",
    ],
}
