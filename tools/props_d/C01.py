import os, sys
sys.path.insert(0, os.path.dirname(os.path.abspath(__file__)))
import _ntt_common as nc
import props

OPS = ("mulntt", "mulnttshoup", "tab", "permtab")


FUNCTOR_OPS = ("mulmod", "cshoup", "mulshoup4")


def streams(ctx, res):
    seeds = [ctx["seed"]] if ctx["tier"] == "quick" else [ctx["seed"], ctx["seed"] + 1, ctx["seed"] + 2]
    cov = nc.ntt_streams(ctx, res, OPS, seeds=seeds)
    # the product theorems rest on the exactness of mulmod / compute_shoup / mulmod_shoup: their boundary-directed
    # functor stream (quotients within eps/p of an integer, lazy words, structured magnitudes) is part of C01's tie
    props.ops_streams(ctx, res, backends=("serial",), only=lambda l: l.split(" ", 1)[0] in FUNCTOR_OPS)
    return cov


def search(ctx, res, problems):
    # unit-vector pairs X^i·X^j (missing twist), 1·a (missing n^-1), all-(p-1) squares: thorough generator, more seeds
    import checklib as cl
    r2 = cl.StreamResult()
    nc.ntt_streams(ctx, r2, OPS, seeds=[ctx["seed"] + 11, ctx["seed"] + 12], tier="thorough")
    return [{"kind": "spec", **sf} for sf in r2.specfail[:10]]


PROP = {
    "streams": streams, "search": search, "translators": nc.translators_ntt,
    "rule": "poly<T,n,m>: a,b -> ntt_pow_phi, pointwise * (mulmod) and shoup(a*b, compute_shoup(b)), invntt_pow_invphi; one line per modulus slice; operands: unit-vector pairs X^i·X^j (all pairs for n ≤ 8), 1·a, all-(p-1)², boundary mixes, sparse, random; every power-of-two degree the backend accepts (quick: ≤ 2048 and 32768; thorough: all up to 32768), limbs 16/32/64, 1–3 moduli, serial+SSE+AVX2; transform tables of core::initialize dumped and compared; spec oracle = schoolbook negacyclic product (n ≤ 1024), model equality above; distinct = distinct op lines",
    "trusted_base": props.COMMON_TB + [nc.NTT_AST_TB, "for n > 1024 the oracle on the implementation's answer is the Lean model (which the theorem equates with the schoolbook product)"],
    "assumptions": ["operands canonical (residues in [0,p))", "degree a power of two ≤ kMaxPolyDegree of the limb"],
}
