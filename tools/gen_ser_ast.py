#!/usr/bin/env python3
"""Translator: clang's typed AST of NFLlib's serialisation code -> lean/NflVerif/Generated/SerAst.lean  (property C16)

Translated, from the bodies clang instantiates for nfl::poly<T,Degree,NbModuli> (three instantiations, one text):
    static constexpr size_t N                               -> Gen.Ser.N
    poly::serialize_manually(std::ostream&)                 -> Gen.Ser.serialize_manually
    poly::deserialize_manually(std::istream&)               -> Gen.Ser.deserialize_manually
    poly::serialize<cereal::BinaryOutputArchive>(Archive&)  -> Gen.Ser.serialize_BinaryOutputArchive
    poly::serialize<cereal::BinaryInputArchive>(Archive&)   -> Gen.Ser.serialize_BinaryInputArchive
    poly::begin() const / end() const                       -> Gen.Ser.begin_const / end_const (element offsets into _data)
    nfl::operator<<(std::ostream&, poly const&)             -> Gen.Ser.operator_shl
Every function becomes  parameters x contents of `_data` x streams -> Option (updated state); `none` = undefined behaviour.
Library calls are accepted BY NAME only and mapped to lean/NflVerif/Model/StreamSem.lean:
    std::basic_ostream<char>::write -> Ss.ostreamWrite        std::basic_istream<char>::read -> Ss.istreamRead
    operator<<(ostream&, const char*) / (ostream&, const std::string&) -> Ss.putStr
    std::basic_ostream<char>::operator<<(unsigned short|int|long) -> Ss.putUnsigned
    std::string() / std::string::operator=(const char*) -> List Char        typeid(A) == typeid(B) -> Ss.typeidEq
    std::begin / std::end on T[N] -> offsets 0 / N            range-for over pointers -> Ss.forPtr
    reinterpret_cast<char*>(T[N] lvalue) -> byte pointer into Ss.objRepr T data (x86-64 little-endian object representation)
    cereal::OutputArchive<BinaryOutputArchive,1>::operator()(T(&)[N]) -> Ss.cerealSaveBinary   (Input… -> Ss.cerealLoadBinary)
Integer arithmetic is C arithmetic (size_t: mod 2^64; size_t -> std::streamsize: Ss.toStreamsize).
Anything else (node kind, callee, cast kind, field, …) stops the translation with a non-zero exit naming it and file:line.
The last line of stdout is a JSON summary.  The output file is rewritten only when its content changes.
Usage: gen_ser_ast.py [--repo DIR] [--out FILE] [--keep]
"""
import hashlib, json, os, re, subprocess, sys

HERE = os.path.dirname(os.path.abspath(__file__))
sys.path.insert(0, HERE)
import gen_ops_ast as G
from gen_ops_ast import Unsupported, fail, parse_objects, annotate, write_if_changed

VERIF = os.path.dirname(HERE)
BUILD = os.path.join(VERIF, "build")
OUT = os.path.join(VERIF, "lean", "NflVerif", "Generated", "SerAst.lean")
CLANG = "clang++-14"
# (written limb type, clang's canonical name, Degree, NbModuli)
INSTANCES = [("uint64_t", "unsigned long", 8, 2), ("uint32_t", "unsigned int", 16, 3), ("uint16_t", "unsigned short", 4, 1)]
CTY = {"unsigned char": "Ss.CTy.u8", "unsigned short": "Ss.CTy.u16", "unsigned int": "Ss.CTy.u32", "unsigned long": "Ss.CTy.u64"}
ALIAS_CTY = {"uint8_t": "Ss.CTy.u8", "uint16_t": "Ss.CTy.u16", "uint32_t": "Ss.CTy.u32", "uint64_t": "Ss.CTy.u64"}
SIZE_T = ("unsigned long", "size_t", "std::size_t")

TU = r'''#include "nfl.hpp"
#include <sstream>
#include <cereal/archives/binary.hpp>
// one use of every serialisation entry point of nfl::poly (never executed: -fsyntax-only)
template<class P> void nflverif_ser_use() {
  P p;
  std::stringstream ss;
  p.serialize_manually(ss);
  p.deserialize_manually(ss);
  cereal::BinaryOutputArchive oa(ss);
  p.serialize(oa);
  cereal::BinaryInputArchive ia(ss);
  p.serialize(ia);
  ss << p;
}
'''


def qt(n):
    t = n.get("type") or {}
    return t.get("desugaredQualType", t.get("qualType", ""))


def strip_cv_ref(s):
    s = re.sub(r"\s*&&?$", "", s.strip()).strip()
    s = re.sub(r"^const\s+", "", s)
    s = re.sub(r"\s+const$", "", s)
    return s.strip()


def kids(n):
    return [c for c in n.get("inner", []) if isinstance(c, dict) and c.get("kind")]


def lean_str(s):
    if not all(32 <= ord(c) < 127 and c not in "'\\" for c in s):
        raise Unsupported("string literal %r with characters outside printable ASCII" % s)
    return "[" + ", ".join("'%s'" % c for c in s) + "]"


class Fn:
    """one function of one instantiation"""

    def __init__(self, tr, decl, name, is_member):
        self.tr, self.decl, self.name, self.is_member = tr, decl, name, is_member
        self.lines = []
        self.env = {}            # decl id -> python value
        self.params = []         # (lean name, lean type)
        self.state = []          # lean names of the variables the caller sees changed (streams, data)
        self.uses = set()        # T, N, data
        self.nodes = 0
        self.result = None       # (lean text, lean type) of a returned non-state value
        self.threw = False
        self.ended = False
        self.is_const = "const" in decl.get("type", {}).get("qualType", "").rsplit(")", 1)[-1]

    # ------------------------------------------------------------------ helpers
    def count(self, n):
        self.nodes += 1
        self.tr.kinds[n.get("kind")] = self.tr.kinds.get(n.get("kind"), 0) + 1

    def emit(self, s, ind):
        self.lines.append("  " * ind + s)

    def src(self, n, ind):
        f, l = n.get("_file"), n.get("_line")
        self.emit("-- %s:%s  %s" % (self.tr.short(f), l, self.tr.source_line(f, l)), ind)

    def cty(self, s, at):
        """Lean text of the C type named s (canonical or alias), `T` for the limb type parameter"""
        s = strip_cv_ref(s)
        if s == self.tr.cname:
            self.uses.add("T")
            return "T"
        fail(at, "type %r is not the limb type of the instantiation" % s)

    def touch(self, var):
        if var not in self.state:
            self.state.append(var)

    # ------------------------------------------------------------------ integer expressions (size_t only)
    def is_size_t(self, n):
        return strip_cv_ref(qt(n)) == "unsigned long"

    # python values:
    #   ("stream", leanvar) ("arout"/"arin", leanvar) ("objptr", owner) ("obj", owner) ("arr", owner)
    #   ("wptr", owner, leanoff) ("bptr", owner, leanoff) ("size", lean) ("ssize", lean) ("bool", lean) ("boolvar", leanvar)
    #   ("strvar", leanvar) ("str", lean) ("tyinfo", lean) ("limb", lean) ("ptrvar", owner, leanvar) ("void",)
    def data_of(self, owner):
        self.uses.add("data")
        return "data" if owner == "this" else "%s_data" % owner

    def expr(self, n, ind):
        k = n.get("kind")
        self.count(n)
        if k in ("ParenExpr", "ExprWithCleanups", "ConstantExpr"):
            return self.expr(kids(n)[0], ind)
        if k == "CXXThisExpr":
            if not self.is_member:
                fail(n, "`this` outside a member")
            return ("objptr", "this")
        if k == "DeclRefExpr":
            rd = n.get("referencedDecl", {})
            if rd.get("id") in self.env:
                return self.env[rd["id"]]
            if rd.get("kind") == "VarDecl" and rd.get("name") == "N" and rd.get("id") == self.tr.N_id:
                self.uses.add("N")
                return ("size", "N")
            fail(n, "reference to %s %r" % (rd.get("kind"), rd.get("name")))
        if k == "MemberExpr":
            v = self.expr(kids(n)[0], ind)
            if n.get("name") == "_data" and n.get("referencedMemberDecl") == self.tr.data_id and \
                    ((v[0] == "objptr" and n.get("isArrow")) or (v[0] == "obj" and not n.get("isArrow"))):
                self.tr.check_array_type(n)
                return ("arr", v[1])
            fail(n, "member %r of %s" % (n.get("name"), v[0]))
        if k == "UnaryExprOrTypeTraitExpr":
            if n.get("name") != "sizeof" or "argType" not in n:
                fail(n, "%s expression" % n.get("name"))
            at = n["argType"]
            return ("size", "Ss.CTy.sizeOf %s" % self.cty(at.get("desugaredQualType", at.get("qualType", "")), n))
        if k == "IntegerLiteral":
            if self.is_size_t(n):
                return ("size", str(int(n["value"])))
            if strip_cv_ref(qt(n)) == "int" and 0 <= int(n["value"]) < 2 ** 31:
                return ("intlit", int(n["value"]))
            fail(n, "integer literal of type %s" % qt(n))
        if k == "CXXBoolLiteralExpr":
            return ("bool", "true" if n.get("value") else "false")
        if k == "StringLiteral":
            return ("str", lean_str(json.loads(n["value"])))
        if k == "CXXTypeidExpr":
            at = n.get("typeArg")
            if not at:
                fail(n, "typeid of an expression")
            w = at.get("qualType", "")
            if w in ALIAS_CTY and CTY.get(at.get("desugaredQualType")) == ALIAS_CTY[w]:
                return ("tyinfo", ALIAS_CTY[w])
            return ("tyinfo", self.cty(at.get("desugaredQualType", w), n))
        if k == "BinaryOperator":
            op = n.get("opcode")
            a = self.expr(kids(n)[0], ind)
            b = self.expr(kids(n)[1], ind)
            if a[0] == "size" and b[0] == "size" and self.is_size_t(n):
                if op in ("*", "+"):
                    return ("size", "((%s %s %s) %% 2 ^ 64)" % (a[1], op, b[1]))
                if op == "-":
                    return ("size", "((%s + 2 ^ 64 - %s) %% 2 ^ 64)" % (a[1], b[1]))
                if op == "/":
                    fail(n, "size_t division (divisor not known to be non-zero)")
            if op == "=" and a[0] == "boolvar" and b[0] == "bool":
                self.emit("let %s := %s" % (a[1], b[1]), ind)
                self.assigned.add(a[1])
                return ("void",)
            if op == "!=" and a[0] == "wptr" and b[0] == "wptr" and a[1] == b[1]:
                return ("bool", "(%s != %s)" % (a[2], b[2]))
            fail(n, "binary operator %r on %s, %s of type %s" % (op, a[0], b[0], qt(n)))
        if k == "ImplicitCastExpr":
            ck = n.get("castKind")
            v = self.expr(kids(n)[0], ind)
            if ck == "LValueToRValue":
                if v[0] in ("size", "limb", "wptr"):
                    return v
                if v[0] == "boolvar":
                    return ("bool", v[1])
                fail(n, "LValueToRValue of %s" % v[0])
            if ck == "NoOp":
                return v
            if ck == "ArrayToPointerDecay":
                if v[0] == "arr":
                    return ("wptr", v[1], "0")
                if v[0] == "str":
                    return v
                fail(n, "ArrayToPointerDecay of %s" % v[0])
            if ck == "IntegralCast":
                if v[0] == "size" and strip_cv_ref(qt(n)) == "long":
                    return ("ssize", "Ss.toStreamsize %s" % v[1])
                if v[0] == "intlit" and self.is_size_t(n):
                    return ("size", str(v[1]))         # non-negative int constant -> size_t: same value
                fail(n, "IntegralCast of %s to %s" % (v[0], qt(n)))
            if ck in ("UncheckedDerivedToBase", "DerivedToBase") and v[0] in ("arout", "arin"):
                return v
            if ck == "FunctionToPointerDecay":
                return v
            fail(n, "cast kind %r" % ck)
        if k == "CXXReinterpretCastExpr":
            v = self.expr(kids(n)[0], ind)
            to = strip_cv_ref(n.get("type", {}).get("qualType", ""))
            if n.get("castKind") == "BitCast" and v[0] == "wptr" and to in ("char *", "const char *"):
                # element offset -> byte offset
                self.uses.add("T")
                off = "0" if v[2] == "0" else "(%s * Ss.CTy.sizeOf T)" % v[2]
                return ("bptr", v[1], off)
            fail(n, "reinterpret_cast (%s) of %s to %s" % (n.get("castKind"), v[0], to))
        if k == "UnaryOperator":
            op = n.get("opcode")
            v = self.expr(kids(n)[0], ind)
            if op == "*" and v[0] == "objptr":
                return ("obj", v[1])
            fail(n, "unary operator %r on %s" % (op, v[0]))
        if k == "CXXMemberCallExpr":
            return self.member_call(n, ind)
        if k == "CXXOperatorCallExpr":
            return self.op_call(n, ind)
        if k == "CallExpr":
            return self.call(n, ind)
        fail(n, "unknown expression")

    # ------------------------------------------------------------------ calls
    def callee_decl(self, n):
        """(name, written type) of the function a CallExpr / CXXOperatorCallExpr calls"""
        f = kids(n)[0]
        while f.get("kind") in ("ImplicitCastExpr", "ParenExpr"):
            self.count(f)
            f = kids(f)[0]
        if f.get("kind") != "DeclRefExpr":
            fail(f, "callee is not a named function")
        self.count(f)
        rd = f.get("referencedDecl", {})
        return rd.get("name"), rd.get("type", {}).get("qualType", ""), rd.get("kind")

    def call(self, n, ind):
        name, ty, kind = self.callee_decl(n)
        args = kids(n)[1:]
        if kind == "FunctionDecl" and name in ("begin", "end") and len(args) == 1 and re.fullmatch(
                r"(const )?[a-z ]+ \*\((const )?[a-z ]+ \(&\)\[\d+\]\)( noexcept)?", ty):
            a = self.expr(args[0], ind)
            if a[0] != "arr":
                fail(n, "std::%s of %s" % (name, a[0]))
            if name == "begin":
                return ("wptr", a[1], "0")
            self.uses.add("N")
            return ("wptr", a[1], "N")      # extent checked = N by check_array_type
        fail(n, "call of %s %r : %s" % (kind, name, ty))

    def member_call(self, n, ind):
        me = kids(n)[0]
        if me.get("kind") != "MemberExpr":
            fail(me, "callee of a member call")
        self.count(me)
        name = me.get("name")
        obj = self.expr(kids(me)[0], ind)
        args = kids(n)[1:]
        base_t = strip_cv_ref(qt(kids(me)[0]))
        if obj[0] == "stream" and name == "write" and base_t == "std::basic_ostream<char>" and len(args) == 2:
            p = self.expr(args[0], ind)
            c = self.expr(args[1], ind)
            if p[0] != "bptr" or c[0] != "ssize":
                fail(n, "ostream::write(%s, %s)" % (p[0], c[0]))
            self.need_effects(n)
            self.emit("let %s ← Ss.ostreamWrite %s (Ss.objRepr T %s) %s (%s)" % (obj[1], obj[1], self.data_of(p[1]), p[2], c[1]), ind)
            self.touch(obj[1])
            return obj
        if obj[0] == "stream" and name == "read" and base_t == "std::basic_istream<char>" and len(args) == 2:
            p = self.expr(args[0], ind)
            c = self.expr(args[1], ind)
            if p[0] != "bptr" or c[0] != "ssize":
                fail(n, "istream::read(%s, %s)" % (p[0], c[0]))
            self.need_effects(n)
            d = self.data_of(p[1])
            if p[1] == "this" and self.is_const:
                fail(n, "write through a pointer into the object of a const member")
            if p[1] != "this" and self.env_const.get(p[1]):
                fail(n, "write through a pointer into a const object")
            self.emit("let (mem, %s) ← Ss.istreamRead %s (Ss.objRepr T %s) %s (%s)" % (obj[1], obj[1], d, p[2], c[1]), ind)
            self.emit("let %s := Ss.ofObjRepr T mem" % d, ind)
            self.touch(obj[1])
            self.touch(d)
            return obj
        if obj[0] == "obj" and name in ("begin", "end") and not args:
            fn = self.tr.member_fn(me.get("referencedMemberDecl"), n)
            if fn.result is None or fn.result[2] != "wptr":
                fail(n, "member %s does not return a pointer into _data" % name)
            if "N" in fn.uses:
                self.uses.add("N")
                return ("wptr", obj[1], "%s N" % fn.name)
            return ("wptr", obj[1], fn.name)
        fail(n, "member call %s::%s with %d arguments" % (base_t, name, len(args)))

    def op_call(self, n, ind):
        name, ty, kind = self.callee_decl(n)
        args = kids(n)[1:]
        if name == "operator==" and kind == "CXXMethodDecl" and ty.startswith("bool (const std::type_info &) const") and len(args) == 2:
            a = self.expr(args[0], ind)
            b = self.expr(args[1], ind)
            if a[0] == "tyinfo" and b[0] == "tyinfo":
                return ("bool", "Ss.typeidEq %s %s" % (a[1], b[1]))
            fail(n, "type_info comparison of %s, %s" % (a[0], b[0]))
        if name == "operator=" and kind == "CXXMethodDecl" and ty == "std::basic_string<char> &(const char *)" and len(args) == 2:
            a = self.expr(args[0], ind)
            b = self.expr(args[1], ind)
            if a[0] == "strvar" and b[0] == "str":
                self.emit("let %s := %s" % (a[1], b[1]), ind)
                self.assigned.add(a[1])
                return a
            fail(n, "std::string assignment of %s to %s" % (b[0], a[0]))
        if name == "operator<<" and len(args) == 2:
            s = self.expr(args[0], ind)
            if s[0] != "stream":
                fail(n, "operator<< on %s" % s[0])
            v = self.expr(args[1], ind)
            t = re.sub(r"\s+", " ", ty)
            if kind == "FunctionDecl" and v[0] == "str" and re.fullmatch(r"basic_ostream<char, std::char_traits<char>> &\(basic_ostream<char, std::char_traits<char>> &, const char \*\)", t):
                text = v[1]
            elif kind == "FunctionDecl" and v[0] == "strvar" and t.startswith("basic_ostream<char, std::char_traits<char>> &(basic_ostream<char, std::char_traits<char>> &, const basic_string<char,"):
                text = v[1]
            elif kind == "CXXMethodDecl" and v[0] == "limb" and re.fullmatch(r"std::basic_ostream<char>::__ostream_type &\(unsigned (short|int|long)\)", t):
                self.emit("let %s := Ss.putUnsigned %s %s" % (s[1], s[1], v[1]), ind)
                self.assigned.add(s[1])
                self.touch(s[1])
                return s
            else:
                fail(n, "operator<< %s : %s with a %s argument" % (kind, t, v[0]))
            self.emit("let %s := Ss.putStr %s %s" % (s[1], s[1], text), ind)
            self.assigned.add(s[1])
            self.touch(s[1])
            return s
        if name == "operator()" and kind == "CXXMethodDecl" and len(args) == 2:
            ar = self.expr(args[0], ind)
            base_t = strip_cv_ref(qt(args[0]))
            a = self.expr(args[1], ind)
            m = re.fullmatch(r"cereal::Binary(Output|Input)Archive &\(([a-z ]+) \(&\)\[(\d+)\]\)", ty)
            if not m or a[0] != "arr" or m.group(2) != self.tr.cname or int(m.group(3)) != self.tr.N_val:
                fail(n, "archive call %s on %s" % (ty, a[0]))
            self.need_effects(n)
            self.uses.add("T")
            d = self.data_of(a[1])
            if ar[0] == "arout" and m.group(1) == "Output" and base_t == "cereal::OutputArchive<cereal::BinaryOutputArchive, 1>":
                self.emit("-- archive(T(&)[N]) = binary_data(array, sizeof(array)): the whole object representation", ind)
                self.emit("let (%s, threw) := Ss.cerealSaveBinary %s (Ss.objRepr T %s)" % (ar[1], ar[1], d), ind)
            elif ar[0] == "arin" and m.group(1) == "Input" and base_t == "cereal::InputArchive<cereal::BinaryInputArchive, 1>":
                self.emit("-- archive(T(&)[N]) = binary_data(array, sizeof(array)): the whole object representation", ind)
                self.emit("let (mem, %s, threw) := Ss.cerealLoadBinary %s (Ss.objRepr T %s)" % (ar[1], ar[1], d), ind)
                self.emit("let %s := Ss.ofObjRepr T mem" % d, ind)
                self.touch(d)
            else:
                fail(n, "archive call on %s (%s)" % (ar[0], base_t))
            self.touch(ar[1])
            self.threw = True
            self.may_throw_at = n
            return ar
        fail(n, "operator call %s %r : %s" % (kind, name, ty))

    def need_effects(self, n):
        if self.pure_depth:
            fail(n, "call with an undefined-behaviour / exception outcome inside a branch or loop body (only straight-line code is translated)")
        if self.threw:
            fail(n, "statement after a call that may throw (the exception path is not translated)")

    # ------------------------------------------------------------------ statements
    def assigned_in(self, stmts, ind):
        """translate stmts into a scratch buffer; returns (lines, set of assigned lean variables)"""
        save_lines, save_assigned = self.lines, self.assigned
        self.lines, self.assigned = [], set()
        self.pure_depth += 1
        for s in stmts:
            self.stmt(s, ind)
        self.pure_depth -= 1
        lines, asg = self.lines, self.assigned
        self.lines, self.assigned = save_lines, save_assigned
        return lines, asg

    def order(self, names):
        return [v for v in self.decl_order if v in names]

    def body_of(self, n):
        return kids(n) if n.get("kind") == "CompoundStmt" else [n]

    def stmt(self, n, ind):
        k = n.get("kind")
        if self.ended:
            fail(n, "statement after return")
        if k == "CompoundStmt":
            self.count(n)
            for c in kids(n):
                self.stmt(c, ind)
            return
        if k == "NullStmt":
            self.count(n)
            return
        if k == "DeclStmt":
            self.count(n)
            for d in kids(n):
                self.local(d, ind)
            return
        if k == "IfStmt":
            self.count(n)
            if n.get("hasInit") or n.get("hasVar") or n.get("isConstexpr"):
                fail(n, "if with initialiser / declaration / constexpr")
            cs = kids(n)
            self.src(n, ind)
            c = self.expr(cs[0], ind)
            if c[0] != "bool":
                fail(cs[0], "condition of kind %s" % c[0])
            tl, ta = self.assigned_in(self.body_of(cs[1]), ind + 2)
            el, ea = self.assigned_in(self.body_of(cs[2]), ind + 2) if len(cs) > 2 else ([], set())
            vs = self.order(ta | ea)
            if not vs:
                fail(n, "if statement without effect on translated state")
            tup = vs[0] if len(vs) == 1 else "(" + ", ".join(vs) + ")"
            self.emit("let %s :=" % tup, ind)
            self.emit("if %s then (" % c[1], ind + 1)
            self.lines += tl
            self.emit("%s)" % tup, ind + 2)
            self.emit("else (", ind + 1)
            self.lines += el
            self.emit("%s)" % tup, ind + 2)
            self.assigned |= set(vs)
            return
        if k == "CXXForRangeStmt":
            return self.range_for(n, ind)
        if k == "ReturnStmt":
            self.count(n)
            self.src(n, ind)
            cs = kids(n)
            if self.pure_depth:
                fail(n, "return inside a branch or loop body")
            if cs:
                v = self.expr(cs[0], ind)
                if v[0] == "stream":
                    pass                       # the stream reference: its state is part of the result anyway
                elif v[0] == "wptr" and v[1] == "this":
                    self.result = (v[2], "Nat", "wptr")
                else:
                    fail(n, "return of %s" % v[0])
            self.ended = True
            return
        # expression statement
        self.src(n, ind)
        self.expr(n, ind)

    def local(self, d, ind):
        if d.get("kind") != "VarDecl" or d.get("storageClass"):
            fail(d, "local declaration")
        self.count(d)
        t = strip_cv_ref(qt(d))
        nm = d["name"]
        self.check_name(nm, d)
        init = kids(d)
        self.src(d, ind)
        if t == "bool" and len(init) == 1:
            v = self.expr(init[0], ind)
            if v[0] != "bool":
                fail(d, "bool initialised from %s" % v[0])
            self.emit("let %s := %s" % (nm, v[1]), ind)
            self.env[d["id"]] = ("boolvar", nm)
        elif t == "std::basic_string<char>" and len(init) == 1 and init[0].get("kind") == "CXXConstructExpr" and not kids(init[0]):
            self.count(init[0])
            self.emit("let %s : List Char := []   -- std::string()" % nm, ind)
            self.env[d["id"]] = ("strvar", nm)
        else:
            fail(d, "local variable of type %s" % t)
        self.decl_order.append(nm)

    RESERVED = ("T", "N", "data", "mem", "threw", "__begin", "__end")

    def check_name(self, nm, at):
        if nm in self.decl_order or nm in G.LEAN_KEYWORDS or nm in self.RESERVED or not re.fullmatch(r"[A-Za-z_][A-Za-z0-9_]*", nm):
            fail(at, "name %r clashes with a Lean keyword / a name of the translation" % nm)

    def range_for(self, n, ind):
        self.count(n)
        cs = n.get("inner", [])
        if len(cs) != 8 or (isinstance(cs[0], dict) and cs[0].get("kind")):
            fail(n, "range-for shape (init statement?)")
        rng, beg, end, cond, inc, var, body = cs[1:]
        self.src(n, ind)

        def single(ds, name):
            self.count(ds)
            v = kids(ds)
            if ds.get("kind") != "DeclStmt" or len(v) != 1 or v[0].get("kind") != "VarDecl":
                fail(ds, "range-for %s declaration" % name)
            self.count(v[0])
            return v[0], kids(v[0])[0]
        rv, rinit = single(rng, "range")
        r = self.expr(rinit, ind)
        if r[0] != "obj" or not qt(rv).endswith("&"):
            fail(rng, "range expression of kind %s" % r[0])
        self.env[rv["id"]] = r
        bv, binit = single(beg, "begin")
        b = self.expr(binit, ind)
        ev, einit = single(end, "end")
        e = self.expr(einit, ind)
        pt = "const %s *" % self.tr.cname
        if b[0] != "wptr" or e[0] != "wptr" or b[1] != e[1] or qt(bv) not in (pt, self.tr.cname + " *") or qt(ev) != qt(bv):
            fail(n, "range-for iterators are not pointers into one limb array (%s, %s : %s)" % (b[0], e[0], qt(bv)))
        self.env[bv["id"]] = ("wptr", b[1], "__begin")
        self.env[ev["id"]] = ("wptr", b[1], "__end")
        # condition must be `__begin != __end`, increment `++__begin`, variable `auto v = *__begin`
        c = self.expr(cond, ind)
        if c != ("bool", "(__begin != __end)"):
            fail(cond, "range-for condition")
        self.count(inc)
        i0 = kids(inc)[0] if kids(inc) else {}
        if inc.get("kind") != "UnaryOperator" or inc.get("opcode") != "++" or i0.get("referencedDecl", {}).get("id") != bv["id"]:
            fail(inc, "range-for increment")
        self.count(i0)
        vv, vinit = single(var, "loop variable")
        x = vinit
        chain = []
        while x.get("kind") in ("ImplicitCastExpr", "UnaryOperator"):
            self.count(x)
            chain.append((x.get("kind"), x.get("castKind") or x.get("opcode")))
            x = kids(x)[0]
        self.count(x)
        if chain != [("ImplicitCastExpr", "LValueToRValue"), ("UnaryOperator", "*"), ("ImplicitCastExpr", "LValueToRValue")] or \
                x.get("referencedDecl", {}).get("id") != bv["id"] or strip_cv_ref(qt(vv)) != self.tr.cname or qt(vv).endswith("&"):
            fail(var, "range-for variable is not a copy of the element (`auto v : range`)")
        vn = vv["name"]
        self.check_name(vn, vv)
        self.env[vv["id"]] = ("limb", vn)
        bl, ba = self.assigned_in(self.body_of(body), ind + 2)
        vs = self.order(ba)
        if not vs:
            fail(n, "range-for body without effect on translated state")
        tup = vs[0] if len(vs) == 1 else "(" + ", ".join(vs) + ")"
        self.need_effects(n)
        self.emit("let %s ← Ss.forPtr %s (%s) (%s) %s fun %s %s => (" % (tup, self.data_of(b[1]), b[2], e[2], tup, tup, vn), ind)
        self.lines += bl
        self.emit("%s)" % tup, ind + 2)
        self.assigned |= set(vs)

    # ------------------------------------------------------------------ driver
    def translate(self):
        d = self.decl
        self.assigned = set()
        self.pure_depth = 0
        self.decl_order = []
        self.env_const = {}
        for p in [c for c in kids(d) if c.get("kind") == "ParmVarDecl"]:
            self.count(p)
            t = qt(p)
            core = strip_cv_ref(t)
            nm = p.get("name")
            if not nm:
                fail(p, "unnamed parameter")
            self.check_name(nm, p)
            if core in ("std::basic_ostream<char>", "std::basic_istream<char>", "std::ostream", "std::istream") and t.endswith("&") and not t.startswith("const"):
                self.params.append((nm, "Ss.Stream"))
                self.env[p["id"]] = ("stream", nm)
                self.decl_order.append(nm)
            elif core in ("cereal::BinaryOutputArchive", "cereal::BinaryInputArchive") and t.endswith("&"):
                self.params.append((nm, "Ss.Stream"))
                self.env[p["id"]] = ("arout" if "Output" in core else "arin", nm)
                self.decl_order.append(nm)
            elif core in (self.tr.poly_name, self.tr.poly_name2) and t.endswith("&"):
                self.params.append((nm + "_data", "List Nat"))
                self.env[p["id"]] = ("obj", nm)
                self.env_const[nm] = t.startswith("const")
                self.decl_order.append(nm + "_data")
            else:
                fail(p, "parameter of type %s" % t)
        for c in kids(d):
            if c.get("kind") not in ("ParmVarDecl", "CompoundStmt", "TemplateArgument", "FullComment"):
                fail(c, "unexpected child of the function")
        body = [c for c in kids(d) if c.get("kind") == "CompoundStmt"]
        if len(body) != 1:
            fail(d, "function without a body")
        if self.is_member:
            self.decl_order.insert(0, "data")
        self.stmt(body[0], 1)
        rt = d.get("type", {}).get("qualType", "").split("(")[0].strip()
        if not self.ended and rt != "void":
            fail(d, "control reaches the end of a non-void function")
        return self

    def render(self):
        ins = []
        if "T" in self.uses:
            ins.append("(T : Ss.CTy)")
        if "N" in self.uses:
            ins.append("(N : Nat)")
        if self.is_member and "data" in self.uses:
            ins.append("(data : List Nat)")
        ins += ["(%s : %s)" % p for p in self.params]
        doc = "/-- `%s`  (%s:%s)" % (self.sig, self.tr.short(self.decl.get("_file")), self.decl.get("_line"))
        if self.result and self.result[2] == "wptr":
            return "%s: element offset into `_data` of the returned pointer -/\ndef %s %s : Nat :=\n%s\n  %s" % (
                doc, self.name, " ".join(ins), "\n".join(l for l in self.lines if l.strip().startswith("--")), self.result[0])
        outs = self.order(self.state)
        types = ["List Nat" if v.endswith("data") else "Ss.Stream" for v in outs] + (["Bool"] if self.threw else [])
        vals = outs + (["threw"] if self.threw else [])
        doc += ": result = " + ", ".join(vals) + (" (threw: a cereal::Exception left the function)" if self.threw else "") + " -/"
        ret = "pure " + (vals[0] if len(vals) == 1 else "(" + ", ".join(vals) + ")")
        return "\n".join([doc, "def %s %s :\n    Option (%s) := do" % (self.name, " ".join(ins), " × ".join(types))] + self.lines + ["  " + ret])


class Translator:
    def __init__(self, repo, cname, deg, nmod):
        self.repo, self.cname, self.deg, self.nmod = repo, cname, deg, nmod
        self.kinds, self.files = {}, {}
        self.fns = {}
        self.order = []
        self.poly_name = "nfl::poly<%s, %d, %d>" % (cname, deg, nmod)
        self.poly_name2 = "poly<%s, %dUL, %dUL>" % (cname, deg, nmod)

    short = G.Translator.short
    source_line = G.Translator.source_line

    def check_array_type(self, n):
        want = "%s[%d]" % (self.cname, self.N_val)
        if strip_cv_ref(qt(n)) != want:
            fail(n, "_data has type %s, expected %s (N elements of the limb type)" % (qt(n), want))

    def const_N(self, d):
        """`static constexpr size_t N = Degree * NbModuli` -> Lean text, parameter names, value"""
        init = kids(d)
        if not (d.get("constexpr") and d.get("storageClass") == "static" and strip_cv_ref(qt(d)) == "unsigned long" and len(init) == 1):
            fail(d, "N is not a static constexpr size_t with one initialiser")
        names = []

        def ev(n):
            self.kinds[n.get("kind")] = self.kinds.get(n.get("kind"), 0) + 1
            k = n.get("kind")
            if k == "SubstNonTypeTemplateParmExpr":
                ks = kids(n)
                if len(ks) != 2 or ks[0].get("kind") != "NonTypeTemplateParmDecl" or ks[1].get("kind") != "IntegerLiteral" or strip_cv_ref(qt(n)) != "unsigned long":
                    fail(n, "template parameter substitution")
                if ks[0]["name"] not in names:
                    names.append(ks[0]["name"])
                return ks[0]["name"], int(ks[1]["value"])
            if k == "BinaryOperator" and n.get("opcode") in ("*", "+") and strip_cv_ref(qt(n)) == "unsigned long":
                a, b = ev(kids(n)[0]), ev(kids(n)[1])
                v = (a[1] * b[1]) if n["opcode"] == "*" else (a[1] + b[1])
                return "((%s %s %s) %% 2 ^ 64)" % (a[0], n["opcode"], b[0]), v % 2 ** 64
            if k in ("ParenExpr", "ConstantExpr"):
                return ev(kids(n)[0])
            fail(n, "initialiser of N")
        text, val = ev(init[0])
        return text, names, val

    def member_fn(self, mid, at):
        if mid not in self.fns:
            fail(at, "call of a member that is not translated")
        fn = self.fns[mid]
        if not getattr(fn, "done", False):
            fn.translate()
            fn.done = True
            self.order.append(fn)
        return fn

    def run(self, cls, shl):
        fields = [m for m in kids(cls) if m.get("kind") == "FieldDecl"]
        if [f.get("name") for f in fields] != ["_data"]:
            raise Unsupported("nfl::poly has the non-static data members %r, expected exactly [_data] (%s:%s)" % (
                [f.get("name") for f in fields], self.short(cls.get("_file")), cls.get("_line")))
        if cls.get("bases"):
            raise Unsupported("nfl::poly has base classes")
        self.data_id = fields[0]["id"]
        nd = [m for m in kids(cls) if m.get("kind") == "VarDecl" and m.get("name") == "N"]
        if len(nd) != 1:
            raise Unsupported("nfl::poly has no unique static member N")
        self.N_id = nd[0]["id"]
        self.N_text, self.N_params, self.N_val = self.const_N(nd[0])
        if self.N_params != ["Degree", "NbModuli"] or self.N_val != (self.deg * self.nmod) % 2 ** 64:
            fail(nd[0], "N = %s over %r evaluates to %d" % (self.N_text, self.N_params, self.N_val))
        self.N_decl = nd[0]
        self.check_array_type(fields[0])
        wanted = {}
        for m in kids(cls):
            k = m.get("kind")
            has_body = any(c.get("kind") == "CompoundStmt" for c in kids(m))
            if k == "CXXMethodDecl" and has_body and m.get("name") in ("serialize_manually", "deserialize_manually"):
                wanted.setdefault(m["name"], []).append(m)
            elif k == "CXXMethodDecl" and has_body and m.get("name") in ("begin", "end") and \
                    "const" in m.get("type", {}).get("qualType", "").rsplit(")", 1)[-1]:
                wanted.setdefault(m["name"] + "_const", []).append(m)
            elif k == "FunctionTemplateDecl" and m.get("name") in ("serialize", "save", "load"):
                for s in kids(m):
                    targ = [a.get("type", {}).get("qualType", "") for a in kids(s) if a.get("kind") == "TemplateArgument"]
                    if s.get("kind") == "CXXMethodDecl" and targ and any(c.get("kind") == "CompoundStmt" for c in kids(s)):
                        a = targ[0].split("::")[-1]
                        if not re.fullmatch(r"[A-Za-z_]\w*", a):
                            fail(s, "archive type %r" % targ[0])
                        wanted.setdefault("%s_%s" % (m["name"], a), []).append(s)
        need = ["serialize_manually", "deserialize_manually", "serialize_BinaryOutputArchive", "serialize_BinaryInputArchive", "begin_const", "end_const"]
        for nm in need:
            if len(wanted.get(nm, [])) != 1:
                raise Unsupported("nfl::poly: expected exactly one instantiated member %s, found %d (%s)" % (nm, len(wanted.get(nm, [])), sorted(wanted)))
        extra = sorted(set(wanted) - set(need))
        if extra:
            raise Unsupported("nfl::poly has serialisation members this translator does not know: %r" % extra)
        for nm in need:
            m = wanted[nm][0]
            fn = Fn(self, m, nm, True)
            fn.sig = "nfl::poly<T,Degree,NbModuli>::%s" % nm.replace("_const", " const").replace("_Binary", "<cereal::Binary").replace("Archive", "Archive>")
            self.fns[m["id"]] = fn
        for mid in list(self.fns):
            self.member_fn(mid, cls)
        fn = Fn(self, shl, "operator_shl", False)
        fn.sig = "nfl::operator<<(std::ostream&, poly<T,Degree,NbModuli> const&)"
        fn.translate()
        self.order.append(fn)
        return self.order


def clang_ast(repo, tu):
    inc = os.path.join(repo, "include")
    cmd = [CLANG, "-std=gnu++17", "-fsyntax-only", "-DNFL_OPTIMIZED", "-w",
           "-I" + inc, "-I" + os.path.join(inc, "nfl"), "-I" + os.path.join(inc, "nfl", "prng"),
           "-Xclang", "-ast-dump=json", "-Xclang", "-ast-dump-filter=nfl::", tu]
    r = subprocess.run(cmd, capture_output=True, text=True)
    if r.returncode != 0:
        errs = [l for l in r.stderr.splitlines() if "error:" in l][:6]
        raise SystemExit("gen_ser_ast: clang cannot compile the uses of the serialisers (rc=%d):\n%s" % (r.returncode, "\n".join(errs) or r.stderr[-2000:]))
    return r.stdout


def main():
    repo = os.environ.get("VERIF_REPO", "/repo")
    out = OUT
    if "--repo" in sys.argv:
        repo = sys.argv[sys.argv.index("--repo") + 1]
    if "--out" in sys.argv:
        out = sys.argv[sys.argv.index("--out") + 1]
    repo = os.path.abspath(repo)
    os.makedirs(BUILD, exist_ok=True)
    tu = os.path.join(BUILD, "ser_ast_tu.cpp")
    lines = [TU]
    for t, cn, n, m in INSTANCES:
        lines.append("template void nflverif_ser_use<nfl::poly<%s, %d, %d>>();" % (t, n, m))
    open(tu, "w").write("\n".join(lines) + "\n")
    txt = clang_ast(repo, tu)
    if "--keep" in sys.argv:
        open(os.path.join(BUILD, "ser_ast_dump.json"), "w").write(txt)
    try:
        objs = parse_objects(txt)
        annotate(objs)
        specs, shls = {}, {}
        for o in objs:
            if o.get("kind") == "ClassTemplateDecl" and o.get("name") == "poly":
                for c in kids(o):
                    if c.get("kind") == "ClassTemplateSpecializationDecl":
                        targs = [a.get("type", {}).get("qualType") or a.get("value") for a in kids(c) if a.get("kind") == "TemplateArgument"]
                        if any(x.get("kind") == "FieldDecl" for x in kids(c)):
                            specs[tuple(str(x) for x in targs)] = c
            if o.get("kind") == "FunctionTemplateDecl" and o.get("name") == "operator<<":
                for c in kids(o):
                    ps = [p for p in kids(c) if p.get("kind") == "ParmVarDecl"]
                    targs = [a.get("type", {}).get("qualType") or a.get("value") for a in kids(c) if a.get("kind") == "TemplateArgument"]
                    if c.get("kind") == "FunctionDecl" and len(ps) == 2 and re.match(r"(nfl::)?poly<", strip_cv_ref(qt(ps[1]))) and \
                            len(targs) == 3 and any(x.get("kind") == "CompoundStmt" for x in kids(c)):
                        key = "nfl::poly<%s, %s, %s>" % tuple(targs)
                        if key in shls:
                            raise Unsupported("two operator<< for %s" % key)
                        shls[key] = c
        texts, summaries = [], []
        for t, cn, n, m in INSTANCES:
            cls = specs.get((cn, str(n), str(m)))
            if cls is None:
                raise Unsupported("no instantiation nfl::poly<%s, %d, %d> in the AST" % (cn, n, m))
            shl = shls.get("nfl::poly<%s, %d, %d>" % (cn, n, m))
            if shl is None:
                raise Unsupported("no instantiation of nfl::operator<<(std::ostream&, poly<%s, %d, %d> const&) in the AST" % (cn, n, m))
            tr = Translator(repo, cn, n, m)
            fns = tr.run(cls, shl)
            ntext = "/-- `static constexpr size_t N = %s`  (%s:%s) -/\ndef N (%s : Nat) : Nat := %s" % (
                tr.source_line(tr.N_decl.get("_file"), tr.N_decl.get("_line")).split("=", 1)[-1].strip().rstrip(";"),
                tr.short(tr.N_decl.get("_file")), tr.N_decl.get("_line"), " ".join(tr.N_params), tr.N_text)
            text = "\n\n".join([ntext] + [f.render() for f in fns])
            texts.append(text)
            summaries.append({"instance": "poly<%s,%d,%d>" % (t, n, m), "functions": ["N"] + [f.name for f in fns],
                              "nodes": sum(f.nodes for f in fns), "kinds": tr.kinds})
        for i in range(1, len(texts)):
            if texts[0] != texts[i]:
                a, b = texts[0].splitlines(), texts[i].splitlines()
                diff = [(x, y) for x, y in zip(a, b) if x != y][:3]
                raise Unsupported("instantiations %s and %s translate to different text (first differences: %r; %d vs %d lines)" % (
                    summaries[0]["instance"], summaries[i]["instance"], diff, len(a), len(b)))
    except Unsupported as e:
        msg = "gen_ser_ast: UNSUPPORTED C++ construct, nothing translated: %s" % e
        sys.stderr.write(msg + "\n")
        print(json.dumps({"ok": False, "err": msg}))
        sys.exit(3)
    head = [
        "-- GENERATED by tools/gen_ser_ast.py from clang++-14's typed AST of include/nfl/poly.hpp / core.hpp (serialisers of",
        "-- nfl::poly<uint64_t,8,2>, checked to give the same text for nfl::poly<uint32_t,16,3> and nfl::poly<uint16_t,4,1>).  Do not edit.",
        "-- `data` = the values of `T _data[N]`; streams, iostream / cereal calls and the object representation: NflVerif/Model/StreamSem.lean.",
        "-- `none` = undefined behaviour (pointer range outside the array, negative count).",
        "import NflVerif.Model.StreamSem",
        "namespace Nfl.Gen.Ser",
        "open Nfl",
        "set_option linter.unusedVariables false",
        "",
    ]
    text = "\n".join(head) + "\n" + texts[0] + "\n\nend Nfl.Gen.Ser\n"
    changed = write_if_changed(out, text)
    print(json.dumps({"ok": True, "functions": summaries[0]["functions"], "nodes": [s["nodes"] for s in summaries],
                      "instances": [s["instance"] for s in summaries], "instances_agree": True,
                      "node_kinds": dict(sorted(summaries[0]["kinds"].items())),
                      "sha": hashlib.sha256(text.encode()).hexdigest()[:16], "changed": changed,
                      "out": os.path.relpath(out, VERIF), "repo": repo}))


if __name__ == "__main__":
    main()
