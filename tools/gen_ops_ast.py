#!/usr/bin/env python3
"""Translator: clang's typed AST of NFLlib's scalar functors -> lean/NflVerif/Generated/OpsAst.lean

  nfl::ops::{addmod,submod,compute_shoup,mulmod,mulmod_shoup,muladd,muladd_shoup}<T, nfl::simd::serial>::operator()
  for T = uint16_t, uint32_t, uint64_t, as instantiated by clang++-14 from the CURRENT text of $REPO/include/nfl.

Every expression node is translated by its C type with one helper of lean/NflVerif/Model/CSem.lean
(unsigned k-bit value = Nat < 2^k, `int` = residue mod 2^32, bool = Bool); statements become nested `let`s;
`P[cm]` / `Pn[cm]` become the parameters `P_cm` / `Pn_cm`.  Any node kind, cast kind, opcode or type that is not
listed here stops the translation with a non-zero exit (never guessed).
The last line of stdout is a JSON summary.  The output file is rewritten only when its content changes.
Usage: gen_ops_ast.py [--repo DIR] [--out FILE] [--keep]
"""
import hashlib, json, os, re, subprocess, sys

HERE = os.path.dirname(os.path.abspath(__file__))
VERIF = os.path.dirname(HERE)
BUILD = os.path.join(VERIF, "build")
OUT = os.path.join(VERIF, "lean", "NflVerif", "Generated", "OpsAst.lean")
CLANG = "clang++-14"

FUNCTORS = ["addmod", "submod", "compute_shoup", "mulmod", "mulmod_shoup", "muladd", "muladd_shoup"]
TYPES = [("uint16_t", "unsigned short", "u16"), ("uint32_t", "unsigned int", "u32"), ("uint64_t", "unsigned long", "u64")]

CANON = {"unsigned short": ("U", 16), "unsigned int": ("U", 32), "unsigned long": ("U", 64),
         "unsigned __int128": ("U", 128), "int": ("S", 32), "bool": ("B", 1)}
LEAN_KEYWORDS = set("""at by do else end fun from if in let match then with where have show def theorem instance
open namespace section variable structure inductive class deriving import export mutual partial private protected
return for unless break continue try catch finally nomatch nofun Type Sort Prop""".split())


class Unsupported(Exception):
    pass


def fail(node, why):
    raise Unsupported("%s: node kind %s at %s:%s" % (why, node.get("kind"), os.path.basename(str(node.get("_file"))), node.get("_line")))


# ------------------------------------------------------------------------------------------------ AST loading
def make_tu(repo):
    os.makedirs(BUILD, exist_ok=True)
    tu = os.path.join(BUILD, "ops_ast_tu.cpp")
    lines = ['#include "nfl.hpp"']
    for f in FUNCTORS:
        for t, _, _ in TYPES:
            lines.append("template struct nfl::ops::%s<%s, nfl::simd::serial>;" % (f, t))
    open(tu, "w").write("\n".join(lines) + "\n")
    return tu


def clang_ast(repo, tu):
    inc = os.path.join(repo, "include")
    cmd = [CLANG, "-std=gnu++17", "-fsyntax-only", "-DNFL_OPTIMIZED", "-Wno-instantiation-after-specialization",
           "-I" + inc, "-I" + os.path.join(inc, "nfl"), "-I" + os.path.join(inc, "nfl", "prng"),
           "-Xclang", "-ast-dump=json", "-Xclang", "-ast-dump-filter=nfl::", tu]
    r = subprocess.run(cmd, capture_output=True, text=True)
    if r.returncode != 0:
        raise SystemExit("gen_ops_ast: clang failed (rc=%d):\n%s" % (r.returncode, r.stderr[-3000:]))
    return r.stdout


def parse_objects(txt):
    dec = json.JSONDecoder()
    i, n, objs = 0, len(txt), []
    while True:
        while i < n and txt[i].isspace():
            i += 1
        if i >= n:
            break
        if txt[i] != "{":            # "Dumping nfl::…:" header lines
            j = txt.find("\n", i)
            i = n if j < 0 else j
            continue
        o, i = dec.raw_decode(txt, i)
        objs.append(o)
    return objs


class LocState:
    """clang's JSON dumper prints `file` and `line` only when they change; replay that state in document order."""

    def __init__(self):
        self.file, self.line = None, None

    def bare(self, d):
        if "file" in d:
            self.file = d["file"]
        if "line" in d:
            self.line = d["line"]
        return (self.file, self.line)

    def loc(self, d):
        if not isinstance(d, dict) or not d:
            return None
        if "spellingLoc" in d or "expansionLoc" in d:
            self.bare(d.get("spellingLoc", {}))
            return self.bare(d.get("expansionLoc", {}))
        return self.bare(d)


def annotate(objs):
    """attach _file/_line (begin of the node, expansion location for macros) to every node; index by id"""
    st = LocState()
    byid = {}

    def walk(n, parent):
        pos = None
        for key, v in list(n.items()):
            if key == "loc":
                p = st.loc(v)
                pos = pos or p
            elif key == "range":
                b = st.loc(v.get("begin", {}))
                st.loc(v.get("end", {}))
                pos = b or pos
            elif key == "inner":
                if pos is None:
                    pos = (st.file, st.line)
                n["_file"], n["_line"] = pos
                for c in v:
                    if isinstance(c, dict):
                        walk(c, n)
        if "_line" not in n:
            if pos is None:
                pos = (st.file, st.line)
            n["_file"], n["_line"] = pos
        n["_parent"] = parent
        if "id" in n and ("inner" in n or n["id"] not in byid):
            byid[n["id"]] = n
    for o in objs:
        walk(o, None)
    return byid


# ------------------------------------------------------------------------------------------------ types
def ctype_of_str(q):
    q = q.strip()
    while q.startswith("const "):
        q = q[6:].strip()
    if q.endswith(" const"):
        q = q[:-6].strip()
    return CANON.get(q)


def ctype(node):
    t = node.get("type") or {}
    for key in ("desugaredQualType", "qualType"):
        if key in t:
            c = ctype_of_str(t[key])
            if c:
                return c
    fail(node, "unknown C type %r" % (t,))


def is_const(node):
    t = node.get("type") or {}
    q = t.get("desugaredQualType", t.get("qualType", ""))
    return q.startswith("const ") or q.endswith(" const")


def tyname(t):
    return {"U": "unsigned %d-bit" % t[1], "S": "int", "B": "bool"}[t[0]]


INT_MIN, INT_MAX = -2 ** 31, 2 ** 31 - 1


def full_range(t):
    if t[0] == "U":
        return (0, 2 ** t[1] - 1)
    if t[0] == "S":
        return (INT_MIN, INT_MAX)
    return (0, 1)


# ------------------------------------------------------------------------------------------------ translation
class Val:
    """translated prvalue: Lean text, C type, interval of the mathematical value, constant value if known"""

    def __init__(self, s, t, rng=None, const=None, atom=False):
        self.s, self.t, self.const, self.atom = s, t, const, atom
        self.rng = rng if rng is not None else ((const, const) if const is not None else full_range(t))

    def p(self):
        return self.s if self.atom else "(" + self.s + ")"


class Var:
    def __init__(self, name, t, init, const=None, is_const=False):
        self.name, self.t, self.init, self.const, self.is_const = name, t, init, const, is_const


class Fn:
    def __init__(self, tr, fname, suffix, method, cls):
        self.tr, self.fname, self.suffix, self.method, self.cls = tr, fname, suffix, method, cls
        self.lean_name = "%s_%s" % (fname, suffix)
        self.env = {}           # decl id -> Var
        self.names = {}         # lean name -> decl id
        self.arrays = []        # array parameters in use, subset of ["P", "Pn"] in that order
        self.array_t = {}
        self.params = []        # (lean name, ctype) of the value parameters
        self.cm_id = None
        self.nodes = 0
        self.ret_t = None
        self.body_lines = []

    # ---------- helpers
    def count(self, n):
        self.nodes += 1
        self.tr.kinds[n.get("kind")] = self.tr.kinds.get(n.get("kind"), 0) + 1

    def src(self, n):
        f, l = n.get("_file"), n.get("_line")
        text = self.tr.source_line(f, l)
        return "%s:%s  %s" % (self.tr.short(f), l, text)

    def declare(self, decl, init, const=None):
        name = decl.get("name")
        if not name or not re.fullmatch(r"[A-Za-z_][A-Za-z0-9_]*", name):
            fail(decl, "unusable identifier %r" % name)
        lname = name + "_" if (name in LEAN_KEYWORDS or name in ("P_cm", "Pn_cm")) else name
        if lname in self.names and self.names[lname] != decl["id"]:
            fail(decl, "two C++ variables named %r in one function (shadowing is not translated)" % name)
        self.names[lname] = decl["id"]
        v = Var(lname, ctype(decl), init, const, is_const(decl))
        self.env[decl["id"]] = v
        return v

    def use_array(self, name, t):
        if name not in self.arrays:
            self.arrays.append(name)
            self.arrays.sort(key=["P", "Pn"].index)
        if self.array_t.setdefault(name, t) != t:
            raise Unsupported("array %s used at two element types" % name)

    # ---------- lvalues
    def strip_paren(self, n):
        while n.get("kind") == "ParenExpr":
            self.count(n)
            n = n["inner"][0]
        return n

    def is_cm(self, n):
        """n is (an rvalue of) the functor's own `cm` parameter"""
        if n.get("kind") == "ImplicitCastExpr" and n.get("castKind") == "LValueToRValue":
            self.count(n)
            n = self.strip_paren(n["inner"][0])
        if n.get("kind") == "DeclRefExpr" and n.get("referencedDecl", {}).get("id") == self.cm_id:
            self.count(n)
            return True
        return False

    def load(self, n):
        """value stored in the lvalue n"""
        n = self.strip_paren(n)
        k = n.get("kind")
        if k == "DeclRefExpr":
            self.count(n)
            rd = n.get("referencedDecl", {})
            if rd.get("id") in self.env:
                v = self.env[rd["id"]]
                if ctype(n) != v.t:
                    fail(n, "type of the reference differs from the declaration")
                if not v.init:
                    fail(n, "read of the uninitialised variable %s" % v.name)
                return Val(v.name, v.t, const=v.const, atom=True)
            if rd.get("kind") == "VarDecl":
                c = self.tr.global_const(rd, n)
                t = ctype(n)
                return Val(str(c), t, const=c, atom=True)
            fail(n, "reference to %s %r" % (rd.get("kind"), rd.get("name")))
        if k == "ArraySubscriptExpr":
            self.count(n)
            base, idx = n["inner"]
            if not (base.get("kind") == "ImplicitCastExpr" and base.get("castKind") == "ArrayToPointerDecay"):
                fail(base, "array base")
            self.count(base)
            ref = base["inner"][0]
            if ref.get("kind") != "DeclRefExpr":
                fail(ref, "array base")
            self.count(ref)
            rd = ref.get("referencedDecl", {})
            name = rd.get("name")
            decl = self.tr.byid.get(rd.get("id"))
            owner = decl.get("_parent") if decl else None
            if name not in ("P", "Pn") or not owner or owner.get("name") != "params" or \
                    owner.get("kind") != "ClassTemplateSpecializationDecl":
                fail(ref, "array %r is not nfl::params<T>::P / Pn" % name)
            if not self.is_cm(idx):
                fail(idx, "array index is not the functor's `cm` parameter")
            t = ctype(n)
            self.use_array(name, t)
            return Val(name + "_cm", t, atom=True)
        fail(n, "unknown lvalue")

    def target(self, n):
        """the local variable an assignment writes"""
        n = self.strip_paren(n)
        if n.get("kind") != "DeclRefExpr" or n.get("referencedDecl", {}).get("id") not in self.env:
            fail(n, "assignment target is not a local variable or parameter")
        self.count(n)
        v = self.env[n["referencedDecl"]["id"]]
        if v.is_const:
            fail(n, "assignment to a const object")
        return v

    # ---------- conversions
    def convert(self, v, to, n):
        fr = v.t
        if fr == to:
            return v
        lo, hi = v.rng
        if fr[0] == "U" and to[0] == "U":
            rng = v.rng if hi <= 2 ** to[1] - 1 else None
            c = None if v.const is None else v.const % 2 ** to[1]
            return Val("CSem.castU %d %s" % (to[1], v.p()), to, rng, c)
        if fr[0] == "U" and to[0] == "S":
            rng = v.rng if hi <= INT_MAX else None
            c = v.const if (v.const is not None and v.const <= INT_MAX) else None
            return Val("CSem.castUS %d %s" % (fr[1], v.p()), to, rng, c)
        if fr[0] == "S" and to[0] == "U":
            rng = v.rng if (lo >= 0 and hi <= 2 ** to[1] - 1) else None
            c = None if v.const is None else v.const % 2 ** to[1]
            return Val("CSem.castSU %d %s" % (to[1], v.p()), to, rng, c)
        fail(n, "conversion %s -> %s" % (tyname(fr), tyname(to)))

    # ---------- rvalues
    def expr(self, n):
        k = n.get("kind")
        self.count(n)
        if k in ("ParenExpr", "ExprWithCleanups", "ConstantExpr"):
            if k == "ConstantExpr" and "value" in n and ctype(n)[0] != "B":
                t = ctype(n)
                c = int(n["value"])
                return Val(str(c % 2 ** 32 if t[0] == "S" else c), t, const=c, atom=True)
            return self.expr(n["inner"][0])
        if k == "IntegerLiteral":
            t = ctype(n)
            c = int(n["value"])
            if c < 0:
                fail(n, "negative literal")
            return Val(str(c), t, const=c, atom=True)
        if k in ("ImplicitCastExpr", "CStyleCastExpr", "CXXStaticCastExpr", "CXXFunctionalCastExpr"):
            ck = n.get("castKind")
            if ck == "LValueToRValue":
                if n.get("valueCategory") != "prvalue":
                    fail(n, "LValueToRValue not yielding a prvalue")
                v = self.load(n["inner"][0])
                if v.t != ctype(n):
                    fail(n, "LValueToRValue changes the type")
                return v
            if ck == "NoOp":
                v = self.expr(n["inner"][0])
                if v.t != ctype(n):
                    fail(n, "NoOp cast changes the type")
                return v
            if ck == "IntegralCast":
                v = self.expr(n["inner"][0])
                return self.convert(v, ctype(n), n)
            fail(n, "cast kind %r" % ck)
        if k == "BinaryOperator":
            return self.binop(n, n.get("opcode"), self.expr(n["inner"][0]), self.expr(n["inner"][1]), ctype(n))
        if k == "ConditionalOperator":
            c, a, b = [self.expr(x) for x in n["inner"]]
            t = ctype(n)
            if c.t[0] != "B" or a.t != t or b.t != t:
                fail(n, "operand types of ?:")
            rng = (min(a.rng[0], b.rng[0]), max(a.rng[1], b.rng[1]))
            return Val("if %s then %s else %s" % (c.s, a.s, b.s), t, rng)
        if k == "CXXOperatorCallExpr":
            return self.call(n)
        fail(n, "unknown expression")

    OPS_U = {"+": "addU", "-": "subU", "*": "mulU", "/": "divU", "%": "modU"}
    OPS_S = {"+": "addS32", "-": "subS32", "*": "mulS32"}
    CMP = {">=": "ge", ">": "gt", "<=": "le", "<": "lt", "==": "eq", "!=": "ne"}

    def binop(self, n, op, a, b, t):
        if op in self.CMP:
            if t[0] != "B" or a.t != b.t or a.t[0] not in "US":
                fail(n, "operand types of comparison %s" % op)
            return Val("CSem.%s%s %s %s" % (self.CMP[op], "U" if a.t[0] == "U" else "S32", a.p(), b.p()), t)
        if op in ("<<", ">>"):
            if t[0] != "U" or a.t != t:
                fail(n, "shift of a non-unsigned value")
            if b.const is None or not (0 <= b.const < t[1]):
                fail(n, "shift count is not a compile-time constant below the width %d" % t[1])
            return Val("CSem.%s %d %s %s" % ("shlU" if op == "<<" else "shrU", t[1], a.p(), b.p()), t)
        if a.t != t or b.t != t:
            fail(n, "operand types of %s (usual arithmetic conversions not explicit?)" % op)
        if t[0] == "U" and op in self.OPS_U:
            if op in ("/", "%") and not (b.const is not None and b.const != 0):
                self.tr.div_sites.append({"functor": self.lean_name, "line": n.get("_line"), "file": self.tr.short(n.get("_file")), "op": op,
                                          "note": "divisor not a non-zero constant: C++ undefined for 0, Lean n/0=0, n%0=n"})
            return Val("CSem.%s %d %s %s" % (self.OPS_U[op], t[1], a.p(), b.p()), t)
        if t[0] == "S" and op in self.OPS_S:
            (al, ah), (bl, bh) = a.rng, b.rng
            if op == "+":
                lo, hi = al + bl, ah + bh
            elif op == "-":
                lo, hi = al - bh, ah - bl
            else:
                c = [al * bl, al * bh, ah * bl, ah * bh]
                lo, hi = min(c), max(c)
            rng = (lo, hi)
            if lo < INT_MIN or hi > INT_MAX:
                self.tr.ub_sites.append({"functor": self.lean_name, "file": self.tr.short(n.get("_file")), "line": n.get("_line"), "op": "int " + op,
                                         "math_range": [lo, hi], "source": self.tr.source_line(n.get("_file"), n.get("_line"))})
                rng = None
            return Val("CSem.%s %s %s" % (self.OPS_S[op], a.p(), b.p()), t, rng)
        fail(n, "binary operator %r in type %s" % (op, tyname(t)))

    def call(self, n):
        inner = n["inner"]
        callee = inner[0]
        if not (callee.get("kind") == "ImplicitCastExpr" and callee.get("castKind") == "FunctionToPointerDecay"
                and callee["inner"][0].get("kind") == "DeclRefExpr"):
            fail(callee, "callee of operator call")
        self.count(callee)
        self.count(callee["inner"][0])
        mid = callee["inner"][0]["referencedDecl"].get("id")
        target = self.tr.by_method.get(mid)
        if target is None:
            fail(n, "call of a function that is not one of the translated functors")
        # the object is a value-initialised temporary of the (stateless) functor class
        obj = inner[1]
        allowed = ("ImplicitCastExpr", "MaterializeTemporaryExpr", "CXXFunctionalCastExpr", "InitListExpr", "CXXTemporaryObjectExpr", "CXXBindTemporaryExpr")
        while True:
            if obj.get("kind") not in allowed or (obj.get("kind") in ("ImplicitCastExpr", "CXXFunctionalCastExpr") and obj.get("castKind") != "NoOp"):
                fail(obj, "functor object of the call")
            self.count(obj)
            sub = obj.get("inner", [])
            if not sub:
                break
            if len(sub) != 1:
                fail(obj, "functor object with initialisers")
            obj = sub[0]
        if target.has_fields:
            fail(n, "called functor class has data members")
        args = inner[2:]
        if len(args) != len(target.params) + 1:
            fail(n, "argument count")
        vals = []
        for a, (pn, pt) in zip(args[:-1], target.params):
            v = self.expr(a)
            if v.t != pt:
                fail(a, "argument type")
            vals.append(v)
        if not self.is_cm(args[-1]):
            fail(args[-1], "last argument of the call is not the caller's own `cm`")
        for arr in target.arrays:
            self.use_array(arr, target.array_t[arr])
        s = " ".join([target.lean_name] + [arr + "_cm" for arr in target.arrays] + [v.p() for v in vals])
        if ctype(n) != target.ret_t:
            fail(n, "return type of the call")
        return Val(s, target.ret_t)

    # ---------- statements
    def assigned(self, n, acc):
        k = n.get("kind")
        if k in ("CompoundAssignOperator",) or (k == "BinaryOperator" and n.get("opcode") == "=") or \
                (k == "UnaryOperator" and n.get("opcode") in ("++", "--")):
            t = n["inner"][0]
            while t.get("kind") == "ParenExpr":
                t = t["inner"][0]
            rid = t.get("referencedDecl", {}).get("id")
            if rid in self.env and rid not in acc:
                acc.append(rid)
        for c in n.get("inner", []):
            if isinstance(c, dict):
                self.assigned(c, acc)
        return acc

    def stmts(self, lst, ind, final):
        """translate a statement list into `let` lines; `final`: None = must end in return; else the Lean text of
        the value of the block (the variable a branch/loop body yields)"""
        out = []
        pad = "  " * ind
        for i, s in enumerate(lst):
            k = s.get("kind")
            self.count(s)
            if k == "NullStmt":
                continue
            if k == "CompoundStmt":
                fail(s, "nested block (scoping is not translated)")
            if k == "DeclStmt":
                for d in s["inner"]:
                    self.count(d)
                    dk = d.get("kind")
                    if dk in ("TypeAliasDecl", "TypedefDecl", "StaticAssertDecl"):
                        continue
                    if dk != "VarDecl":
                        fail(d, "declaration")
                    if d.get("storageClass"):
                        fail(d, "storage class %r" % d.get("storageClass"))
                    if "init" in d:
                        if d["init"] != "c":
                            fail(d, "initialisation style %r" % d["init"])
                        e = [c for c in d["inner"] if "kind" in c]
                        if len(e) != 1:
                            fail(d, "initialiser shape")
                        v = self.expr(e[0])
                        var = self.declare(d, True)
                        if v.t != var.t:
                            fail(d, "initialiser type")
                        if var.is_const:
                            var.const = v.const
                        out.append("%s-- %s" % (pad, self.src(s)))
                        out.append("%slet %s := %s" % (pad, var.name, v.s))
                    else:
                        if d.get("inner"):
                            fail(d, "declaration without init but with children")
                        self.declare(d, False)
                        out.append("%s-- %s   (declared, no value yet)" % (pad, self.src(s)))
                continue
            if k == "BinaryOperator" and s.get("opcode") == "=":
                var = self.target(s["inner"][0])
                v = self.expr(s["inner"][1])
                if v.t != var.t or ctype(s) != var.t:
                    fail(s, "assignment type")
                var.init = True
                out.append("%s-- %s" % (pad, self.src(s)))
                out.append("%slet %s := %s" % (pad, var.name, v.s))
                continue
            if k == "CompoundAssignOperator":
                var = self.target(s["inner"][0])
                if not var.init:
                    fail(s, "compound assignment to an uninitialised variable")
                op = s.get("opcode", "")
                if not op.endswith("=") or op[:-1] not in ("+", "-", "*", "/", "%"):
                    fail(s, "compound assignment %r" % op)
                lt = ctype_of_str(s.get("computeLHSType", {}).get("qualType", ""))
                rt = ctype_of_str(s.get("computeResultType", {}).get("qualType", ""))
                if not lt or not rt or lt != rt:
                    fail(s, "computation types of the compound assignment")
                a = self.convert(Val(var.name, var.t, atom=True), lt, s)
                b = self.expr(s["inner"][1])
                r = self.binop(s, op[:-1], a, b, rt)
                r = self.convert(r, var.t, s)
                out.append("%s-- %s" % (pad, self.src(s)))
                out.append("%slet %s := %s" % (pad, var.name, r.s))
                continue
            if k == "IfStmt":
                parts = s["inner"]
                if s.get("hasInit") or s.get("hasVar") or s.get("isConstexpr") or len(parts) not in (2, 3):
                    fail(s, "if statement shape")
                c = self.expr(parts[0])
                if c.t[0] != "B":
                    fail(parts[0], "condition type")
                acc = []
                for b in parts[1:]:
                    self.assigned(b, acc)
                if len(acc) != 1:
                    fail(s, "if statement assigning %d variables (exactly one is translated)" % len(acc))
                var = self.env[acc[0]]
                if not var.init:
                    fail(s, "conditional first assignment")
                out.append("%s-- %s" % (pad, self.src(s)))
                out.append("%slet %s :=" % (pad, var.name))
                out.append("%s  if %s then" % (pad, c.s))
                out += self.block(parts[1], ind + 2, var.name)
                out.append("%s  else" % pad)
                if len(parts) == 3:
                    out += self.block(parts[2], ind + 2, var.name)
                else:
                    out.append("%s    %s" % (pad, var.name))
                continue
            if k == "WhileStmt":
                parts = s["inner"]
                if s.get("hasVar") or len(parts) != 2:
                    fail(s, "while statement shape")
                acc = self.assigned(parts[1], [])
                self.assigned(parts[0], acc)
                if len(acc) != 1:
                    fail(s, "loop assigning %d variables (exactly one is translated)" % len(acc))
                var = self.env[acc[0]]
                if not var.init or var.t[0] != "U":
                    fail(s, "loop variable")
                var.const = None
                c = self.expr(parts[0])
                if c.t[0] != "B":
                    fail(parts[0], "condition type")
                out.append("%s-- %s" % (pad, self.src(s)))
                out.append("%s--   fuel 2^%d = number of states of `%s` (a terminating deterministic loop never exhausts it)" % (pad, var.t[1], var.name))
                out.append("%slet %s := CSem.whileFuel (fun %s => %s) (fun %s =>" % (pad, var.name, var.name, c.s, var.name))
                out += self.block(parts[1], ind + 2, var.name)
                out[-1] += ") (2 ^ %d) %s" % (var.t[1], var.name)
                continue
            if k == "ReturnStmt":
                if final is not None or i != len(lst) - 1:
                    fail(s, "return that is not the last statement of the function")
                v = self.expr(s["inner"][0])
                if v.t != self.ret_t:
                    fail(s, "type of the returned expression")
                out.append("%s-- %s" % (pad, self.src(s)))
                out.append("%s%s" % (pad, v.s))
                return out
            fail(s, "unknown statement")
        if final is None:
            raise Unsupported("%s: function body does not end in a return statement" % self.lean_name)
        out.append("%s%s" % (pad, final))
        return out

    def block(self, n, ind, final):
        if n.get("kind") == "CompoundStmt":
            self.count(n)
            lst = n.get("inner", [])
        else:
            lst = [n]
        for s in lst:
            if s.get("kind") == "DeclStmt":
                fail(s, "declaration inside a branch / loop body")
        return self.stmts(lst, ind, final)

    # ---------- whole function
    def translate(self):
        m = self.method
        self.has_fields = any(c.get("kind") == "FieldDecl" for c in self.cls.get("inner", []))
        if m.get("storageClass") or m.get("virtual"):
            fail(m, "method kind")
        parms = [c for c in m["inner"] if c.get("kind") == "ParmVarDecl"]
        body = [c for c in m["inner"] if c.get("kind") == "CompoundStmt"]
        other = [c for c in m["inner"] if c.get("kind") not in ("ParmVarDecl", "CompoundStmt")]
        if len(body) != 1 or other or len(parms) < 2:
            fail(m, "operator() shape")
        cm = parms[-1]
        tq = cm["type"].get("desugaredQualType", cm["type"]["qualType"])
        if cm.get("name") != "cm" or tq != "unsigned long":
            fail(cm, "last parameter is not `size_t cm`")
        self.cm_id = cm["id"]
        self.count(m)
        for p in parms[:-1]:
            self.count(p)
            v = self.declare(p, True)
            self.params.append((v.name, v.t))
        self.count(cm)
        # return type = type of the class's T (read from the first parameter-independent source: the call expression
        # types are checked against it); take it from the method's own type string after desugaring by clang
        self.ret_t = self.tr.return_type(m)
        self.count(body[0])
        self.body_lines = self.stmts(body[0].get("inner", []), 1, None)
        return self

    def render(self):
        ps = [a + "_cm" for a in self.arrays] + [n for n, _ in self.params]
        doc = ["/-- `nfl::ops::%s<%s, nfl::simd::serial>::operator()`  (%s:%s).",
               "C types: " + ", ".join(["%s : %s" % (a + "_cm", tyname(self.array_t[a])) for a in self.arrays] +
                                        ["%s : %s" % (n, tyname(t)) for n, t in self.params]) + "; result " + tyname(self.ret_t) + ". -/"]
        doc[0] = doc[0] % (self.fname, self.tr.cname[self.suffix], self.tr.short(self.method.get("_file")), self.method.get("_line"))
        return "\n".join(doc + ["def %s (%s : Nat) : Nat :=" % (self.lean_name, " ".join(ps))] + self.body_lines)


class Translator:
    def __init__(self, repo):
        self.repo = repo
        self.ub_sites, self.div_sites, self.kinds = [], [], {}
        self.by_method = {}
        self.files = {}
        self.cname = {s: c for _, c, s in TYPES}

    def short(self, f):
        """path below $REPO/include (the generated text must not depend on where the repo lives)"""
        f = str(f)
        inc = os.path.join(self.repo, "include") + os.sep
        return f[len(inc):] if f.startswith(inc) else os.path.basename(f)

    def source_line(self, f, l):
        try:
            if f not in self.files:
                self.files[f] = open(f, errors="replace").read().splitlines()
            return self.files[f][int(l) - 1].strip()
        except Exception:
            return "?"

    def global_const(self, rd, at):
        d = self.byid.get(rd.get("id"))
        if d is None or d.get("kind") != "VarDecl" or not (d.get("constexpr") or is_const(d)):
            fail(at, "reference to a non-constant global %r" % rd.get("name"))
        init = [c for c in d.get("inner", []) if "kind" in c and c["kind"] not in ("FullComment",)]
        if len(init) != 1:
            fail(at, "constant %r has no single initialiser" % rd.get("name"))
        return self.const_eval(init[0], ctype(d))

    def const_eval(self, n, to):
        k = n.get("kind")
        if k in ("ConstantExpr", "IntegerLiteral") and "value" in n:
            c = int(n["value"])
        elif k in ("ImplicitCastExpr", "CStyleCastExpr", "CXXStaticCastExpr", "ParenExpr", "ConstantExpr") and \
                n.get("castKind", "IntegralCast") in ("IntegralCast", "NoOp"):
            c = self.const_eval(n["inner"][0], ctype(n))
        else:
            fail(n, "constant initialiser")
        t = ctype(n)
        if t[0] == "U":
            c %= 2 ** t[1]
        elif not (INT_MIN <= c <= INT_MAX):
            fail(n, "constant out of int range")
        if to[0] == "U":
            c %= 2 ** to[1]
        return c

    def run(self, txt):
        objs = parse_objects(txt)
        self.byid = annotate(objs)
        # typedef names -> canonical type (for return types written with a class-local alias such as `T`)
        self.typedefs = {}
        for n in self.byid.values():
            if n.get("kind") in ("TypeAliasDecl", "TypedefDecl") and n.get("name"):
                t = n.get("type", {})
                c = ctype_of_str(t.get("desugaredQualType", t.get("qualType", "")))
                par = n.get("_parent") or {}
                if c and par.get("kind") in ("ClassTemplateSpecializationDecl", "CXXRecordDecl"):
                    self.typedefs.setdefault((par.get("id"), n["name"]), c)
        found = {}
        for n in self.byid.values():
            if n.get("kind") != "ClassTemplateSpecializationDecl" or n.get("name") not in FUNCTORS:
                continue
            par = n.get("_parent")
            if par is not None and par.get("kind") not in ("ClassTemplateDecl", "NamespaceDecl"):
                continue
            targs = [a.get("type", {}).get("qualType") for a in n.get("inner", []) if a.get("kind") == "TemplateArgument"]
            if len(targs) != 2 or targs[1] != "nfl::simd::serial":
                continue
            suf = [s for _, c, s in TYPES if c == targs[0]]
            if not suf:
                continue
            ms = [c for c in n.get("inner", []) if c.get("kind") == "CXXMethodDecl" and c.get("name") == "operator()"
                  and any(x.get("kind") == "CompoundStmt" for x in c.get("inner", []))]
            if len(ms) != 1:
                continue
            key = (n["name"], suf[0])
            if key in found and found[key][0]["id"] != ms[0]["id"]:
                raise Unsupported("two instantiations of %s<%s>" % key)
            found[key] = (ms[0], n)
        fns = []
        for f in FUNCTORS:                      # callees (addmod) come before callers (submod)
            for _, cn, suf in TYPES:
                if (f, suf) not in found:
                    raise Unsupported("no instantiated operator() found for nfl::ops::%s<%s, nfl::simd::serial>" % (f, cn))
                m, cls = found[(f, suf)]
                fn = Fn(self, f, suf, m, cls)
                fn.translate()
                self.by_method[m["id"]] = fn
                fns.append(fn)
        return fns

    def return_type(self, m):
        # the JSON gives the return type only as written (e.g. `T`): canonical names directly, class-local aliases
        # through the TypeAliasDecl of the enclosing class
        written = m["type"]["qualType"].split("(")[0].strip()
        t = ctype_of_str(written)
        if t:
            return t
        cls = m.get("_parent") or {}
        short = written.split("::")[-1]
        t = self.typedefs.get((cls.get("id"), short))
        if t:
            return t
        fail(m, "cannot resolve the return type %r" % written)


def write_if_changed(path, text):
    old = open(path).read() if os.path.exists(path) else None
    if old != text:
        os.makedirs(os.path.dirname(path), exist_ok=True)
        open(path, "w").write(text)
        return True
    return False


def main():
    repo = os.environ.get("VERIF_REPO", "/repo")
    out = OUT
    if "--repo" in sys.argv:
        repo = sys.argv[sys.argv.index("--repo") + 1]
    if "--out" in sys.argv:
        out = sys.argv[sys.argv.index("--out") + 1]
    repo = os.path.abspath(repo)
    tu = make_tu(repo)
    txt = clang_ast(repo, tu)
    if "--keep" in sys.argv:
        open(os.path.join(BUILD, "ops_ast_dump.json"), "w").write(txt)
    tr = Translator(repo)
    try:
        fns = tr.run(txt)
    except Unsupported as e:
        msg = "gen_ops_ast: UNSUPPORTED C++ construct, nothing translated: %s" % e
        sys.stderr.write(msg + "\n")
        print(json.dumps({"ok": False, "err": msg}))
        sys.exit(3)
    head = [
        "-- GENERATED by tools/gen_ops_ast.py from clang++-14's typed AST of include/nfl/ops.hpp and include/nfl/opt/ops.hpp",
        "-- (explicit instantiations for uint16_t / uint32_t / uint64_t, -DNFL_OPTIMIZED, no CHECK_STRICTMOD).  Do not edit.",
        "-- One `let` per C++ statement, one CSem helper per typed expression node; P[cm] / Pn[cm] are the parameters P_cm / Pn_cm.",
        "import NflVerif.Model.CSem",
        "namespace Nfl.Gen",
        "open Nfl",
        "",
    ]
    text = "\n".join(head) + "\n" + "\n\n".join(f.render() for f in fns) + "\n\nend Nfl.Gen\n"
    changed = write_if_changed(out, text)
    print(json.dumps({
        "ok": True, "functors": [f.lean_name for f in fns], "nodes": sum(f.nodes for f in fns),
        "node_kinds": dict(sorted(tr.kinds.items())),
        "ub_wrap_assumed": tr.ub_sites, "ub_div_sites": tr.div_sites,
        "sha": hashlib.sha256(text.encode()).hexdigest()[:16], "changed": changed,
        "out": os.path.relpath(out, VERIF), "repo": repo}))


if __name__ == "__main__":
    main()
