#!/bin/sh
# merge_agent.sh <agent verif copy>: copy files an agent added/changed, except shared ones (listed for manual merge)
A="$1"
cd "$A" || exit 1
rsync -a --itemize-changes --ignore-existing \
  --exclude /build --exclude .lake --exclude /evidence --exclude /MANIFEST.json --exclude /lean/Driver/Main.lean \
  --exclude /tools/checklib.py --exclude /tools/props.py --exclude /check --exclude /AGENT_GUIDE.md --exclude /DESIGN.md \
  --exclude /known_findings.json --exclude /lean/NflVerif/Generated --exclude __pycache__ --exclude /lean/lake-manifest.json \
  --exclude /lean/registry.d/C0[1236].json --exclude /tools/props_d/C0[12].py --exclude /tools/props_d/_ntt_common.py \
  --exclude /harness/ntt.cpp --exclude /lean/NflVerif/Proofs/NttRefine*.lean --exclude /lean/NflVerif/Properties/C0[12].lean \
  --exclude /tools/manifest_texts.d/C0[1236].json --exclude /setup.sh --exclude /tools/manifest_texts.json \
  ./ /verif/ | grep -v "^\.d\|^cd" 
echo "--- existing files that differ in the agent copy (NOT copied; merge by hand if the agent changed them):"
rsync -a --dry-run --itemize-changes --checksum --existing --exclude /build --exclude .lake --exclude /evidence --exclude /MANIFEST.json --exclude __pycache__ --exclude /lean/NflVerif/Generated --exclude /lean/lake-manifest.json ./ /verif/ | grep "^>f" | cut -c13-
echo "--- shared files:"
for f in lean/Driver/Main.lean tools/checklib.py tools/props.py check lean/Driver/OpsH.lean lean/Driver/Proto.lean harness/common.hpp lean/lakefile.toml; do
  cmp -s "$A/$f" "/verif/$f" || echo "DIFF $f"
done
