#!/usr/bin/env python3
"""Translator: clang's typed AST of NFLlib's scalar NTT kernels -> lean/NflVerif/Generated/NttAst.lean

Reuses the machinery of gen_ops_ast.py (AST loading, per-node translation with the helpers of
lean/NflVerif/Model/CSem.lean) and adds what the butterfly code needs: reads/writes through pointers, the member
`_p` of the functor, casts to `short` / `long` and comparisons in `long`.

Translated, for T = uint16_t, uint32_t, uint64_t (poly<T,16,1>; poly<T,64,1> is translated too and must give the
same text), each as a PURE FUNCTION from the values read to the tuple of the values written:
  ntt_body_uW    nfl::ops::ntt_loop_body<simd::serial, poly, T>::operator()   (the whole body; the member `_p` is
                 what the constructor stores, translated from the constructor's body)
  ntt_deg2_uW    the block `if (degree == 2) { ... return true; }` of poly::core::ntt
  ntt_last2_uW   the body of the "last two layers" loop of poly::core::ntt
  ntt_final_uW   the body of the NTT_STRICTMOD final-reduction loop of poly::core::ntt
Configuration: -DNFL_OPTIMIZED, no CHECK_STRICTMOD (the flags of the `serial` harnesses); NTT_STRICTMOD is defined
by include/nfl/debug.hpp itself, i.e. in every build of the library.

Block-extraction convention (TRUSTED): inside one block, every distinct (base pointer, constant index) is one
memory cell; all reads through pointers come before all writes (checked: a read after a write stops the
translation), so the block is a function cells-read -> cells-written whatever the aliasing between the pointers
that are read; two cells that are WRITTEN are assumed distinct.  `*p` is the cell (p, 0).  The only non-constant
index accepted is the induction variable of the loop whose body the block is (the cell "x_orig[i]").
NOT translated (hand-modelled in Model/Ntt.lean): the loop structure — which indices each block is applied to
(ntt_loop::run, the `for (r...; x += 4)` and `for (i...)` headers), the advance of the table pointers, the
`degree == 1` / `degree == 2` dispatch, `x_orig = x`, permut<>::compute and the callers.

Unknown node kind / type / pointer arithmetic => non-zero exit naming kind and file:line.
The last line of stdout is a JSON summary.  The output file is rewritten only when its content changes.
Usage: gen_ntt_ast.py [--repo DIR] [--out FILE] [--keep]
"""
import hashlib, json, os, re, sys

HERE = os.path.dirname(os.path.abspath(__file__))
sys.path.insert(0, HERE)
import gen_ops_ast as g
from gen_ops_ast import Unsupported, Val, fail, ctype

OUT = os.path.join(g.VERIF, "lean", "NflVerif", "Generated", "NttAst.lean")
DEGREES = [16, 64]                      # the first one is written out, the others must give the same text
PTR_ORDER = ["x0", "x1", "x", "x_orig", "wtab", "winvtab"]

# ---- additional C types (only in this process: gen_ops_ast.py run on its own is unchanged)
g.CANON.update({"short": ("S", 16), "long": ("S", 64)})


def full_range(t):
    if t[0] == "U":
        return (0, 2 ** t[1] - 1)
    if t[0] == "S":
        return (-2 ** (t[1] - 1), 2 ** (t[1] - 1) - 1)
    return (0, 1)


def tyname(t):
    if t[0] == "S":
        return {16: "short", 32: "int", 64: "long"}[t[1]]
    return {"U": "unsigned %d-bit" % t[1], "B": "bool"}[t[0]]


g.full_range = full_range
g.tyname = tyname


def is_ptr_type(node):
    t = node.get("type") or {}
    q = t.get("desugaredQualType", t.get("qualType", "")).strip()
    while q.endswith("const"):
        q = q[:-5].strip()
    return q.endswith("*")


def unparen(n):
    while n.get("kind") == "ParenExpr":
        n = n["inner"][0]
    return n


class Block(g.Fn):
    """one straight-line block: statements -> `let`s, cells read -> parameters, cells written -> result tuple"""

    def __init__(self, tr, name, suffix, width, where):
        g.Fn.__init__(self, tr, name, suffix, None, {})
        self.w = width
        self.where = where            # text for the doc comment
        self.ptrs = {}                # decl id -> pointer name
        self.cells = {}               # (ptr, idx) -> {"name", "read", "written", "out"}
        self.any_write = None         # source position of the first write
        self.ivar = None              # (decl id, name) of the enclosing loop's induction variable
        self.field = None             # (FieldDecl id, name, lean text of the stored value or None)
        self.prelude = []             # lines before the block's own statements (constructor)
        self.vparams = []             # value parameters (p)
        self.notes = []

    # ---------- pointers and cells
    def add_ptr(self, decl):
        name = decl.get("name")
        if name not in PTR_ORDER:
            fail(decl, "pointer %r is not one of the known pointers %s" % (name, PTR_ORDER))
        self.ptrs[decl["id"]] = name

    def ptr_of(self, n):
        n = unparen(n)
        if not (n.get("kind") == "ImplicitCastExpr" and n.get("castKind") == "LValueToRValue"):
            fail(n, "pointer expression that is not the plain value of a pointer variable (pointer arithmetic is not translated)")
        self.count(n)
        r = unparen(n["inner"][0])
        if r.get("kind") != "DeclRefExpr" or r.get("referencedDecl", {}).get("id") not in self.ptrs:
            fail(r, "pointer expression that is not the plain value of a known pointer variable (pointer arithmetic is not translated)")
        self.count(r)
        return self.ptrs[r["referencedDecl"]["id"]]

    def cell(self, n):
        """n: ArraySubscriptExpr or UnaryOperator(*) lvalue -> (ptr, idx)"""
        k = n.get("kind")
        self.count(n)
        if k == "UnaryOperator":
            if n.get("opcode") != "*" or n.get("isPostfix"):
                fail(n, "unary operator %r on a pointer" % n.get("opcode"))
            key = (self.ptr_of(n["inner"][0]), 0)
        elif k == "ArraySubscriptExpr":
            base, idx = n["inner"]
            p = self.ptr_of(base)
            i = idx
            while i.get("kind") in ("ParenExpr", "ImplicitCastExpr") and i.get("castKind", "IntegralCast") == "IntegralCast":
                self.count(i)
                i = i["inner"][0]
            if i.get("kind") == "IntegerLiteral":
                self.count(i)
                key = (p, int(i["value"]))
            elif i.get("kind") == "ImplicitCastExpr" and i.get("castKind") == "LValueToRValue" and self.ivar and \
                    unparen(i["inner"][0]).get("kind") == "DeclRefExpr" and \
                    unparen(i["inner"][0]).get("referencedDecl", {}).get("id") == self.ivar[0]:
                self.count(i)
                self.count(unparen(i["inner"][0]))
                key = (p, self.ivar[1])
            else:
                fail(idx, "array index is not a compile-time constant (nor the induction variable of the block's own loop)")
        else:
            fail(n, "unknown memory access")
        t = ctype(n)
        if t != ("U", self.w):
            fail(n, "memory cell of type %s in the %d-bit instantiation" % (tyname(t), self.w))
        if key not in self.cells:
            name = "%s_%s" % key
            if name in self.names:
                fail(n, "cell name %s clashes with a C++ variable" % name)
            self.names[name] = "cell"
            self.names[name + "_out"] = "cell"
            self.cells[key] = {"name": name, "read": False, "written": False}
        return key

    def cell_read(self, n):
        key = self.cell(n)
        c = self.cells[key]
        if c["written"]:
            fail(n, "cell %s is read after it was written in the same block" % c["name"])
        if self.any_write is not None:
            fail(n, "read through a pointer (%s) after a write through a pointer (line %s) in the same block: "
                    "aliasing would matter" % (c["name"], self.any_write))
        c["read"] = True
        return Val(c["name"], ("U", self.w), atom=True)

    def cell_write(self, n, key):
        c = self.cells[key]
        if c["written"]:
            fail(n, "cell %s is written twice in one block" % c["name"])
        c["written"] = True
        if self.any_write is None:
            self.any_write = n.get("_line")
        return c["name"] + "_out"

    # ---------- lvalues
    def load(self, n):
        n = self.strip_paren(n)
        k = n.get("kind")
        if k == "ArraySubscriptExpr" or k == "UnaryOperator":
            return self.cell_read(n)
        if k == "MemberExpr":
            self.count(n)
            obj = n["inner"][0] if n.get("inner") else {}
            if not n.get("isArrow") or obj.get("kind") != "CXXThisExpr":
                fail(n, "member access that is not this->member")
            self.count(obj)
            if not self.field or n.get("referencedMemberDecl") != self.field[0]:
                fail(n, "member %r is not the functor's own data member" % n.get("name"))
            if self.field[2] is None:
                fail(n, "read of the member %s that the constructor did not store" % self.field[1])
            t = ctype(n)
            if t != ("U", self.w):
                fail(n, "type of the member")
            return Val(self.field[1], t, atom=True)
        if k == "DeclRefExpr" and n.get("referencedDecl", {}).get("id") in self.ptrs:
            fail(n, "use of the pointer %s as a value (pointer arithmetic is not translated)" % self.ptrs[n["referencedDecl"]["id"]])
        return g.Fn.load(self, n)

    def is_cell(self, n):
        n = unparen(n)
        return n.get("kind") == "ArraySubscriptExpr" or (n.get("kind") == "UnaryOperator" and n.get("opcode") == "*")

    # ---------- conversions / operators of the additional signed types
    def convert(self, v, to, n):
        fr = v.t
        if fr == to:
            return v
        new = lambda t: t[0] == "S" and t[1] != 32
        if not (new(fr) or new(to)):
            return g.Fn.convert(self, v, to, n)
        lo, hi = v.rng
        tl, th = full_range(to)
        keep = v.rng if (tl <= lo and hi <= th) else None
        c = v.const if (v.const is not None and tl <= v.const <= th) else None
        if fr[0] == "U" and to[0] == "S":
            return Val("CSem.castUSw %d %s" % (to[1], v.p()), to, keep, c)
        if fr[0] == "S" and to[0] == "S":
            return Val("CSem.castSS %d %d %s" % (fr[1], to[1], v.p()), to, keep, c)
        fail(n, "conversion %s -> %s" % (tyname(fr), tyname(to)))

    def binop(self, n, op, a, b, t):
        if a.t[0] == "S" and a.t[1] != 32 or b.t[0] == "S" and b.t[1] != 32 or t[0] == "S" and t[1] != 32:
            if op in self.CMP and t[0] == "B" and a.t == b.t:
                return Val("CSem.%sS %d %s %s" % (self.CMP[op], a.t[1], a.p(), b.p()), t)
            fail(n, "operator %r in type %s (only comparisons are translated there)" % (op, tyname(a.t)))
        return g.Fn.binop(self, n, op, a, b, t)

    # ---------- statements
    def stmts(self, lst, ind, final):
        out = []
        pad = "  " * ind
        for s in lst:
            k = s.get("kind")
            is_assign = (k == "BinaryOperator" and s.get("opcode") == "=") or k == "CompoundAssignOperator"
            if is_assign and is_ptr_type(s):
                fail(s, "assignment to a pointer (pointer arithmetic is not translated)")
            if is_assign and self.is_cell(s["inner"][0]):
                self.count(s)
                lhs = unparen(s["inner"][0])
                if k == "BinaryOperator":
                    v = self.expr(s["inner"][1])
                    key = self.cell(lhs)
                    if v.t != ("U", self.w) or ctype(s) != v.t:
                        fail(s, "type of the stored value")
                    r = v
                else:
                    cur = self.cell_read(lhs)
                    key = self.cell(lhs)
                    op = s.get("opcode", "")
                    if not op.endswith("=") or op[:-1] not in ("+", "-", "*", "/", "%"):
                        fail(s, "compound assignment %r" % op)
                    lt = g.ctype_of_str(s.get("computeLHSType", {}).get("qualType", ""))
                    rt = g.ctype_of_str(s.get("computeResultType", {}).get("qualType", ""))
                    if not lt or not rt or lt != rt:
                        fail(s, "computation types of the compound assignment")
                    a = self.convert(cur, lt, s)
                    b = self.expr(s["inner"][1])
                    r = self.binop(s, op[:-1], a, b, rt)
                    r = self.convert(r, ("U", self.w), s)
                name = self.cell_write(s, key)
                out.append("%s-- %s" % (pad, self.src(s)))
                out.append("%slet %s := %s" % (pad, name, r.s))
                continue
            if k == "ReturnStmt":
                fail(s, "return inside a block")
            sub = g.Fn.stmts(self, [s], ind, "@@")
            assert sub[-1].strip() == "@@"
            out += sub[:-1]
        out.append("%s%s" % (pad, final))
        return out

    # ---------- whole block
    def value_param(self, decl):
        self.count(decl)
        v = self.declare(decl, True)
        if v.t != ("U", self.w):
            fail(decl, "value parameter of type %s" % tyname(v.t))
        self.vparams.append(v.name)

    def translate_block(self, lst):
        self.ret_t = ("U", self.w)
        body = self.stmts(lst, 1, "@@RET@@")
        keyf = lambda kv: (PTR_ORDER.index(kv[0][0]), 0 if isinstance(kv[0][1], int) else 1, kv[0][1])
        cells = sorted(self.cells.items(), key=keyf)
        self.reads = [(k, c) for k, c in cells if c["read"]]
        self.writes = [(k, c) for k, c in cells if c["written"]]
        if not self.writes:
            raise Unsupported("%s: the block writes no memory cell" % self.lean_name)
        ret = ", ".join(c["name"] + "_out" for _, c in self.writes)
        body[-1] = body[-1].replace("@@RET@@", "(%s)" % ret if len(self.writes) > 1 else ret)
        self.body_lines = self.prelude + body
        return self

    def render(self):
        ps = self.vparams + [c["name"] for _, c in self.reads]
        rt = " × ".join(["Nat"] * len(self.writes))
        doc = ["/-- %s." % self.where,
               "Parameters (all %s): %s; result: the new values of %s.%s -/" % (
                   tyname(("U", self.w)), ", ".join(ps), ", ".join("%s[%s]" % k for k, _ in self.writes),
                   ("  " + "  ".join(self.notes)) if self.notes else "")]
        return "\n".join(doc + ["def %s (%s : Nat) : %s :=" % (self.lean_name, " ".join(ps), rt)] + self.body_lines)


# ------------------------------------------------------------------------------------------------ finding the code
def targs(n):
    out = []
    for a in n.get("inner", []):
        if a.get("kind") == "TemplateArgument":
            out.append(a["type"]["qualType"] if "type" in a else a.get("value"))
    return out


def has_body(m):
    return any(c.get("kind") == "CompoundStmt" for c in m.get("inner", []))


def body_of(m):
    b = [c for c in m.get("inner", []) if c.get("kind") == "CompoundStmt"]
    if len(b) != 1:
        fail(m, "function without a single body")
    return b[0]


def rvalue_ref_name(n):
    """name of the variable whose plain value n is (through parens / LValueToRValue / integral casts), else None"""
    while n.get("kind") in ("ParenExpr", "ImplicitCastExpr"):
        n = n["inner"][0]
    if n.get("kind") == "DeclRefExpr":
        return n.get("referencedDecl", {}).get("name")
    return None


def literal_value(n):
    while n.get("kind") in ("ParenExpr", "ImplicitCastExpr"):
        n = n["inner"][0]
    if n.get("kind") == "IntegerLiteral":
        return int(n["value"])
    return None


class NttTranslator(g.Translator):
    def load(self, txt):
        self.byid = g.annotate(g.parse_objects(txt))
        self.typedefs = {}
        self.structure = []           # what is NOT translated, quoted from the source for the summary

    def find(self, cname, deg):
        body_cls, ntt = [], []
        for n in self.byid.values():
            if n.get("kind") != "ClassTemplateSpecializationDecl":
                continue
            if n.get("name") == "ntt_loop_body" and targs(n) == ["nfl::simd::serial", "nfl::poly<%s, %d, 1>" % (cname, deg), cname]:
                if any(c.get("kind") == "CXXMethodDecl" and c.get("name") == "operator()" and has_body(c) for c in n.get("inner", [])):
                    body_cls.append(n)
            if n.get("name") == "poly" and targs(n) == [cname, deg, 1]:
                for c in n.get("inner", []):
                    if c.get("kind") == "CXXRecordDecl" and c.get("name") == "core":
                        for m in c.get("inner", []):
                            if m.get("kind") == "CXXMethodDecl" and m.get("name") == "ntt" and has_body(m):
                                ntt.append(m)
        uniq = lambda l: list({x["id"]: x for x in l}.values())
        body_cls, ntt = uniq(body_cls), uniq(ntt)
        if len(body_cls) != 1:
            raise Unsupported("%d instantiated definitions of ntt_loop_body<simd::serial, poly<%s,%d,1>, %s> found" % (len(body_cls), cname, deg, cname))
        if len(ntt) != 1:
            raise Unsupported("%d instantiated bodies of poly<%s,%d,1>::core::ntt found" % (len(ntt), cname, deg))
        return body_cls[0], ntt[0]

    # ---------- ntt_loop_body
    def loop_body(self, cls, suf, w):
        inner = cls.get("inner", [])
        fields = [c for c in inner if c.get("kind") == "FieldDecl"]
        ops = [c for c in inner if c.get("kind") == "CXXMethodDecl" and c.get("name") == "operator()" and has_body(c)]
        ctors = [c for c in inner if c.get("kind") == "CXXConstructorDecl" and not c.get("isImplicit") and has_body(c)]
        if len(fields) != 1 or len(ops) != 1 or len(ctors) != 1:
            fail(cls, "ntt_loop_body<serial> shape: %d data members, %d operator(), %d user constructors" % (len(fields), len(ops), len(ctors)))
        fld, op, ctor = fields[0], ops[0], ctors[0]
        b = Block(self, "ntt_body", suf, w,
                  "`nfl::ops::ntt_loop_body<nfl::simd::serial, poly, %s>::operator()(x0, x1, winvtab, wtab)`  (%s:%s), the whole body" % (
                      self.cname[suf], self.short(op.get("_file")), op.get("_line")))
        if ctype(fld) != ("U", w):
            fail(fld, "type of the data member")
        # constructor: parameter p, body `member = <expr of p>;`
        cps = [c for c in ctor["inner"] if c.get("kind") == "ParmVarDecl"]
        other = [c for c in ctor["inner"] if c.get("kind") not in ("ParmVarDecl", "CompoundStmt")]
        if len(cps) != 1 or other:
            fail(ctor, "constructor shape (one parameter, no member initialiser list)")
        b.count(ctor)
        b.value_param(cps[0])
        b.field = (fld["id"], fld["name"], None)
        cb = body_of(ctor)
        b.count(cb)
        st = cb.get("inner", [])
        if len(st) != 1 or not (st[0].get("kind") == "BinaryOperator" and st[0].get("opcode") == "="):
            fail(cb, "constructor body is not the single statement `member = expression;`")
        b.count(st[0])
        lhs = unparen(st[0]["inner"][0])
        if not (lhs.get("kind") == "MemberExpr" and lhs.get("referencedMemberDecl") == fld["id"] and lhs.get("isArrow")
                and lhs["inner"][0].get("kind") == "CXXThisExpr"):
            fail(lhs, "constructor does not assign the data member")
        b.count(lhs)
        b.count(lhs["inner"][0])
        v = b.expr(st[0]["inner"][1])
        if v.t != ("U", w):
            fail(st[0], "type of the value stored in the member")
        if fld["name"] in b.names:
            fail(fld, "member name clashes with a variable")
        b.names[fld["name"]] = "field"
        b.prelude = ["  -- %s   (constructor: what the member holds)" % b.src(st[0]), "  let %s := %s" % (fld["name"], v.s)]
        b.field = (fld["id"], fld["name"], v.s)
        b.notes.append("`%s` is the constructor's argument; the member `%s` is what the constructor stores." % (b.vparams[0], fld["name"]))
        # operator()
        if op.get("storageClass") or op.get("virtual"):
            fail(op, "method kind")
        b.count(op)
        for prm in [c for c in op["inner"] if c.get("kind") == "ParmVarDecl"]:
            b.count(prm)
            if not is_ptr_type(prm):
                fail(prm, "operator() parameter that is not a pointer")
            b.add_ptr(prm)
        if [c for c in op["inner"] if c.get("kind") not in ("ParmVarDecl", "CompoundStmt")]:
            fail(op, "operator() shape")
        ob = body_of(op)
        b.count(ob)
        b.translate_block(ob.get("inner", []))
        if [k for k, _ in b.writes] != [("x0", 0), ("x1", 0)]:
            fail(op, "the butterfly does not write exactly *x0 and *x1 (writes %s)" % [k for k, _ in b.writes])
        return b

    # ---------- poly::core::ntt
    def ntt_blocks(self, m, suf, w):
        cname = self.cname[suf]
        if m.get("storageClass") not in (None, "static") or m.get("virtual"):
            fail(m, "method kind")
        prms = [c for c in m["inner"] if c.get("kind") == "ParmVarDecl"]
        top = body_of(m).get("inner", [])
        where = "%s:%s" % (self.short(m.get("_file")), m.get("_line"))

        def new_block(name, what, at):
            b = Block(self, name, suf, w, "%s of `nfl::poly<%s, Degree, NbModuli>::core::ntt(x, wtab, winvtab, p)`  (%s:%s; function at %s)" % (
                what, cname, self.short(at.get("_file")), at.get("_line"), where))
            for prm in prms:
                if is_ptr_type(prm):
                    b.add_ptr(prm)
                else:
                    b.value_param(prm)
            return b

        deg2, fors, xorig, skipped = [], [], [], []
        for s in top:
            k = s.get("kind")
            if k == "IfStmt" and len(s["inner"]) == 2 and s["inner"][0].get("kind") == "BinaryOperator" and s["inner"][0].get("opcode") == "==" \
                    and rvalue_ref_name(s["inner"][0]["inner"][0]) == "degree" and literal_value(s["inner"][0]["inner"][1]) == 2:
                deg2.append(s)
            elif k == "ForStmt":
                fors.append(s)
            elif k == "DeclStmt" and len(s["inner"]) == 1 and s["inner"][0].get("kind") == "VarDecl" and is_ptr_type(s["inner"][0]):
                xorig.append(s["inner"][0])
                skipped.append(s)
            else:
                skipped.append(s)
        if len(deg2) != 1:
            fail(m, "%d statements `if (degree == 2) ...` at the top level of core::ntt" % len(deg2))
        if len(fors) != 2:
            fail(m, "%d top-level loops in core::ntt (expected: last two layers, NTT_STRICTMOD final reduction — is NTT_STRICTMOD still defined?)" % len(fors))
        for d in xorig:
            init = [c for c in d.get("inner", []) if "kind" in c]
            if d.get("name") != "x_orig" or len(init) != 1 or rvalue_ref_name(init[0]) != "x":
                fail(d, "pointer variable that is not `x_orig = x`")
        # (b) degree == 2
        blk = deg2[0]["inner"][1]
        if blk.get("kind") != "CompoundStmt":
            fail(blk, "degree==2 branch is not a block")
        st = list(blk.get("inner", []))
        if not st or st[-1].get("kind") != "ReturnStmt" or st[-1]["inner"][0].get("kind") != "CXXBoolLiteralExpr":
            fail(blk, "degree==2 block does not end in `return true;`")
        b2 = new_block("ntt_deg2", "the block `if (degree == 2) { ... }`", blk)
        b2.translate_block(st[:-1])
        if [k for k, _ in b2.writes] != [("x", 0), ("x", 1)]:
            fail(blk, "the degree-2 block does not write exactly x[0], x[1]")
        # (c) last two layers: for (...; ...; r++, x += STRIDE) { ... }
        f = fors[0]
        if len(f["inner"]) != 5 or f["inner"][4].get("kind") != "CompoundStmt":
            fail(f, "loop shape")
        stride = None

        def walk(n):
            nonlocal stride
            if n.get("kind") == "CompoundAssignOperator" and n.get("opcode") == "+=" and rvalue_ref_name(n["inner"][0]) == "x":
                stride = literal_value(n["inner"][1])
            for c in n.get("inner", []):
                if isinstance(c, dict):
                    walk(c)
        walk(f["inner"][3] or {})
        if stride is None:
            fail(f, "first top-level loop of core::ntt does not advance x by a constant (not the last-two-layers loop?)")
        b4 = new_block("ntt_last2", "the body of the \"last two layers\" loop", f["inner"][4])
        b4.translate_block(f["inner"][4].get("inner", []))
        if [k for k, _ in b4.writes] != [("x", i) for i in range(stride)]:
            fail(f, "the loop advances x by %s but its body writes %s" % (stride, ["%s[%s]" % k for k, _ in b4.writes]))
        # (d) final reduction: for (size_t i = 0; i < degree; i++) { x_orig[i] -= ...; }
        f2 = fors[1]
        if len(f2["inner"]) != 5 or f2["inner"][4].get("kind") != "CompoundStmt" or (f2["inner"][0] or {}).get("kind") != "DeclStmt":
            fail(f2, "loop shape")
        iv = [c for c in f2["inner"][0]["inner"] if c.get("kind") == "VarDecl"]
        if len(iv) != 1:
            fail(f2, "loop variable")
        bf = new_block("ntt_final", "the body of the NTT_STRICTMOD final-reduction loop", f2["inner"][4])
        for d in xorig:
            bf.add_ptr(d)
        bf.ivar = (iv[0]["id"], iv[0]["name"])
        bf.names[iv[0]["name"]] = iv[0]["id"]
        bf.translate_block(f2["inner"][4].get("inner", []))
        if [k for k, _ in bf.writes] != [("x_orig", iv[0]["name"])] or [k for k, _ in bf.reads] != [("x_orig", iv[0]["name"])]:
            fail(f2, "the final loop does not read and write exactly x_orig[%s]" % iv[0]["name"])
        hdr = lambda n: "%s:%s  %s" % (self.short(n.get("_file")), n.get("_line"), self.source_line(n.get("_file"), n.get("_line")))
        self.structure = [hdr(s) for s in skipped] + [hdr(deg2[0]), hdr(f), hdr(f2)]
        return [b2, b4, bf]


def translate_all(repo, txt, deg):
    tr = NttTranslator(repo)
    tr.load(txt)
    blocks = {}
    for _, cname, suf in g.TYPES:
        w = int(suf[1:])
        cls, ntt = tr.find(cname, deg)
        for b in [tr.loop_body(cls, suf, w)] + tr.ntt_blocks(ntt, suf, w):
            blocks[(b.fname, suf)] = b
    order = [blocks[(f, suf)] for f in ("ntt_body", "ntt_deg2", "ntt_last2", "ntt_final") for _, _, suf in g.TYPES]
    return tr, order


def make_tu():
    os.makedirs(g.BUILD, exist_ok=True)
    tu = os.path.join(g.BUILD, "ntt_ast_tu.cpp")
    lines = ['#include "nfl.hpp"']
    for d in DEGREES:
        for t, _, _ in g.TYPES:
            lines.append("template struct nfl::ops::ntt_loop_body<nfl::simd::serial, nfl::poly<%s, %d, 1>, %s>;" % (t, d, t))
            lines.append("template bool nfl::poly<%s, %d, 1>::core::ntt(%s*, const %s*, const %s*, %s const);" % (t, d, t, t, t, t))
    open(tu, "w").write("\n".join(lines) + "\n")
    return tu


def main():
    repo = os.environ.get("VERIF_REPO", "/repo")
    out = OUT
    if "--repo" in sys.argv:
        repo = sys.argv[sys.argv.index("--repo") + 1]
    if "--out" in sys.argv:
        out = sys.argv[sys.argv.index("--out") + 1]
    repo = os.path.abspath(repo)
    txt = g.clang_ast(repo, make_tu())
    if "--keep" in sys.argv:
        open(os.path.join(g.BUILD, "ntt_ast_dump.json"), "w").write(txt)
    try:
        texts = {}
        for d in DEGREES:
            tr_d, fns_d = translate_all(repo, txt, d)
            texts[d] = "\n\n".join(f.render() for f in fns_d)
            if d == DEGREES[0]:
                tr, fns = tr_d, fns_d
        for d in DEGREES[1:]:
            if texts[d] != texts[DEGREES[0]]:
                raise Unsupported("the translated blocks of degree %d differ from those of degree %d (the blocks were assumed "
                                  "not to depend on the degree)" % (d, DEGREES[0]))
    except Unsupported as e:
        msg = "gen_ntt_ast: UNSUPPORTED C++ construct, nothing translated: %s" % e
        sys.stderr.write(msg + "\n")
        print(json.dumps({"ok": False, "err": msg}))
        sys.exit(3)
    head = [
        "-- GENERATED by tools/gen_ntt_ast.py from clang++-14's typed AST of include/nfl/algos.hpp (ntt_loop_body<simd::serial>) and",
        "-- include/nfl/core.hpp (poly::core::ntt), instantiated for poly<T,%d,1>, T = uint16_t / uint32_t / uint64_t (degree %s gives the" % (
            DEGREES[0], ", ".join(str(d) for d in DEGREES[1:])),
        "-- same text: checked on every run), -DNFL_OPTIMIZED, no CHECK_STRICTMOD, NTT_STRICTMOD defined (by include/nfl/debug.hpp).  Do not edit.",
        "-- Each definition is ONE STRAIGHT-LINE BLOCK read as a pure function: memory cells read (`x0_0` = *x0, `x_2` = x[2], ...) are the",
        "-- parameters, the cells written (`..._out`) are the result; one `let` per C++ statement, one CSem helper per typed expression node.",
        "-- NOT translated (hand-modelled in Model/Ntt.lean): the loop structure (which indices each block is applied to, ntt_loop::run,",
        "-- the advance of the table pointers), the degree dispatch, the bit reversal.",
        "import NflVerif.Model.CSem",
        "namespace Nfl.Gen",
        "open Nfl",
        "",
    ]
    text = "\n".join(head) + "\n" + texts[DEGREES[0]] + "\n\nend Nfl.Gen\n"
    changed = g.write_if_changed(out, text)
    print(json.dumps({
        "ok": True, "blocks": [f.lean_name for f in fns], "nodes": sum(f.nodes for f in fns),
        "node_kinds": dict(sorted(tr.kinds.items())),
        "degrees_compared": DEGREES,
        "configuration": "-DNFL_OPTIMIZED, no CHECK_STRICTMOD, NTT_STRICTMOD defined by nfl/debug.hpp",
        "ub_wrap_assumed": tr.ub_sites, "ub_div_sites": tr.div_sites,
        "not_translated_loop_structure": tr.structure,
        "sha": hashlib.sha256(text.encode()).hexdigest()[:16], "changed": changed,
        "out": os.path.relpath(out, g.VERIF), "repo": repo}))


if __name__ == "__main__":
    main()
