#!/usr/bin/env python3
"""Translator: clang's typed AST of `FastGaussianNoise<in_class,out_class,_lu_depth>::buildLookupTables`
(include/nfl/prng/FastGaussianNoise.hpp) -> lean/NflVerif/Generated/LutAst.lean

Instantiated by clang++-14 from the CURRENT text for <uint8_t,int32_t,1>, <uint16_t,int64_t,1>, <uint16_t,int64_t,2>, <uint8_t,uint64_t,2>.
Reuses (by import, nothing modified) gen_ops_ast.py (AST loading, source positions, write_if_changed) and gen_gauss_ast.py (types,
typed expression translation, conversions, statement sequencing: class Inst); per-node semantics Model/CSem.lean, CSemGauss.lean (`CG`)
and the new Model/CSemLut.lean (`CL`).  One definition `buildLookupTables_X` per instantiation X, in the Option monad
(`none` = an access outside an object, or a `while` out of fuel).
Conventions (TRUSTED), in addition to gen_gauss_ast's:
  * members read before they are assigned are PARAMETERS (`_lu_size`, `_number_of_barriers`, `rounded_center`, and `barriers` = the list
    of barrier objects built by precomputeBarrierValues/MPFR); the function returns the tuple of the members it assigns;
  * `if (<template parameter> == <literal>)` is resolved per instantiation: only the live branch is translated (listed: resolved_ifs);
  * `new output_t[n]()` (the construct node must say `zeroing`) = CL.newCells; `(output_t**) calloc(n, sizeof(output_t*))` = CL.callocRows;
    `t[i].val = v`, `.flag = b`, `.l_b_ptr.push_back(p)` = CL.setVal / setFlag / pushBack (…2 through a row of lu_table2), bounds-checked;
    `std::list::push_back` is mapped by NAME; `barriers[i]` = CL.barAt (bounds-checked);
  * `a && b` / `a || b` whose right operand reads memory: the reads happen only when the left operand does not decide;
  * `while (c) body` and `for (decls; c; ) body` = CL.whileFuel FUEL c body; FUEL = B + 1 for a conjunct `x < B` of c with `x++` executed by
    every iteration (a top-level statement of the body; no break/continue/return inside) and x only ever incremented, B not assigned by
    the body.  No such conjunct => refused.  Running out of fuel is `none`; that it does not happen is proved in Lean.
Unknown node kind / cast / opcode / type / callee => non-zero exit naming it and file:line.
Instantiations of the same depth are ALSO rendered as skeletons (conversions dropped, widths -> placeholders) and must agree.
The last line of stdout is a JSON summary.  The output file is rewritten only when its content changes.
Usage: gen_lut_ast.py [--repo DIR] [--out FILE] [--keep] [--skeleton]
"""
import hashlib, json, os, re, sys

HERE = os.path.dirname(os.path.abspath(__file__))
sys.path.insert(0, HERE)
import gen_ops_ast as g
import gen_gauss_ast as G
from gen_ops_ast import Unsupported, fail
from gen_gauss_ast import kids, unparen, parse_type, ty, tyname, Val, Var, CELL, LIST, INTS, CNAME

OUT = os.path.join(g.VERIF, "lean", "NflVerif", "Generated", "LutAst.lean")
INSTS = [("uint8_t", "int32_t", 1, "u8_i32_1"), ("uint16_t", "int64_t", 1, "u16_i64_1"),
         ("uint16_t", "int64_t", 2, "u16_i64_2"), ("uint8_t", "uint64_t", 2, "u8_u64_2")]

_gauss_lean_ty = G.lean_ty


def lean_ty(t):
    if t[0] == "P" and t[1][0] == "P" and t[1][1][0] in "US":
        return "List (List Nat)"
    return _gauss_lean_ty(t)


def w(k):
    return "_" if G.SKEL else str(k)


def strip_casts(n, kinds=("NoOp",)):
    n = unparen(n)
    while n.get("kind") == "ImplicitCastExpr" and n.get("castKind") in kinds:
        n = unparen(kids(n)[0])
    return n


class LInst(G.Inst):
    def __init__(self, *a):
        super().__init__(*a)
        self.resolved = []
        self.fuels = []
        self.calls.init = False

    # ------------------------------------------------------------------ members as assignable variables
    def member_var(self, n, count):
        n = unparen(n)
        if n.get("kind") != "MemberExpr":
            return None
        base = unparen(kids(n)[0])
        if base.get("kind") != "CXXThisExpr":
            return None
        if count:
            return self.member(n)
        mid = n.get("referencedMemberDecl")
        if mid not in self.members:
            fail(n, "member %r of *this is not a data member of the class" % n.get("name"))
        name, t = self.members[mid]
        key = "m:" + name
        if key not in self.env:
            if t is None:
                fail(n, "data member %s of unknown type" % name)
            v = Var(name, t, True, "member")
            v.entry = True
            self.env[key] = v
        return self.env[key]

    def target(self, n):
        m = unparen(n)
        if m.get("kind") == "MemberExpr":
            self.count(m)
            v = self.member_var(m, True)
            if v is None:
                fail(m, "assignment target is not a local variable, parameter or member of *this")
            return v
        return super().target(n)

    def root_var(self, n):
        """variable / member whose value an assignment to the lvalue n changes"""
        n = unparen(n)
        while True:
            k = n.get("kind")
            if k in ("ImplicitCastExpr", "ParenExpr"):
                n = kids(n)[0]
            elif k == "ArraySubscriptExpr":
                n = kids(n)[0]
            elif k == "MemberExpr" and unparen(kids(n)[0]).get("kind") != "CXXThisExpr":
                n = kids(n)[0]
            else:
                break
        if n.get("kind") == "MemberExpr":
            return self.member_var(n, False)
        return self.env.get(n.get("referencedDecl", {}).get("id"))

    def assigned(self, n, acc):
        k = n.get("kind")
        tgt = None
        if k == "IfStmt" and self.const_cond(kids(n)[0]) is not None:       # only the live branch of a resolved `if`
            _, have, want = self.const_cond(kids(n)[0])
            parts = kids(n)
            live = parts[1] if have == want else (parts[2] if len(parts) == 3 else None)
            return self.assigned(live, acc) if live is not None else acc
        if k == "CompoundAssignOperator" or (k == "BinaryOperator" and n.get("opcode") == "=") or \
                (k == "UnaryOperator" and n.get("opcode") in ("++", "--")):
            tgt = kids(n)[0]
        if k == "CXXMemberCallExpr":
            callee = kids(n)[0]
            if callee.get("kind") == "MemberExpr" and callee.get("name") == "push_back":
                tgt = kids(callee)[0]
        if tgt is not None:
            v = self.root_var(tgt)
            if v is not None and v not in acc:
                acc.append(v)
        for c in kids(n):
            self.assigned(c, acc)
        return acc

    def nonincrement_assigned(self, n, var, acc):
        k = n.get("kind")
        if k == "CompoundAssignOperator" or (k == "BinaryOperator" and n.get("opcode") == "=") or \
                (k == "UnaryOperator" and n.get("opcode") == "--"):
            if self.root_var(kids(n)[0]) is var:
                acc.append(n)
        for c in kids(n):
            self.nonincrement_assigned(c, var, acc)
        return acc

    # ------------------------------------------------------------------ places in the tables
    def cell_place(self, n):
        """n: ArraySubscriptExpr of type output_t -> (table variable, [index Vals])"""
        n = unparen(n)
        if n.get("kind") != "ArraySubscriptExpr" or ty(n) != CELL:
            fail(n, "cell of a lookup table expected")
        self.count(n)
        base, idx = kids(n)
        b = unparen(base)
        if not (b.get("kind") == "ImplicitCastExpr" and b.get("castKind") == "LValueToRValue"):
            fail(n, "table cell reached through something that is not a pointer lvalue")
        self.count(b)
        inner = unparen(kids(b)[0])
        if inner.get("kind") == "MemberExpr":
            self.count(inner)
            tv = self.member_var(inner, True)
            if tv is None or tv.t != ("P", CELL):
                fail(inner, "table pointer")
            self.read(tv, inner)
            i = self.index(idx)
            return tv, [i]
        if inner.get("kind") == "ArraySubscriptExpr" and ty(inner) == ("P", CELL):
            tv, i = self.row_place(inner)
            j = self.index(idx)
            return tv, [i, j]
        fail(inner, "table cell reached through an unknown pointer expression")

    def row_place(self, n):
        """n: ArraySubscriptExpr of type output_t* (lu_table2[i]) -> (table variable, index Val)"""
        self.count(n)
        base, idx = kids(n)
        b = unparen(base)
        if not (b.get("kind") == "ImplicitCastExpr" and b.get("castKind") == "LValueToRValue"):
            fail(n, "row reached through something that is not a pointer lvalue")
        self.count(b)
        m = unparen(kids(b)[0])
        tv = self.member_var(m, True) if m.get("kind") == "MemberExpr" else None
        if tv is None or tv.t != ("P", ("P", CELL)):
            fail(m, "row table pointer")
        self.count(m)
        self.read(tv, m)
        return tv, self.index(idx)

    def index(self, idx):
        i = self.expr(idx)
        if i.t[0] != "U":
            fail(idx, "table index of type %s" % tyname(i.t))
        return i

    def store(self, n, op, place_node, arg):
        tv, ix = self.cell_place(place_node)
        fn = "CL." + op + ("2" if len(ix) == 2 else "")
        self.pre.append("let %s ← %s %s %s %s" % (tv.name, fn, tv.name, " ".join(i.p() for i in ix), arg))
        tv.entry = getattr(tv, "entry", False)
        return tv

    # ------------------------------------------------------------------ expressions
    def lvalue(self, n):
        m = unparen(n)
        if m.get("kind") == "ArraySubscriptExpr":
            base, idx = kids(m)
            bt = (unparen(base).get("type") or {})
            pt = parse_type(bt.get("desugaredQualType", bt.get("qualType", "")))
            if pt and pt[0] == "P" and pt[1][0] == "P" and pt[1][1][0] in "US":
                self.count(m)
                p = self.expr(base)
                i = self.expr(idx)
                if p.t != pt or ty(m) != pt[1] or pt[1][1] != self.in_t:
                    fail(m, "subscript of %s" % tyname(p.t))
                if i.t[0] != "S":
                    fail(idx, "barrier index of type %s" % tyname(i.t))
                return Val(self.bind("CL.barAt %s %s %s" % (w(i.t[1]), p.p(), i.p())), pt[1], None, True)
        return super().lvalue(n)

    def sub(self, node):
        """translate an operand whose memory reads must stay conditional: (Val, its pending lines)"""
        saved = self.pre
        self.pre = []
        v = self.expr(node)
        lines = self.pre
        self.pre = saved
        for l in lines:
            if not re.match(r"let t\d+ ← ", l):
                fail(node, "side effect inside the right operand of && / ||")
        return v, lines

    def expr(self, n):
        k = n.get("kind")
        if k == "CXXBoolLiteralExpr":
            self.count(n)
            if ty(n) != ("B", 1) or not isinstance(n.get("value"), bool):
                fail(n, "bool literal")
            return Val("true" if n["value"] else "false", ("B", 1), None, True)
        if k == "BinaryOperator" and n.get("opcode") in ("&&", "||"):
            self.count(n)
            a = self.expr(kids(n)[0])
            b, lines = self.sub(kids(n)[1])
            if a.t != ("B", 1) or b.t != ("B", 1) or ty(n) != ("B", 1):
                fail(n, "operand types of %s" % n.get("opcode"))
            if not lines:
                return Val("%s %s %s" % (a.p(), n["opcode"], b.p()), ("B", 1))
            inner = "(do " + "; ".join(lines + ["pure %s" % b.p()]) + ")"
            if n["opcode"] == "&&":
                return Val(self.bind("(if %s then %s else pure false)" % (a.s, inner)), ("B", 1), None, True)
            return Val(self.bind("(if %s then pure true else %s)" % (a.s, inner)), ("B", 1), None, True)
        if k == "CXXNewExpr" and ty(n) == ("P", CELL):
            self.count(n)
            ks = kids(n)
            if not n.get("isArray") or len(ks) != 2 or ks[1].get("kind") != "CXXConstructExpr":
                fail(n, "new output_t[...] shape")
            c = ks[1]
            self.count(c)
            if not c.get("zeroing") or kids(c) or not re.search(r"output(_t|<[^>]*>)\[\]$", (c.get("type") or {}).get("qualType", "")):
                fail(c, "array construction that is not the value-initialisation `new output_t[n]()`")
            sz = self.expr(ks[0])
            if sz.t[0] != "U":
                fail(n, "array size type")
            return Val("CL.newCells %s" % sz.p(), ("P", CELL))
        if k == "CStyleCastExpr" and n.get("castKind") == "BitCast" and ty(n) == ("P", ("P", CELL)):
            c = unparen(kids(n)[0])
            if c.get("kind") != "CallExpr" or self.callee_name(c) != "calloc":
                fail(n, "cast to output_t** of something that is not a calloc call (callee %r)" % (self.callee_name(c) if c.get("kind") == "CallExpr" else None))
            self.count(n)
            self.count(c)
            f = kids(c)[0]
            ft = (unparen(kids(f)[0]).get("type") or {}).get("qualType", "")
            if not ft.startswith("void *(size_t, size_t)"):
                fail(c, "calloc declared with type %r" % ft)
            self.count(f)
            self.count(unparen(kids(f)[0]))
            args = kids(c)[1:]
            if len(args) != 2:
                fail(c, "calloc arguments")
            cnt = self.expr(args[0])
            s = args[1]
            a = parse_type((s.get("argType") or {}).get("desugaredQualType", (s.get("argType") or {}).get("qualType", "")))
            if s.get("kind") != "UnaryExprOrTypeTraitExpr" or s.get("name") != "sizeof" or a != ("P", CELL) or cnt.t != ("U", 64):
                fail(s, "calloc(n, sizeof(output_t *)) expected")
            self.count(s)
            return Val("CL.callocRows %s" % cnt.p(), ("P", ("P", CELL)))
        return super().expr(n)

    def binop(self, n, op, a, b, t):
        if t == ("S", 32) and a.t == t and b.t == t and op in ("-", "/"):
            self.ub.append({"piece": self.cur.name, "line": n.get("_line"), "op": "signed 32-bit %s" % op,
                            "source": self.tr.source_line(n.get("_file"), n.get("_line"))})
            if op == "-":
                return Val("CSem.subS32 %s %s" % (a.p(), b.p()), t)
            return Val("CL.divS32 %s %s" % (a.p(), b.p()), t)
        return super().binop(n, op, a, b, t)

    def assign(self, n):
        lhs = unparen(kids(n)[0])
        rhs = kids(n)[1]
        if lhs.get("kind") == "MemberExpr" and unparen(kids(lhs)[0]).get("kind") != "CXXThisExpr":
            # t[i].field = v
            f = lhs.get("name")
            self.count(lhs)
            if lhs.get("isArrow") or f not in ("val", "flag"):
                fail(lhs, "store into field %r of an output_t" % f)
            v = self.expr(rhs)
            want = self.out_t if f == "val" else ("B", 1)
            if v.t != want or ty(lhs) != want or ty(n) != want:
                fail(n, "type of the store into .%s" % f)
            return self.store(n, "setVal" if f == "val" else "setFlag", kids(lhs)[0], v.p())
        if lhs.get("kind") == "ArraySubscriptExpr" and ty(lhs) == ("P", CELL):
            v = self.expr(rhs)
            if v.t != ("P", CELL) or not v.s.startswith("CL.newCells "):
                fail(n, "row pointer assigned from something else than new output_t[n]()")
            tv, i = self.row_place(lhs)
            self.pre.append("let %s ← CL.setRow %s %s %s" % (tv.name, tv.name, i.p(), v.p()))
            return tv
        var = super().assign(n)
        if var.kind == "member":
            var.entry = False
        return var

    # ------------------------------------------------------------------ statements
    def const_cond(self, c):
        c = unparen(c)
        if c.get("kind") != "BinaryOperator" or c.get("opcode") != "==":
            return None
        a, b = [unparen(x) for x in kids(c)]
        if a.get("kind") != "SubstNonTypeTemplateParmExpr":
            return None
        while b.get("kind") == "ImplicitCastExpr" and b.get("castKind") == "IntegralCast":
            b = unparen(kids(b)[0])
        ks = kids(a)
        if b.get("kind") != "IntegerLiteral" or len(ks) != 2 or ks[1].get("kind") != "IntegerLiteral":
            return None
        return ks[0].get("name"), int(ks[1]["value"]), int(b["value"])

    def seq(self, lst, ind, ctx):
        pad = "  " * ind
        out = []
        none = {"fin": None, "brk": None, "ret": None}
        i = 0
        lst = list(lst)
        while i < len(lst):
            s = lst[i]
            i += 1
            k = s.get("kind")
            if k == "IfStmt" and self.const_cond(kids(s)[0]) is not None:
                name, have, want = self.const_cond(kids(s)[0])
                parts = kids(s)
                if s.get("hasInit") or s.get("hasVar") or len(parts) not in (2, 3):
                    fail(s, "if statement shape")
                self.count(s)
                live = parts[1] if have == want else (parts[2] if len(parts) == 3 else None)
                self.resolved.append({"line": s.get("_line"), "cond": "%s == %d" % (name, want), "value": have == want})
                out.append("%s-- %s" % (pad, self.src(s)))
                out.append("%s--   `%s == %d` is %s in this instantiation: %s" % (
                    pad, name, want, "true" if have == want else "false",
                    "the branch follows" if live is not None else "nothing to translate"))
                if live is not None:
                    body = self.lst(live)
                    if any(x.get("kind") == "DeclStmt" for x in body):
                        fail(s, "declaration inside a resolved branch (scoping is not translated)")
                    lst[i:i] = body
                continue
            if k == "WhileStmt":
                self.count(s)
                if s.get("hasVar") or len(kids(s)) != 2:
                    fail(s, "while shape")
                out += self.while_loop(s, kids(s)[0], kids(s)[1], ind)
                continue
            if k == "ForStmt":
                parts = s["inner"]
                if len(parts) != 5 or (parts[1] or {}).get("kind") or (parts[3] or {}).get("kind") or not (parts[2] or {}).get("kind"):
                    fail(s, "for statement shape (expected `for (decls; cond; )`)")
                self.count(s)
                out += super().seq([parts[0]], ind, none)
                out += self.while_loop(s, parts[2], parts[4], ind)
                continue
            if k == "CXXMemberCallExpr":
                self.count(s)
                callee = kids(s)[0]
                if callee.get("kind") != "MemberExpr" or callee.get("name") != "push_back":
                    fail(s, "member call of %r as a statement (callee not mapped)" % callee.get("name"))
                self.count(callee)
                obj = unparen(kids(callee)[0])
                ot = (obj.get("type") or {})
                if obj.get("kind") != "MemberExpr" or obj.get("name") != "l_b_ptr" or obj.get("isArrow") or \
                        not re.fullmatch(r"std::list<[^<>]*\*>", ot.get("desugaredQualType", ot.get("qualType", ""))):
                    fail(s, "push_back on something that is not the std::list member l_b_ptr of a cell")
                self.count(obj)
                args = kids(s)[1:]
                if len(args) != 1:
                    fail(s, "push_back arguments")
                a = strip_casts(args[0])
                self.count(args[0])
                p = self.lvalue(a)
                if p.t != ("P", self.in_t):
                    fail(args[0], "push_back of a %s" % tyname(p.t))
                self.store(s, "pushBack", kids(obj)[0], p.p())
                out.append("%s-- %s" % (pad, self.src(s)))
                out += self.flush(pad)
                continue
            out += super().seq([s], ind, none)
        if ctx.get("fin"):
            out += ctx["fin"](pad)
        return out

    def conjuncts(self, c):
        c = unparen(c)
        if c.get("kind") == "BinaryOperator" and c.get("opcode") == "&&":
            return self.conjuncts(kids(c)[0]) + self.conjuncts(kids(c)[1])
        return [c]

    def has_jump(self, n):
        return n.get("kind") in ("BreakStmt", "ContinueStmt", "ReturnStmt", "GotoStmt") or any(self.has_jump(c) for c in kids(n))

    def while_loop(self, s, cond, body, ind):
        pad = "  " * ind
        if self.has_jump(body):
            fail(s, "break / continue / return inside a while body")
        acc = self.assigned(body, [])
        self.assigned(cond, acc)
        # ---- fuel
        top = kids(body) if body.get("kind") == "CompoundStmt" else [body]
        fuel = None
        for c in self.conjuncts(cond):
            if c.get("kind") != "BinaryOperator" or c.get("opcode") != "<":
                continue
            x = strip_casts(kids(c)[0], ("LValueToRValue", "NoOp"))
            xv = self.env.get(x.get("referencedDecl", {}).get("id")) if x.get("kind") == "DeclRefExpr" else None
            if xv is None or xv.t[0] not in "US":
                continue
            inc = [t for t in top if t.get("kind") == "UnaryOperator" and t.get("opcode") == "++" and self.root_var(kids(t)[0]) is xv]
            if not inc or self.nonincrement_assigned(body, xv, []):
                continue
            bvars = []
            self.reads(kids(c)[1], bvars)
            if any(v in acc for v in bvars) or self.has_memory(kids(c)[1]):
                continue
            saved_nodes, saved_kinds = self.nodes, dict(self.kinds)
            bv, lines = self.sub(kids(c)[1])
            self.nodes, self.kinds = saved_nodes, saved_kinds
            if lines or bv.t != xv.t:
                continue
            fuel = "(%s + 1)" % bv.p()
            self.fuels.append({"line": s.get("_line"), "counter": xv.name, "bound": self.tr.source_line(c.get("_file"), c.get("_line"))[:0] + bv.s,
                               "fuel": "bound + 1"})
            break
        if fuel is None:
            fail(s, "loop without a conjunct `x < B` (x incremented by every iteration, B loop-invariant) to take the fuel from")
        st = self.outvars(acc)
        if any(v not in st for v in acc):
            fail(s, "loop assigning a variable that has no value before the loop")
        tup = self.tup(st)
        out = ["%s-- %s" % (pad, self.src(s))]
        c = self.expr(cond)
        if c.t != ("B", 1):
            fail(cond, "condition type")
        cl = self.flush(pad + "      ")
        snap = self.snapshot()
        bl = self.seq(self.lst(body), ind + 3, {"fin": lambda p: [p + "pure %s" % tup], "brk": None, "ret": None})
        self.restore(snap)
        out.append("%slet %s ← CL.whileFuel %s (fun s => do" % (pad, tup, fuel))
        out.append("%s      let %s := s" % (pad, tup))
        out += cl
        out.append("%s      pure (%s)) (fun s => do" % (pad, c.s))
        out.append("%s      let %s := s" % (pad, tup))
        out += bl
        out[-1] += ") %s" % tup
        return out

    def reads(self, n, acc):
        k = n.get("kind")
        if k == "DeclRefExpr":
            v = self.env.get(n.get("referencedDecl", {}).get("id"))
            if v is not None:
                acc.append(v)
        if k == "MemberExpr" and unparen(kids(n)[0]).get("kind") == "CXXThisExpr":
            acc.append(self.member_var(n, False))
        for c in kids(n):
            self.reads(c, acc)

    def has_memory(self, n):
        return n.get("kind") in ("ArraySubscriptExpr", "CallExpr", "CXXMemberCallExpr") or \
            (n.get("kind") == "UnaryOperator" and n.get("opcode") in ("*", "++", "--")) or any(self.has_memory(c) for c in kids(n))

    # ------------------------------------------------------------------ the function
    def translate(self):
        names = self.tr.inst_names[self.suffix]
        cls = "nfl::FastGaussianNoise<%s, %s, %d>" % (names[0], names[1], self.depth)
        m = self.methods.get("buildLookupTables")
        if m is None:
            raise Unsupported("no instantiated body of %s::buildLookupTables" % cls)
        parms = [c for c in kids(m) if c.get("kind") == "ParmVarDecl"]
        body = [c for c in kids(m) if c.get("kind") == "CompoundStmt"]
        if len(body) != 1 or parms or m["type"]["qualType"].split("(")[0].strip() != "void":
            fail(m, "buildLookupTables shape")
        self.fn_sigs = {}
        self.ret_t = ("V", 0)
        self.count(m)
        self.count(body[0])
        pc = self.start_piece("buildLookupTables", "`%s::buildLookupTables`  (%s:%s)." % (cls, self.tr.short(m.get("_file")), m.get("_line")))
        self.calls.init = False
        stmts = kids(body[0])
        ov = []

        def fin(pad):
            acc = []
            for s in stmts:
                self.assigned(s, acc)
            vs = [v for v in self.outvars(acc) if v.kind == "member"]
            ov.extend(vs)
            return [pad + "pure " + self.tup(vs)]
        pc.lines = self.seq(stmts, 1, {"fin": fin, "brk": None, "ret": None})
        pc.ret = "(" + " × ".join(lean_ty(v.t) for v in ov) + ")"
        pc.outs = [v.name for v in ov]
        return self


class Translator(G.Translator):
    def __init__(self, repo):
        super().__init__(repo)
        self.inst_names = {suf: (a, b) for a, b, _, suf in INSTS}

    def run(self, txt):
        objs = g.parse_objects(txt)
        self.byid = g.annotate(objs)
        found = self.find()
        res = []
        for a, b, d, suf in INSTS:
            key = (CNAME[a], CNAME[b], d)
            if key not in found:
                raise Unsupported("no instantiation FastGaussianNoise<%s, %s, %d> in the AST" % key)
            res.append(LInst(self, found[key], (INTS[a], INTS[b], d), suf).translate())
        return res


def make_tu():
    os.makedirs(g.BUILD, exist_ok=True)
    tu = os.path.join(g.BUILD, "lut_ast_tu.cpp")
    lines = ['#include "FastGaussianNoise.hpp"']
    for a, b, d, _ in INSTS:
        lines.append("template class nfl::FastGaussianNoise<%s, %s, %d>;" % (a, b, d))
    open(tu, "w").write("\n".join(lines) + "\n")
    return tu


def body_text(i):
    return "\n\n".join("\n".join(l for l in i.render(p, p.ret).splitlines() if not l.startswith("C types:") and not l.startswith("/--"))
                       for p in i.pieces).replace(i.suffix, "X")


def main():
    repo = os.environ.get("VERIF_REPO", "/repo")
    out = OUT
    if "--repo" in sys.argv:
        repo = sys.argv[sys.argv.index("--repo") + 1]
    if "--out" in sys.argv:
        out = sys.argv[sys.argv.index("--out") + 1]
    repo = os.path.abspath(repo)
    G.lean_ty = lean_ty           # this process only: `in_class **` gets a Lean type (gen_gauss_ast.py itself is not modified)
    txt = G.clang_ast(repo, make_tu())
    if "--keep" in sys.argv:
        open(os.path.join(g.BUILD, "lut_ast_dump.json"), "w").write(txt)
    try:
        G.SKEL = False
        insts = Translator(repo).run(txt)
        G.SKEL = True
        skels = Translator(repo).run(txt)
        G.SKEL = False
        sk = {}
        for i in skels:
            sk.setdefault(i.depth, []).append((i.suffix, body_text(i)))
        groups = []
        for d, l in sorted(sk.items()):
            if len(l) < 2:
                raise Unsupported("depth %d is instantiated only once: nothing to compare the translated text with" % d)
            for suf, t in l[1:]:
                if t != l[0][1]:
                    import difflib
                    df = "\n".join(list(difflib.unified_diff(l[0][1].splitlines(), t.splitlines(), l[0][0], suf, lineterm="", n=1))[:30])
                    raise Unsupported("the instantiations %s and %s do not agree up to their template parameters:\n%s" % (l[0][0], suf, df))
            groups.append([suf for suf, _ in l])
        if "--skeleton" in sys.argv:
            for d, l in sorted(sk.items()):
                sys.stderr.write("---- skeleton depth %d\n%s\n" % (d, l[0][1]))
    except Unsupported as e:
        msg = "gen_lut_ast: UNSUPPORTED C++ construct, nothing translated: %s" % e
        sys.stderr.write(msg + "\n")
        print(json.dumps({"ok": False, "err": msg}))
        sys.exit(3)
    head = [
        "-- GENERATED by tools/gen_lut_ast.py from clang++-14's typed AST of include/nfl/prng/FastGaussianNoise.hpp",
        "-- (explicit instantiations %s): `buildLookupTables`." % ", ".join("<%s,%s,%d>" % (a, b, d) for a, b, d, _ in INSTS),
        "-- Do not edit.  One `let` per C++ statement / memory access, one CSem / CGauss / CLut helper per typed expression node;",
        "-- `none` = access outside an object, or a `while` out of fuel (fuel = bound of its counter + 1, see Model/CSemLut.lean).",
        "import NflVerif.Model.CSemLut",
        "set_option linter.unusedVariables false",
        "namespace Nfl.Gen",
        "open Nfl",
        "",
    ]
    parts = []
    for i in insts:
        parts.append("/-! ### FastGaussianNoise<%s, %s, %d> -/" % (i.tr.inst_names[i.suffix][0], i.tr.inst_names[i.suffix][1], i.depth))
        for p in i.pieces:
            parts.append(i.render(p, p.ret))
        parts.append("/-- members assigned by the function = components of its result, in order -/\ndef buildLookupTables_outs_%s : List String := [%s]" % (
            i.suffix, ", ".join('"%s"' % o for o in i.pieces[0].outs)))
    text = "\n".join(head) + "\n" + "\n\n".join(parts) + "\n\nend Nfl.Gen\n"
    text = text.replace("CG.", "CGauss.").replace("CL.", "CLut.")
    changed = g.write_if_changed(out, text)
    kinds = {}
    for i in insts:
        for k, v in i.kinds.items():
            kinds[k] = kinds.get(k, 0) + v
    print(json.dumps({
        "ok": True, "pieces": [p.name for i in insts for p in i.pieces], "nodes": sum(i.nodes for i in insts),
        "node_kinds": dict(sorted(kinds.items())), "skeletons_agree": groups,
        "parameters": {i.suffix: [v.name for v in sorted(i.pieces[0].params, key=i.rank)] for i in insts},
        "results": {i.suffix: i.pieces[0].outs for i in insts},
        "resolved_ifs": {i.suffix: i.resolved for i in insts}, "while_fuel": insts[0].fuels + insts[2].fuels,
        "ub_wrap_assumed": insts[2].ub, "not_translated": insts[0].skipped,
        "sha": hashlib.sha256(text.encode()).hexdigest()[:16], "changed": changed,
        "out": os.path.relpath(out, g.VERIF), "repo": repo}))


if __name__ == "__main__":
    main()
