#!/usr/bin/env python3-vt
"""stdin: JSON list of integers; stdout: JSON {str(n): chain} where chain is a list of
[p, a, [[q, e], ...]] lines in ascending order of p (dependencies first).  Untrusted hints:
the Lean kernel re-checks every line.  For a composite n the chain is [] (the check then fails)."""
import json, sys
from sympy import factorint, isprime, primitive_root

memo = {}


def line(p):
    if p in memo:
        return memo[p]
    f = factorint(p - 1)
    a = int(primitive_root(p))
    memo[p] = [p, a, [[int(q), int(e)] for q, e in sorted(f.items())]]
    return memo[p]


def chain(n):
    if n < 3 or not isprime(n):
        return []
    need = set()
    stack = [n]
    while stack:
        p = stack.pop()
        if p in need or p == 2:
            continue
        need.add(p)
        for q, _ in line(p)[2]:
            if q != 2:
                stack.append(q)
    return [line(p) for p in sorted(need)]


def main():
    ns = json.load(sys.stdin)
    json.dump({str(n): chain(n) for n in ns}, sys.stdout)


if __name__ == "__main__":
    main()
