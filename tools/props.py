"""Per-property plug-ins of ./check: which harness streams tie the model to the code, how to search for a
failing input when a proof obligation or the correspondence breaks, what is trusted."""
import json, os, subprocess, sys
import checklib as cl

COMMON_TB = [
    "Lean 4.33.0 kernel; Mathlib v4.33.0 lemmas; axioms limited to propext, Classical.choice, Quot.sound (audited by #print axioms on every run)",
    "no sorry/admit/native_decide/bv_decide/own axioms (grep-audited on every run); `decide +kernel` only on finite tables",
    "correspondence check: C++ harness (built from /repo's working tree on every run), line protocol, compiled Lean driver (Lean compiler agrees with the kernel's reading of the same definitions)",
    "generator coverage bounds what the correspondence sees (distribution printed in class_histogram)",
    "g++ 12 code generation and the C/C++ semantics of integer promotion, wrap-around and shifts are modelled, not verified",
]


def _nontrivial_ops(lhs):
    return False


def ops_streams(ctx, res, env_extra=None, backends=None, only=None):
    backends = backends or ("serial",) + cl.simd_backends()
    specs = [dict(name="ops", backend=b) for b in backends]
    exes, errs = cl.build_harnesses(specs)
    for k, e in errs.items():
        ctx["problems"].append({"kind": "harness-build", "what": "ops harness does not compile for %s" % (k,), "detail": e})
    for (name, b), exe in sorted(exes.items()):
        flt = (lambda l: not l.startswith("v")) if only is None else only
        cl.run_stream(res, "ops/" + b, exe, env=env_extra, line_filter=flt,
                      trivial=lambda lhs: False)
    return {"backends": sorted(b for (_, b) in exes)}


# ------------------------------------------------------------------------------------------- C03
def translators_C03(repo):
    """source-level tie: Generated/OpsAst.lean is re-translated from clang's AST of the functors on every run; the
    equalities with the hand model (Proofs/OpsAstEq.lean) and the transported C03 theorems (Properties/C03Ast.lean)
    are then re-checked by `lake build`"""
    r = cl.run(["python3", os.path.join(cl.HERE, "gen_ops_ast.py"), "--repo", repo])
    info = {"ok": r.returncode == 0}
    if r.returncode != 0:
        info["err"] = (r.stdout + r.stderr)[-2000:]
    else:
        try:
            info.update(json.loads(r.stdout.strip().splitlines()[-1]))
            info.pop("node_kinds", None)
        except Exception as e:
            info["ok"] = False
            info["err"] = "unparsable summary: %s" % e
    return {"gen_ops_ast": info}


def translators_C06(repo):
    """C03's functor translation + the table initialisation (tools/gen_init_ast.py -> Generated/InitAst.lean; Proofs/InitAstEq.lean,
    Properties/C06Ast.lean re-checked by `lake build`)"""
    sys.path.insert(0, os.path.join(os.path.dirname(os.path.abspath(__file__)), "props_d"))
    import _init_common as ic
    out = translators_C03(repo)
    out.update(ic.translators_init(repo, with_ops=False))
    return out


def streams_C03(ctx, res):
    return ops_streams(ctx, res)


def search_C03(ctx, res, problems):
    # boundary enumeration with more rows / more random draws, several seeds
    found = []
    for s in range(1):
        r2 = cl.StreamResult()
        ops_streams(ctx, r2, env_extra={"VERIF_SEED": str(ctx["seed"] * 1000 + s + 7), "VERIF_TIER": "thorough"})
        for sf in r2.specfail:
            found.append({"kind": "spec", **sf})
        if found:
            break
    return found


# ------------------------------------------------------------------------------------------- C06
def streams_C06(ctx, res):
    # Tie = translator (tables regenerated from the compiled header on this run).  In addition the library's
    # own arithmetic is exercised on *every* row (mulmod / compute_shoup / Shoup product).
    flt = lambda l: l.split(" ", 1)[0] in ("mulmod", "cshoup", "mulshoup4", "addmod")
    cov = ops_streams(ctx, res, env_extra={"VERIF_ALLROWS": "1", "VERIF_NRAND": "2", "VERIF_NOSTRUCT": "1"}, backends=("serial",), only=flt)
    # transforms, round trips and products with EVERY row in use (poly<T,8,kMaxNbModuli>): a wrong root, inverse of the
    # degree or Newton quotient in any row shows up as a failing transform/product on that row
    sys.path.insert(0, os.path.join(os.path.dirname(os.path.abspath(__file__)), "props_d"))
    import _ntt_common as nc
    exes, errs = cl.build_harnesses([nc.NTT_SPECS[0]])
    for k, e in errs.items():
        ctx["problems"].append({"kind": "harness-build", "what": "ntt harness does not compile", "detail": e})
    for (name, b), exe in exes.items():
        cl.run_stream(res, "ntt-allrows/" + b, exe, env={"VERIF_ALLROWS": "1"})
    return cov


def search_C06(ctx, res, problems):
    """Which row fact is false?  Recomputed outside Lean with exact integer arithmetic (sympy), then the real
    library is run on that row."""
    found = []
    try:
        dump = json.load(open(os.path.join(cl.BUILD, "params_dump.json")))
    except Exception:
        return found
    script = r'''
import json,sys
from sympy import isprime
d=json.load(open(sys.argv[1])); out=[]
for w in ("16","32","64"):
    t=d[w]; W=int(w); K=t["kMaxPolyDegree"]; P=t["P"]
    for i,p in enumerate(P):
        bad=[]
        if not isprime(p): bad.append("composite")
        if not (2**(W-3)<=p<2**(W-2)): bad.append("size")
        if p%(2*K)!=1: bad.append("not 1 mod 2*kMax")
        if i<len(t["primitive_roots"]) and pow(t["primitive_roots"][i],K,p)!=p-1: bad.append("root order")
        if i<len(t["invkMaxPolyDegree"]) and t["invkMaxPolyDegree"][i]*K%p!=1: bad.append("inverse of kMax")
        if i<len(t["Pn"]) and (2**(2*W))//p!=4*2**W+t["Pn"][i]: bad.append("Newton quotient")
        if i>0 and P[i-1]<=p: bad.append("not strictly decreasing / duplicate")
        if bad: out.append({"w":W,"row":i,"p":p,"false_facts":bad})
    for nm in ("Pn","primitive_roots","invkMaxPolyDegree"):
        if len(t[nm])!=len(P): out.append({"w":W,"row":-1,"false_facts":["length of "+nm]})
    if len(P)!=t["kMaxNbModuli"]: out.append({"w":W,"row":-1,"false_facts":["kMaxNbModuli"]})
print(json.dumps(out))
'''
    r = cl.run(["python3-vt", "-c", script, os.path.join(cl.BUILD, "params_dump.json")])
    try:
        bad = json.loads(r.stdout)
    except Exception:
        bad = []
    for b in bad[:10]:
        found.append({"kind": "table-row", "line": "table w=%s row=%s p=%s" % (b.get("w"), b.get("row"), b.get("p")),
                      "false_facts": b["false_facts"],
                      "note": "row fact recomputed with exact integer arithmetic on the table as compiled from /repo"})
    if not found:
        # every row fact holds: the broken obligation is about the arithmetic ON the rows — run the functors on every row
        # with fresh seeds and more draws (the quotient-estimate worst-case class is generated for every row)
        flt = lambda l: l.split(" ", 1)[0] in ("mulmod", "muladd", "cshoup", "mulshoup4", "muladdshoup5", "addmod", "submod")
        for s in range(3):
            r2 = cl.StreamResult()
            ops_streams(ctx, r2, env_extra={"VERIF_ALLROWS": "1", "VERIF_NRAND": "6", "VERIF_NOSTRUCT": "1",
                                            "VERIF_SEED": str(ctx["seed"] * 1000 + 31 + s)}, backends=("serial",), only=flt)
            for sf in r2.specfail[:10]:
                found.append({"kind": "spec", **sf})
            if found:
                break
    return found


PROPS = {
    "C03": {
        "streams": streams_C03, "search": search_C03, "translators": translators_C03,
        "rule": "functors called directly on table rows with boundary-directed operand tuples (sum=p-1/p/p+1, product≡0/1/p-1, x*y' within ±2 of a multiple of 2^w, lazy words up to 2^w-1) plus random, every tuple rotated through SIMD lanes, three backends; distinct = distinct op lines; all are non-trivial (each line is one functor evaluation compared with model and exact spec)",
        "trusted_base": COMMON_TB + ["x86 SSE/AVX2 instructions execute as documented (kernels are compared lane by lane with the scalar model)",
                                     "source-level tie of the scalar functors: clang++-14's typed AST (-ast-dump=json) of the instantiated operator() bodies, tools/gen_ops_ast.py's traversal, and the per-node integer semantics of lean/NflVerif/Model/CSem.lean (signed `int` overflow read as wrap-around at the sites listed under translators.gen_ops_ast.ub_wrap_assumed)"],
        "assumptions": ["inputs in the range the property states (x,y,z < p; any word where the property says so)"],
    },
    "C06": {
        "streams": streams_C06, "search": search_C06, "translators": translators_C06,
        "rule": "tables regenerated from params.hpp as compiled; every row checked in the Lean kernel; plus library arithmetic (mulmod, compute_shoup, Shoup product, addmod) on every row against the model that uses the generated rows; distinct = distinct op lines",
        "trusted_base": COMMON_TB + ["tools/gen_params.py + harness/dump_params.cpp print the tables the compiler sees", "sympy supplies Pratt-certificate hints only (kernel re-checks them)",
                                     "the 'hence exact arithmetic' clause is proved about the functor bodies re-translated from the source on every run (tools/gen_ops_ast.py, clang AST, CSem.lean): Nfl.C03Ast.*_ast hold for every row of the regenerated tables",
                                     "the 'derived degrees' clause is proved about the table builder re-translated from core::initialize() / core::prep_wtab on every run (tools/gen_init_ast.py, CSemInit.lean): Nfl.C06Ast.tables_ast / derived_root_ast / derived_invN_ast; the loop over the moduli is not translated (shape checked)"],
        "assumptions": ["kMaxPolyDegree is a power of two (checked by kMaxNN theorems)"],
    },
}

# further properties live in tools/props_d/<Cxx>.py, each exposing PROP = {streams, search?, rule, trusted_base, assumptions}
import importlib.util, glob as _glob
for _f in sorted(_glob.glob(os.path.join(os.path.dirname(os.path.abspath(__file__)), "props_d", "C*.py"))):
    _name = os.path.basename(_f)[:-3]
    _spec = importlib.util.spec_from_file_location("props_d_" + _name, _f)
    _m = importlib.util.module_from_spec(_spec)
    _spec.loader.exec_module(_m)
    PROPS[_name] = _m.PROP


def replay(prop, P, path, tier, seed):
    """Re-run the recorded failing inputs: the harnesses are rebuilt from /repo's current tree and re-run with the
    recorded seed and tier, only the recorded op lines are passed to the driver, and implementation result, model result
    and spec verdict are printed for each.  (Failures that are not op lines — sanitizer reports, table facts, broken
    theorems — are printed from the replay file.)"""
    data = json.load(open(path))
    seed = int(data.get("seed", seed))
    tier = data.get("tier", tier)
    os.environ["VERIF_SEED"] = str(seed)
    os.environ["VERIF_TIER"] = tier
    lhs = set()
    for f in data.get("failing_inputs", []):
        if "line" in f and " =>" in f["line"]:
            lhs.add(f["line"].split(" =>")[0].strip())
    print("replay of %s (property %s, seed %d, tier %s): %d recorded op line(s)" % (path, prop, seed, tier, len(lhs)))
    for f in data.get("failing_inputs", [])[:10]:
        print("  recorded:", {k: (str(v)[:200]) for k, v in f.items() if k in ("kind", "stream", "line", "false_facts", "note")})
    for p in data.get("problems", [])[:5]:
        print("  recorded problem:", p.get("kind"), p.get("what"))
    if not lhs:
        print("no op line to re-run (see the recorded problems above)")
        return 0
    cl.regenerate()
    cl.lake_build(["driver"])
    cl.REPLAY_LHS = lhs
    res = cl.StreamResult()
    ctx = {"prop": prop, "tier": tier, "seed": seed, "gen": {}, "problems": []}
    P["streams"](ctx, res)
    print("re-run on the current tree: %d matching line(s) evaluated, %d spec failure(s), %d model difference(s)" % (
        res.lines, max(len(res.specfail), res.specfail_total), max(len(res.modeldiff), res.modeldiff_total)))
    for s_ in (res.specfail + res.modeldiff)[:20]:
        print("  ", s_["driver"][:400])
    if res.lines == 0:
        print("  (the recorded inputs were not generated again: generator or seed changed; feeding the recorded lines as they are)")
        r2 = cl.StreamResult()
        cl.feed_driver(r2, "recorded", [f["line"] for f in data.get("failing_inputs", []) if "line" in f and " =>" in f["line"]])
        for s_ in (r2.specfail + r2.modeldiff)[:20]:
            print("  ", s_["driver"][:400])
    return 1 if (res.specfail or res.specfail_total) else 0
