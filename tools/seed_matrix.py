#!/usr/bin/env python3
"""Rewrites the table between <!-- SEED-MATRIX --> markers in DESIGN.md from seeded/*/meta.json + results.json."""
import json, os, glob, re
V = "/verif"
rows = []
for d in sorted(glob.glob(os.path.join(V, "seeded", "*"))):
    sid = os.path.basename(d)
    try:
        meta = json.load(open(os.path.join(d, "meta.json")))
    except Exception:
        continue
    res = {}
    try:
        res = json.load(open(os.path.join(d, "results.json")))["results"]
    except Exception:
        pass
    summ = re.sub(r"\s+", " ", str(meta.get("summary", "")))[:230]
    needs = re.sub(r"\s+", " ", str(meta.get("needs", "")))[:200]
    caught = []
    for c, r in res.items():
        if r["exit"] == 1:
            f = r.get("first_failing_input") or {}
            if "line" in f:
                how = "failing input `%s`" % re.sub(r"\s+", " ", f["line"])[:90]
            elif f.get("false_facts"):
                how = "failing fact %s" % f["false_facts"]
            elif "no_failing_input" in f:
                how = "no-failing-input-found (proof/tie broken)"
            else:
                how = "violation"
            caught.append("**%s**: %s" % (c, how))
        else:
            caught.append("%s: quiet" % c)
    rows.append("| %s | %s | %s | %s |" % (sid, summ.replace("|", "/"), needs.replace("|", "/"), "<br>".join(caught).replace("|", "/") or "not run yet"))
table = "| seeded change | what was changed | what it needs to manifest | checks run → result |\n|---|---|---|---|\n" + "\n".join(rows)
p = os.path.join(V, "DESIGN.md")
s = open(p).read()
a, b = "<!-- SEED-MATRIX -->", "<!-- /SEED-MATRIX -->"
if a in s:
    s = s[:s.index(a) + len(a)] + "\n" + table + "\n" + s[s.index(b):]
    open(p, "w").write(s)
print(table[:600])
