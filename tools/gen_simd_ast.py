#!/usr/bin/env python3
"""Translator: clang's typed AST of NFLlib's SSE / AVX2 vector kernels -> lean/NflVerif/Generated/SimdAst.lean

Two configurations of one translation unit including "nfl.hpp":
    sse  : -DNFL_OPTIMIZED -DNTT_SSE  -msse4.2        avx2 : -DNFL_OPTIMIZED -DNTT_AVX2 -mavx2
with explicit instantiations that force the bodies of
    nfl::ops::mulhi_epu32 / mulhi_epu16 / avx2_mulhi_epu32,
    nfl::ops::{addmod,submod,mulmod_shoup,muladd_shoup}<uint16_t|uint32_t, simd::sse|simd::avx2>::operator()
        (with their static helpers finish / shuffle_lh / shift8),
    nfl::ops::ntt_loop_body<simd::sse|simd::avx2, poly, uint16_t|uint32_t>  (constructor + operator()).

The bodies are straight-line sequences of intrinsic calls.  A register value is translated to a `Simd.Reg`
(`List Nat` of lanes) TOGETHER WITH a lane width known to the translator (the "view"); every intrinsic is mapped BY
NAME (clang's inline header functions `_mm…`: the header body is not entered; macros: the `__builtin_ia32_…` name and
its constant immediates) to the intrinsic model of lean/NflVerif/Model/Simd.lean with the lane width of the name;
where the view of a producer differs from what the consumer reads, `SimdView.relane a b` is inserted.  Casts between
vector types of equal size are bit-preserving (no Lean counterpart).  Scalar integer sub-expressions (arguments of
`set1`) are translated node by node with lean/NflVerif/Model/CSem.lean (+ SimdView.lean for `short` / `long long`).
`P[cm]` is the parameter `P_cm`; loads of `ntt_loop_body::operator()` are the register parameters, its stores the result.
Any intrinsic, builtin, node kind, cast kind, type or non-constant immediate that is not listed stops the translation
with a non-zero exit naming it and file:line.  Last stdout line: JSON summary.  Output rewritten only on change.
Usage: gen_simd_ast.py [--repo DIR] [--out FILE] [--keep]
"""
import hashlib, json, os, re, subprocess, sys

HERE = os.path.dirname(os.path.abspath(__file__))
sys.path.insert(0, HERE)
import gen_ops_ast as G          # reused: parse_objects, annotate, write_if_changed, Unsupported (not modified)

VERIF = os.path.dirname(HERE)
BUILD = os.path.join(VERIF, "build")
OUT = os.path.join(VERIF, "lean", "NflVerif", "Generated", "SimdAst.lean")
CLANG = "clang++-14"
Unsupported = G.Unsupported

CONFIGS = [("sse", ["-DNTT_SSE", "-msse4.2"]), ("avx2", ["-DNTT_AVX2", "-mavx2"])]
FUNCTORS = ["addmod", "submod", "mulmod_shoup", "muladd_shoup"]
TYPES = [("uint16_t", "unsigned short", "u16", 16), ("uint32_t", "unsigned int", "u32", 32)]
FREE = {"sse": ["mulhi_epu32", "mulhi_epu16"], "avx2": ["avx2_mulhi_epu32"]}

SCALAR = {"unsigned short": ("U", 16), "unsigned int": ("U", 32), "unsigned long": ("U", 64), "unsigned long long": ("U", 64),
          "short": ("S", 16), "int": ("S", 32), "long long": ("S", 64), "long": ("S", 64)}
ELEM_SIZE = {"char": 1, "signed char": 1, "unsigned char": 1, "short": 2, "unsigned short": 2, "int": 4, "unsigned int": 4,
             "float": 4, "long long": 8, "unsigned long long": 8, "double": 8}


def fail(node, why):
    raise Unsupported("%s: node kind %s at %s:%s" % (why, node.get("kind"), os.path.basename(str(node.get("_file"))), node.get("_line")))


# ------------------------------------------------------------------------------------------------ C types
def strip_cv(q):
    q = q.strip()
    ch = True
    while ch:
        ch = False
        if q.startswith("const "):
            q, ch = q[6:].strip(), True
        if q.endswith(" const"):
            q, ch = q[:-6].strip(), True
    return q


def tstr(node):
    t = node.get("type") or {}
    return t.get("desugaredQualType", t.get("qualType", ""))


VEC_RE = re.compile(r"^__attribute__\(\(__vector_size__\((\d+) \* sizeof\(([a-z ]+)\)\)\)\) ([a-z ]+)$")


def ctype(node):
    """('V', bits) for an x86 vector type, ('U'|'S', k) for an integer type, ('P', k) pointer to k-bit unsigned, ('void',)"""
    q = strip_cv(tstr(node))
    m = VEC_RE.match(q)
    if m:
        n, e1, e2 = int(m.group(1)), m.group(2).strip(), strip_cv(m.group(3))
        if e1 != e2 or e1 not in ELEM_SIZE:
            fail(node, "vector type %r" % q)
        bits = n * ELEM_SIZE[e1] * 8
        if bits not in (128, 256):
            fail(node, "vector of %d bits" % bits)
        return ("V", bits)
    if q in SCALAR:
        return SCALAR[q]
    if q == "void":
        return ("void",)
    if q.endswith("*"):
        base = strip_cv(q[:-1])
        m2 = VEC_RE.match(base)
        if m2 or base in ("__m128i", "__m256i"):
            return ("PV",)
        if base in SCALAR and SCALAR[base][0] == "U":
            return ("P", SCALAR[base][1])
    fail(node, "unknown C type %r" % q)


def tyname(t):
    if t[0] == "V":
        return "__m%d" % t[1]
    return {"U": "unsigned %d-bit", "S": "signed %d-bit", "P": "pointer to unsigned %d-bit"}[t[0]] % t[1]


# ------------------------------------------------------------------------------------------------ values
class Reg:
    def __init__(self, s, bits, view, atom=False):
        self.s, self.bits, self.view, self.atom = s, bits, view, atom

    def p(self):
        return self.s if self.atom else "(" + self.s + ")"


class Sc:
    """scalar: Lean text, C type, constant value (mathematical, signed types as signed) if known, interval"""

    def __init__(self, s, t, const=None, rng=None, atom=False):
        self.s, self.t, self.const, self.atom = s, t, const, atom
        self.rng = rng if rng is not None else ((const, const) if const is not None else full_range(t))

    def p(self):
        return self.s if self.atom else "(" + self.s + ")"


def full_range(t):
    return (0, 2 ** t[1] - 1) if t[0] == "U" else (-2 ** (t[1] - 1), 2 ** (t[1] - 1) - 1)


def wrap(t, c):
    c %= 2 ** t[1]
    if t[0] == "S" and c >= 2 ** (t[1] - 1):
        c -= 2 ** t[1]
    return c


def residue(t, c):
    return c % 2 ** t[1]


class Var:
    def __init__(self, name, t, val=None):
        self.name, self.t, self.val = name, t, val      # val: Reg / Sc describing the CURRENT binding, None = uninitialised


# ------------------------------------------------------------------------------------------------ intrinsic table
# name -> (kind, lane width …).  The prefixes `_mm_` (128 bit) and `_mm256_` (256 bit) share one model.
def intrinsic_table():
    t = {}
    for pre in ("_mm_", "_mm256_"):
        for w in (16, 32, 64):
            t[pre + "add_epi%d" % w] = ("bin", "Simd.add %d" % w, w, w)
            t[pre + "sub_epi%d" % w] = ("bin", "Simd.sub %d" % w, w, w)
            t[pre + "cmpgt_epi%d" % w] = ("bin", "Simd.cmpgt %d" % w, w, w)
        for w in (16, 32):
            t[pre + "mullo_epi%d" % w] = ("bin", "Simd.mullo %d" % w, w, w)
        t[pre + "mulhi_epu16"] = ("bin", "Simd.mulhiEpu16", 16, 16)
        t[pre + "mul_epu32"] = ("bin", "Simd.mulEpu32", 32, 64)
        t[pre + "srli_epi64"] = ("shift", "Simd.srli64", 64, 64)
        t[pre + "slli_epi64"] = ("shift", "Simd.slli64", 64, 64)
        t[pre + "set1_epi16"] = ("set1", 16)
        t[pre + "set1_epi32"] = ("set1", 32)
        t[pre + "set1_epi64x"] = ("set1", 64)
    t["_mm_and_si128"] = ("and",)
    t["_mm256_and_si256"] = ("and",)
    t["_mm_cvtepu16_epi32"] = ("cvt", "Simd.cvtepu16_128", 128, 128)
    t["_mm256_cvtepu16_epi32"] = ("cvt", "Simd.cvtepu16_256", 128, 256)
    t["_mm_packus_epi32"] = ("bin", "Simd.packus32", 32, 16)
    t["_mm256_castsi256_si128"] = ("cast256to128",)
    t["_mm_load_si128"] = ("load", 128)
    t["_mm256_load_si256"] = ("load", 256)
    t["_mm_store_si128"] = ("store", 128)
    t["_mm256_store_si256"] = ("store", 256)
    return t


INTRINSICS = intrinsic_table()
BUILTINS = {"__builtin_ia32_pshufd": ("shuffle", 128), "__builtin_ia32_pshufd256": ("shuffle", 256),
            "__builtin_ia32_blendps": ("blend", 128), "__builtin_ia32_blendps256": ("blend", 256),
            "__builtin_ia32_psrldqi128_byteshift": ("psrldq", 128), "__builtin_ia32_permti256": ("perm2x128", 256)}
CAST_KINDS_EXPR = ("ImplicitCastExpr", "CStyleCastExpr", "CXXStaticCastExpr", "CXXFunctionalCastExpr", "CXXReinterpretCastExpr")


# ------------------------------------------------------------------------------------------------ one function body
class Fn:
    """translation of one C++ function body (kernel operator(), helper, or constructor+operator() of ntt_loop_body)"""

    def __init__(self, tr, lean_name, doc):
        self.tr, self.lean_name, self.doc = tr, lean_name, doc
        self.env = {}            # decl id -> Var
        self.members = {}        # member name -> Var
        self.params = []         # (lean name, "Nat" | "Simd.Reg")
        self.lines = []
        self.uses_P = None       # element width of params<T>::P if P[cm] is read
        self.cm_id = None
        self.ptrs = {}           # decl id of pointer parameter -> dict(name, w, stored)
        self.any_store = False
        self.ret = None          # Reg returned
        self.helper_prefix = lean_name
        self.param_docs = []

    # ---------- bookkeeping
    def count(self, n):
        self.tr.nodes += 1
        k = n.get("kind")
        self.tr.kinds[k] = self.tr.kinds.get(k, 0) + 1

    def src(self, n):
        f, l = n.get("_file"), n.get("_line")
        return "%s:%s  %s" % (self.tr.short(f), l, self.tr.source_line(f, l))

    def emit(self, n, name, text):
        self.lines.append("  -- " + self.src(n))
        self.lines.append("  let %s := %s" % (name, text))

    def ident(self, n):
        name = n.get("name")
        if not name or not re.fullmatch(r"[A-Za-z_][A-Za-z0-9_]*", name):
            fail(n, "unusable identifier %r" % name)
        if name in G.LEAN_KEYWORDS or name == "P_cm":
            name += "_"
        return name

    def strip_paren(self, n):
        while n.get("kind") == "ParenExpr":
            self.count(n)
            n = n["inner"][0]
        return n

    # ---------- lvalues
    def lookup(self, n):
        """the Var an lvalue expression denotes (local, parameter, or member of *this)"""
        n = self.strip_paren(n)
        k = n.get("kind")
        self.count(n)
        if k == "DeclRefExpr":
            rid = n.get("referencedDecl", {}).get("id")
            if rid in self.env:
                return self.env[rid]
            fail(n, "reference to %s %r which is not a local / parameter" % (n.get("referencedDecl", {}).get("kind"), n.get("referencedDecl", {}).get("name")))
        if k == "MemberExpr":
            base = n["inner"][0]
            if base.get("kind") == "ImplicitCastExpr" and base.get("castKind") in ("NoOp", "UncheckedDerivedToBase"):
                self.count(base)
                base = base["inner"][0]
            if base.get("kind") != "CXXThisExpr":
                fail(n, "member access not through `this`")
            self.count(base)
            name = self.ident(n)
            if name not in self.members:
                fail(n, "member %r is not assigned in the translated constructor" % name)
            return self.members[name]
        fail(n, "unknown lvalue")

    def load(self, n):
        inner = self.strip_paren(n)
        if inner.get("kind") == "ArraySubscriptExpr":
            return self.load_P(inner)
        v = self.lookup(n)
        if v.val is None:
            fail(n, "read of the uninitialised variable %s" % v.name)
        return v.val

    def load_P(self, n):
        self.count(n)
        base, idx = n["inner"]
        if not (base.get("kind") == "ImplicitCastExpr" and base.get("castKind") == "ArrayToPointerDecay"
                and base["inner"][0].get("kind") == "DeclRefExpr"):
            fail(base, "array base")
        self.count(base)
        ref = base["inner"][0]
        self.count(ref)
        rd = ref.get("referencedDecl", {})
        decl = self.tr.byid.get(rd.get("id"))
        owner = decl.get("_parent") if decl else None
        if rd.get("name") != "P" or not owner or owner.get("name") != "params" or owner.get("kind") != "ClassTemplateSpecializationDecl":
            fail(ref, "array %r is not nfl::params<T>::P" % rd.get("name"))
        if not self.is_cm(idx):
            fail(idx, "array index is not the functor's `cm` parameter")
        t = ctype(n)
        if t[0] != "U":
            fail(n, "element type of P")
        if self.uses_P not in (None, t[1]):
            fail(n, "P used at two element types")
        self.uses_P = t[1]
        return Sc("P_cm", t, atom=True)

    def is_cm(self, n):
        if n.get("kind") == "ImplicitCastExpr" and n.get("castKind") == "LValueToRValue":
            self.count(n)
            n = self.strip_paren(n["inner"][0])
        if n.get("kind") == "DeclRefExpr" and self.cm_id is not None and n.get("referencedDecl", {}).get("id") == self.cm_id:
            self.count(n)
            return True
        return False

    # ---------- scalar expressions
    def sconvert(self, v, to, n):
        fr = v.t
        if fr == to:
            return v
        c = None if v.const is None else wrap(to, v.const)
        lo, hi = v.rng
        flo, fhi = full_range(to)
        rng = v.rng if (flo <= lo and hi <= fhi) else None
        if fr[0] == "U" and to[0] == "U":
            s = "CSem.castU %d %s" % (to[1], v.p())
        elif fr[0] == "U" and to == ("S", 32):
            s = "CSem.castUS %d %s" % (fr[1], v.p())
        elif fr == ("S", 32) and to[0] == "U":
            s = "CSem.castSU %d %s" % (to[1], v.p())
        elif fr[0] == "U" and to[0] == "S":
            s = "SimdView.castUSk %d %s" % (to[1], v.p())
        elif fr[0] == "S" and to[0] == "S":
            s = "SimdView.castSS %d %d %s" % (fr[1], to[1], v.p())
        else:
            fail(n, "conversion %s -> %s" % (tyname(fr), tyname(to)))
        return Sc(s, to, c, rng)

    def sexpr(self, n):
        k = n.get("kind")
        self.count(n)
        if k in ("ParenExpr", "ExprWithCleanups", "ConstantExpr"):
            return self.sexpr(n["inner"][0])
        if k == "IntegerLiteral":
            t = ctype(n)
            c = int(n["value"])
            if c < 0 or t[0] not in "US":
                fail(n, "literal")
            return Sc(str(c), t, const=c, atom=True)
        if k in CAST_KINDS_EXPR:
            ck = n.get("castKind")
            if ck == "LValueToRValue":
                v = self.load(n["inner"][0])
                if not isinstance(v, Sc) or v.t != ctype(n):
                    fail(n, "LValueToRValue of a non-scalar / changing the type")
                return v
            if ck == "NoOp":
                v = self.sexpr(n["inner"][0])
                if v.t != ctype(n):
                    fail(n, "NoOp cast changes the type")
                return v
            if ck == "IntegralCast":
                return self.sconvert(self.sexpr(n["inner"][0]), ctype(n), n)
            fail(n, "cast kind %r in a scalar expression" % ck)
        if k == "BinaryOperator":
            a, b = self.sexpr(n["inner"][0]), self.sexpr(n["inner"][1])
            return self.sbinop(n, n.get("opcode"), a, b, ctype(n))
        fail(n, "unknown scalar expression")

    def sbinop(self, n, op, a, b, t):
        if t[0] not in "US":
            fail(n, "scalar operator result type")
        if op in ("<<",):
            if a.t != t or b.const is None or not (0 <= b.const < t[1]):
                fail(n, "shift whose count is not a constant below the width")
            math = None if a.const is None else a.const * 2 ** b.const
            if t[0] == "U":
                return Sc("CSem.shlU %d %s %s" % (t[1], a.p(), b.const), t, None if math is None else wrap(t, math))
            if t == ("S", 32):
                lo, hi = a.rng[0] * 2 ** b.const, a.rng[1] * 2 ** b.const
                return self.signed_result(n, "int <<", "SimdView.shlS32 %s %s" % (a.p(), b.const), t, math, lo, hi, nonneg=a.rng[0] >= 0)
            fail(n, "shift in type %s" % tyname(t))
        if a.t != t or b.t != t:
            fail(n, "operand types of %s (usual arithmetic conversions not explicit?)" % op)
        if op == "|":
            if a.const is None or b.const is None:
                fail(n, "bitwise | of non-constants")
            c = wrap(t, residue(t, a.const) | residue(t, b.const))
            return Sc("SimdView.orC %d %s %s" % (t[1], a.p(), b.p()), t, c)
        if op not in ("+", "-", "*"):
            fail(n, "scalar binary operator %r" % op)
        (al, ah), (bl, bh) = a.rng, b.rng
        if op == "+":
            lo, hi = al + bl, ah + bh
        elif op == "-":
            lo, hi = al - bh, ah - bl
        else:
            c4 = [al * bl, al * bh, ah * bl, ah * bh]
            lo, hi = min(c4), max(c4)
        math = None
        if a.const is not None and b.const is not None:
            math = {"+": a.const + b.const, "-": a.const - b.const, "*": a.const * b.const}[op]
        if t[0] == "U":
            nm = {"+": "addU", "-": "subU", "*": "mulU"}[op]
            return Sc("CSem.%s %d %s %s" % (nm, t[1], a.p(), b.p()), t, None if math is None else wrap(t, math))
        if t == ("S", 32):
            nm = {"+": "addS32", "-": "subS32", "*": "mulS32"}[op]
            return self.signed_result(n, "int " + op, "CSem.%s %s %s" % (nm, a.p(), b.p()), t, math, lo, hi)
        fail(n, "arithmetic in type %s" % tyname(t))

    def signed_result(self, n, what, s, t, math, lo, hi, nonneg=True):
        flo, fhi = full_range(t)
        rng = (lo, hi)
        if lo < flo or hi > fhi or not nonneg:
            self.tr.ub_sites.append({"function": self.lean_name, "file": self.tr.short(n.get("_file")), "line": n.get("_line"),
                                     "op": what, "math_range": [lo, hi], "source": self.tr.source_line(n.get("_file"), n.get("_line"))})
            rng = None
        return Sc(s, t, None if math is None else wrap(t, math), rng)

    def immediate(self, n, what):
        v = self.sexpr(n)
        if v.const is None:
            fail(n, "%s: immediate operand is not a compile-time constant" % what)
        return residue(v.t, v.const)

    # ---------- register expressions
    def relane(self, r, w):
        if r.view == w:
            return r
        self.tr.relanes += 1
        return Reg("SimdView.relane %d %d %s" % (r.view, w, r.p()), r.bits, w)

    def rexpr(self, n, want_bits=None):
        k = n.get("kind")
        self.count(n)
        if k in ("ParenExpr", "ExprWithCleanups"):
            return self.rexpr(n["inner"][0])
        if k in CAST_KINDS_EXPR:
            ck = n.get("castKind")
            t = ctype(n)
            if t[0] != "V":
                fail(n, "cast to a non-vector type in a register expression")
            if ck == "LValueToRValue":
                v = self.load(n["inner"][0])
                if not isinstance(v, Reg) or v.bits != t[1]:
                    fail(n, "LValueToRValue of a non-register")
                return v
            if ck in ("NoOp", "BitCast"):
                v = self.rexpr(n["inner"][0])
                if v.bits != t[1]:
                    fail(n, "cast between vector types of different size")
                return v            # same bits, same lanes: nothing to do on `List Nat` + view
            fail(n, "cast kind %r in a register expression" % ck)
        if k in ("CallExpr", "CXXOperatorCallExpr"):
            r = self.call(n)
            if not isinstance(r, Reg):
                fail(n, "call does not yield a register")
            return r
        fail(n, "unknown register expression")

    def callee(self, n):
        c = n["inner"][0]
        if not (c.get("kind") == "ImplicitCastExpr" and c.get("castKind") in ("FunctionToPointerDecay", "BuiltinFnToFnPtr")
                and c["inner"][0].get("kind") == "DeclRefExpr"):
            fail(c, "callee shape")
        self.count(c)
        ref = c["inner"][0]
        self.count(ref)
        rd = ref.get("referencedDecl", {})
        if rd.get("kind") not in ("FunctionDecl", "CXXMethodDecl"):
            fail(ref, "callee is a %s" % rd.get("kind"))
        return rd

    def call(self, n):
        rd = self.callee(n)
        name = rd.get("name")
        args = n["inner"][1:]
        if n.get("kind") == "CXXOperatorCallExpr":
            return self.call_functor(n, rd, args)
        decl = self.tr.byid.get(rd.get("id"))
        if name in BUILTINS:
            return self.call_builtin(n, name, args)
        if name.startswith("__builtin"):
            fail(n, "unknown builtin %r" % name)
        if name.startswith("_mm"):
            if decl is not None and self.tr.in_repo(decl.get("_file")):
                fail(n, "function %r defined inside the library is named like an intrinsic" % name)
            if name not in INTRINSICS:
                fail(n, "unknown intrinsic %r" % name)
            return self.call_intrinsic(n, name, args)
        if decl is None:
            fail(n, "call of %r whose definition is not in the dump" % name)
        return self.call_user(n, decl, args)

    def use(self, name):
        self.tr.intrinsics[name] = self.tr.intrinsics.get(name, 0) + 1

    def call_intrinsic(self, n, name, args):
        e = INTRINSICS[name]
        self.use(name)
        t = ctype(n)
        kind = e[0]
        if kind == "bin":
            _, fn, win, wout = e
            a, b = [self.relane(self.rexpr(x), win) for x in args]
            if t[0] != "V" or (name.find("packus") < 0 and (a.bits != t[1] or b.bits != t[1])) or a.bits != b.bits:
                fail(n, "%s: operand sizes" % name)
            return Reg("%s %s %s" % (fn, a.p(), b.p()), t[1], wout)
        if kind == "shift":
            _, fn, win, wout = e
            a = self.relane(self.rexpr(args[0]), win)
            c = self.immediate(args[1], name)
            if not (0 <= c < 64):
                fail(n, "%s: count %d" % (name, c))
            return Reg("%s %d %s" % (fn, c, a.p()), t[1], wout)
        if kind == "set1":
            w = e[1]
            v = self.sexpr(args[0])
            if v.t != ("S", w):
                fail(n, "%s: argument type %s" % (name, tyname(v.t)))
            return Reg("Simd.set1 %d %d %s" % (w, t[1] // w, v.p()), t[1], w)
        if kind == "and":
            a = self.rexpr(args[0])
            b = self.relane(self.rexpr(args[1]), a.view)
            if a.bits != b.bits:
                fail(n, "%s: operand sizes" % name)
            return Reg("Simd.and %s %s" % (a.p(), b.p()), a.bits, a.view)
        if kind == "cvt":
            _, fn, bin_, bout = e
            a = self.relane(self.rexpr(args[0]), 16)
            if a.bits != bin_ or t != ("V", bout):
                fail(n, "%s: operand sizes" % name)
            return Reg("%s %s" % (fn, a.p()), bout, 32)
        if kind == "cast256to128":
            a = self.relane(self.rexpr(args[0]), 32)
            if a.bits != 256 or t != ("V", 128):
                fail(n, "%s: operand sizes" % name)
            return Reg("Simd.cast256to128 %s" % a.p(), 128, 32)
        if kind == "load":
            return self.do_load(n, e[1], args)
        fail(n, "intrinsic %r used as an expression" % name)

    def call_builtin(self, n, name, args):
        kind, bits = BUILTINS[name]
        self.use(name)
        t = ctype(n)
        if t != ("V", bits):
            fail(n, "%s: result size" % name)
        if kind == "shuffle":
            a = self.relane(self.rexpr(args[0]), 32)
            imm = self.immediate(args[1], name)
            if not (0 <= imm < 256) or a.bits != bits:
                fail(n, "%s: immediate %d" % (name, imm))
            return Reg("Simd.shuffleEpi32 %d %s" % (imm, a.p()), bits, 32)
        if kind == "blend":
            a = self.relane(self.rexpr(args[0]), 32)
            b = self.relane(self.rexpr(args[1]), 32)
            imm = self.immediate(args[2], name)
            if not (0 <= imm < 2 ** (bits // 32)) or a.bits != bits or b.bits != bits:
                fail(n, "%s: immediate %d" % (name, imm))
            return Reg("Simd.blendPs %d %s %s" % (imm, a.p(), b.p()), bits, 32)
        if kind == "psrldq":
            a = self.rexpr(args[0])
            imm = self.immediate(args[1], name)
            if imm != 8:
                fail(n, "%s: only the byte count 8 has a model (Simd.srliSi128_8), got %d" % (name, imm))
            if a.bits != 128 or a.view not in (16, 32, 64):
                fail(n, "%s: operand" % name)
            return Reg("Simd.srliSi128_8 %d %s" % (a.view, a.p()), 128, a.view)
        if kind == "perm2x128":
            a = self.relane(self.rexpr(args[0]), 32)
            b = self.relane(self.rexpr(args[1]), 32)
            imm = self.immediate(args[2], name)
            if not (0 <= imm < 256) or a.bits != 256 or b.bits != 256:
                fail(n, "%s: immediate %d" % (name, imm))
            return Reg("Simd.permute2x128 %s %s %d" % (a.p(), b.p(), imm), 256, 32)
        fail(n, "builtin %r" % name)

    def pointer_arg(self, a):
        """`(__m128i const*) x0` -> the pointer parameter x0"""
        a = self.strip_paren(a)
        if a.get("kind") == "CStyleCastExpr" and a.get("castKind") == "BitCast" and ctype(a) == ("PV",):
            self.count(a)
            a = self.strip_paren(a["inner"][0])
        else:
            fail(a, "address operand is not a cast of a pointer parameter")
        if a.get("kind") == "ImplicitCastExpr" and a.get("castKind") == "LValueToRValue":
            self.count(a)
            a = self.strip_paren(a["inner"][0])
        if a.get("kind") != "DeclRefExpr" or a.get("referencedDecl", {}).get("id") not in self.ptrs:
            fail(a, "address operand is not a pointer parameter of the function")
        self.count(a)
        return self.ptrs[a["referencedDecl"]["id"]]

    def do_load(self, n, bits, args):
        p = self.pointer_arg(args[0])
        if self.any_store:
            fail(n, "load after a store (memory is not modelled: loads must precede all stores)")
        if p.get("bits") not in (None, bits):
            fail(n, "pointer %s loaded at two register sizes" % p["name"])
        p["bits"] = bits
        p["loaded"] = True
        return Reg(p["name"], bits, p["w"], atom=True)

    def do_store(self, n, bits, args):
        p = self.pointer_arg(args[0])
        v = self.relane(self.rexpr(args[1]), p["w"])
        if v.bits != bits or p.get("bits") not in (None, bits):
            fail(n, "store size")
        if p["const"]:
            fail(n, "store through a pointer to const")
        if p.get("stored") is not None:
            fail(n, "two stores through %s" % p["name"])
        p["bits"] = bits
        self.any_store = True
        nm = "st_" + p["name"]
        self.emit(n, nm, v.s)
        p["stored"] = nm

    def args_values(self, n, decl, args):
        parms = [c for c in decl.get("inner", []) if c.get("kind") == "ParmVarDecl"]
        if len(parms) != len(args):
            fail(n, "argument count")
        vals = []
        for a, p in zip(args, parms):
            t = ctype(p)
            if t[0] == "V":
                v = self.rexpr(a)
                if v.bits != t[1]:
                    fail(a, "argument size")
            elif t[0] in "US":
                v = self.sexpr(a)
                if v.t != t:
                    fail(a, "argument type")
            else:
                fail(p, "parameter type %s" % (t,))
            vals.append(v)
        return parms, vals

    def call_user(self, n, decl, args):
        """free function of nfl::ops (mulhi_epu32 …) or static member (finish, shuffle_lh, shift8)"""
        if decl.get("kind") == "CXXMethodDecl" and decl.get("storageClass") != "static":
            fail(n, "call of the non-static member %r" % decl.get("name"))
        if not self.tr.in_repo(decl.get("_file")):
            fail(n, "call of %r defined outside the library" % decl.get("name"))
        parms, vals = self.args_values(n, decl, args)
        views = tuple(v.view if isinstance(v, Reg) else None for v in vals)
        h = self.tr.helper(decl, views, self)
        if ctype(n) != ("V", h.ret.bits):
            fail(n, "result type of the call")
        return Reg(" ".join([h.lean_name] + [v.p() for v in vals]), h.ret.bits, h.ret.view)

    def call_functor(self, n, rd, args):
        """`addmod<T, simd::X>{}(a, b, cm)`: operator() of another translated functor, on a value-initialised temporary"""
        m = self.tr.byid.get(rd.get("id"))
        if m is None or m.get("kind") != "CXXMethodDecl" or m.get("name") != "operator()":
            fail(n, "operator call of something that is not a functor's operator()")
        cls = m.get("_parent") or {}
        obj = args[0]
        allowed = ("ImplicitCastExpr", "MaterializeTemporaryExpr", "CXXFunctionalCastExpr", "InitListExpr", "CXXTemporaryObjectExpr", "CXXBindTemporaryExpr")
        while True:
            if obj.get("kind") not in allowed or (obj.get("kind") in ("ImplicitCastExpr", "CXXFunctionalCastExpr") and obj.get("castKind") != "NoOp"):
                fail(obj, "functor object of the call")
            self.count(obj)
            sub = obj.get("inner", [])
            if not sub:
                break
            if len(sub) != 1:
                fail(obj, "functor object with initialisers")
            obj = sub[0]
        if any(c.get("kind") == "FieldDecl" for c in cls.get("inner", [])):
            fail(n, "called functor class has data members")
        k = self.tr.kernel_of_method(m, n)
        rest = args[1:]
        if not self.is_cm(rest[-1]):
            fail(rest[-1], "last argument of the call is not the caller's own `cm`")
        if len(rest) - 1 != len(k.param_docs):
            fail(n, "argument count")
        vals = []
        for a, (pn, pt, pw) in zip(rest[:-1], k.param_docs):
            v = self.relane(self.rexpr(a), pw)
            vals.append(v)
        if k.uses_P is not None:
            if self.uses_P not in (None, k.uses_P):
                fail(n, "P element type of caller and callee differ")
            self.uses_P = k.uses_P
        return Reg(" ".join([k.lean_name, "P_cm"] + [v.p() for v in vals]), k.ret.bits, k.ret.view)

    # ---------- statements
    def noop_call(self, s):
        """a void call whose callee (recursively) has no effect: the assert_* helpers without CHECK_STRICTMOD"""
        rd = self.callee(s)
        decl = self.tr.byid.get(rd.get("id"))
        if decl is None or not self.tr.effect_free(decl):
            return False
        for a in s["inner"][1:]:
            self.pure_arg(a)
        return True

    def pure_arg(self, a):
        k = a.get("kind")
        self.count(a)
        if k == "LambdaExpr":
            return
        if k in ("ImplicitCastExpr", "ParenExpr", "MaterializeTemporaryExpr", "ExprWithCleanups", "DeclRefExpr", "CXXThisExpr", "MemberExpr"):
            for c in a.get("inner", []):
                if isinstance(c, dict) and "kind" in c:
                    self.pure_arg(c)
            return
        fail(a, "argument of an effect-free call")

    def stmts(self, lst, allow_return):
        for i, s in enumerate(lst):
            k = s.get("kind")
            self.count(s)
            if k == "NullStmt":
                continue
            if k == "DeclStmt":
                for d in s["inner"]:
                    self.count(d)
                    dk = d.get("kind")
                    if dk in ("TypeAliasDecl", "TypedefDecl", "StaticAssertDecl"):
                        continue
                    if dk != "VarDecl" or d.get("storageClass"):
                        fail(d, "declaration")
                    t = ctype(d)
                    if t[0] not in "VUS":
                        fail(d, "type of the local variable")
                    var = Var(self.ident(d), t)
                    if "init" in d:
                        if d["init"] != "c":
                            fail(d, "initialisation style %r" % d["init"])
                        e = [c for c in d["inner"] if "kind" in c]
                        if len(e) != 1:
                            fail(d, "initialiser shape")
                        self.assign(s, var, e[0])
                    elif d.get("inner"):
                        fail(d, "declaration without init but with children")
                    self.env[d["id"]] = var
                continue
            if k == "BinaryOperator" and s.get("opcode") == "=":
                var = self.lookup(s["inner"][0])
                if var.t[0] == "V" and getattr(var, "is_const", False):
                    fail(s, "assignment to a const object")
                self.assign(s, var, s["inner"][1])
                continue
            if k == "CallExpr" and ctype(s) == ("void",):
                rd = s["inner"][0]["inner"][0].get("referencedDecl", {}) if s["inner"][0].get("inner") else {}
                nm = rd.get("name", "")
                if nm in INTRINSICS and INTRINSICS[nm][0] == "store":
                    self.callee(s)
                    self.use(nm)
                    self.do_store(s, INTRINSICS[nm][1], s["inner"][1:])
                    continue
                if self.noop_call(s):
                    self.lines.append("  -- " + self.src(s) + "   (no effect: empty body without CHECK_STRICTMOD)")
                    continue
                fail(s, "call statement of %r which is not effect-free" % nm)
            if k == "ReturnStmt":
                if not allow_return or i != len(lst) - 1:
                    fail(s, "return that is not the last statement")
                v = self.rexpr(s["inner"][0])
                self.lines.append("  -- " + self.src(s))
                self.ret = v
                return
            fail(s, "unknown statement")

    def assign(self, s, var, e):
        if var.t[0] == "V":
            v = self.rexpr(e)
            if v.bits != var.t[1]:
                fail(s, "assigned register size")
            self.emit(s, var.name, v.s)
            var.val = Reg(var.name, v.bits, v.view, atom=True)
        else:
            v = self.sexpr(e)
            if v.t != var.t:
                fail(s, "assigned scalar type")
            self.emit(s, var.name, v.s)
            var.val = Sc(var.name, v.t, v.const, v.rng, atom=True)

    # ---------- parameters
    def add_param(self, p, view=None, value_name=None):
        t = ctype(p)
        self.count(p)
        name = self.ident(p)
        if t[0] == "V":
            if view is None:
                fail(p, "no lane view for the register parameter")
            var = Var(name, t, Reg(name, t[1], view, atom=True))
            self.params.append((name, "Simd.Reg"))
            self.param_docs.append((name, t, view))
        elif t[0] in "US":
            var = Var(name, t, Sc(name, t, atom=True))
            self.params.append((name, "Nat"))
            self.param_docs.append((name, t, None))
        else:
            fail(p, "parameter type")
        self.env[p["id"]] = var

    def body_of(self, m):
        body = [c for c in m.get("inner", []) if c.get("kind") == "CompoundStmt"]
        if len(body) != 1:
            fail(m, "function without a (single) body")
        for c in m.get("inner", []):
            if c.get("kind") not in ("ParmVarDecl", "CompoundStmt", "CXXCtorInitializer") and "Attr" not in c.get("kind", ""):
                fail(c, "unexpected child of the function declaration")
            if c.get("kind") == "CXXCtorInitializer":
                fail(c, "constructor initialiser list")
        self.count(body[0])
        return body[0].get("inner", [])

    def render(self, result):
        ps = ([("P_cm", "Nat")] if self.uses_P is not None else []) + self.params
        sig = " ".join("(%s : %s)" % (a, b) for a, b in ps)
        return "\n".join(self.doc + ["def %s %s : %s :=" % (self.lean_name, sig, result[0])] + self.lines + ["  " + result[1]])


# ------------------------------------------------------------------------------------------------ one configuration
class Tr:
    def __init__(self, repo, cfg, shared):
        self.repo, self.cfg = repo, cfg
        self.files = shared["files"]
        self.nodes, self.kinds, self.intrinsics, self.relanes, self.ub_sites = 0, {}, {}, 0, []
        self.defs = []                 # (lean name, text) in dependency order
        self.helpers = {}
        self.kernels = {}
        self.notes = []

    def short(self, f):
        f = str(f)
        inc = os.path.join(self.repo, "include") + os.sep
        return f[len(inc):] if f.startswith(inc) else os.path.basename(f)

    def in_repo(self, f):
        return str(f).startswith(os.path.join(self.repo, "include") + os.sep)

    def source_line(self, f, l):
        try:
            if f not in self.files:
                self.files[f] = open(f, errors="replace").read().splitlines()
            return self.files[f][int(l) - 1].strip()
        except Exception:
            return "?"

    def mode_of_file(self, f):
        b = os.path.basename(str(f))
        if b == "sse.hpp":
            return "sse"
        if b == "avx2.hpp":
            return "avx2"
        raise Unsupported("function defined in %s (neither sse.hpp nor avx2.hpp)" % b)

    # ---- effect-free functions (assert_* without CHECK_STRICTMOD)
    def effect_free(self, decl, depth=0):
        if depth > 8 or not self.in_repo(decl.get("_file")):
            return False
        if strip_cv(decl.get("type", {}).get("qualType", "").split("(")[0]) != "void":
            return False
        body = [c for c in decl.get("inner", []) if c.get("kind") == "CompoundStmt"]
        if len(body) != 1:
            return False
        for s in body[0].get("inner", []):
            if s.get("kind") == "NullStmt":
                continue
            while s.get("kind") == "ExprWithCleanups":
                s = s["inner"][0]
            if s.get("kind") != "CallExpr":
                return False
            c = s["inner"][0]
            while c.get("kind") == "ImplicitCastExpr":
                c = c["inner"][0]
            if c.get("kind") != "DeclRefExpr":
                return False
            d2 = self.byid.get(c.get("referencedDecl", {}).get("id"))
            if d2 is None or not self.effect_free(d2, depth + 1):
                return False
            for a in s["inner"][1:]:
                if not self.pure_tree(a):
                    return False
        return True

    def pure_tree(self, a):
        if a.get("kind") == "LambdaExpr":
            return True
        if a.get("kind") not in ("ImplicitCastExpr", "ParenExpr", "MaterializeTemporaryExpr", "ExprWithCleanups", "DeclRefExpr"):
            return False
        return all(self.pure_tree(c) for c in a.get("inner", []) if isinstance(c, dict) and "kind" in c)

    # ---- helpers: free functions and static members, instantiated per tuple of argument views
    def helper(self, decl, views, caller):
        key = (decl["id"], views)
        if key in self.helpers:
            return self.helpers[key]
        par = decl.get("_parent") or {}
        if decl.get("kind") == "FunctionDecl":
            base = self.free_name(decl)
        else:
            base = "%s_%s" % (self.class_prefix(par, decl), decl.get("name"))
        same = [k for k in self.helpers if k[0] == decl["id"]]
        name = base if not same else base + "_v" + "_".join(str(v) for v in views if v is not None)
        h = self.translate_plain(decl, name, views)
        self.helpers[key] = h
        return h

    def free_name(self, decl):
        mode = self.mode_of_file(decl.get("_file"))
        n = decl.get("name")
        return n if n.startswith(mode + "_") else mode + "_" + n

    def translate_plain(self, decl, name, views):
        doc = ["/-- `%s`  (%s:%s); lane widths of the register parameters: %s -/" % (
            self.qualname(decl), self.short(decl.get("_file")), decl.get("_line"), ", ".join(str(v) for v in views if v is not None))]
        fn = Fn(self, name, doc)
        parms = [c for c in decl.get("inner", []) if c.get("kind") == "ParmVarDecl"]
        if len(parms) != len(views):
            fail(decl, "parameter count")
        fn.count(decl)
        for p, v in zip(parms, views):
            fn.add_param(p, v)
        fn.stmts(fn.body_of(decl), True)
        if fn.ret is None:
            fail(decl, "function does not end in a return statement")
        if fn.uses_P is not None:
            fail(decl, "helper reading P[cm]")
        self.defs.append((name, fn.render(("Simd.Reg", fn.ret.s))))
        return fn

    def qualname(self, decl):
        par = decl.get("_parent") or {}
        if par.get("kind") in ("ClassTemplateSpecializationDecl", "CXXRecordDecl"):
            return "nfl::ops::%s<%s>::%s" % (par.get("name"), ", ".join(self.targs(par)), decl.get("name"))
        return "nfl::ops::" + str(decl.get("name"))

    @staticmethod
    def targs(cls):
        return [a.get("type", {}).get("qualType", "?") for a in cls.get("inner", []) if a.get("kind") == "TemplateArgument"]

    def class_key(self, cls, at):
        """(functor name, mode, suffix, width) of addmod<unsigned int, nfl::simd::sse> or ntt_loop_body<simd, poly, T>"""
        ta = self.targs(cls)
        nm = cls.get("name")
        if nm in FUNCTORS and len(ta) == 2:
            tn, mode = ta[0], ta[1]
        elif nm == "ntt_loop_body" and len(ta) == 3:
            mode, tn = ta[0], ta[2]
        else:
            fail(at, "class %s<%s>" % (nm, ", ".join(ta)))
        mode = mode.split("::")[-1]
        suf = [(s, w) for _, c, s, w in TYPES if c == tn]
        if mode not in ("sse", "avx2") or not suf:
            fail(at, "class %s<%s>" % (nm, ", ".join(ta)))
        return nm, mode, suf[0][0], suf[0][1]

    def class_prefix(self, cls, at):
        nm, mode, suf, _ = self.class_key(cls, at)
        return "%s_%s_%s" % (mode, "bfly" if nm == "ntt_loop_body" else nm, suf)

    # ---- kernels: operator() of the functors
    def kernel_of_method(self, m, at):
        if m["id"] in self.kernels:
            return self.kernels[m["id"]]
        cls = m.get("_parent") or {}
        nm, mode, suf, w = self.class_key(cls, at)
        name = self.class_prefix(cls, at)
        parms = [c for c in m["inner"] if c.get("kind") == "ParmVarDecl"]
        cm = parms[-1]
        if cm.get("name") != "cm" or strip_cv(tstr(cm)) != "unsigned long":
            fail(cm, "last parameter is not `size_t cm`")
        doc = ["/-- `%s`  (%s:%s).  Registers are lists of %d-bit lanes. -/" % (self.qualname(m), self.short(m.get("_file")), m.get("_line"), w)]
        fn = Fn(self, name, doc)
        fn.count(m)
        fn.cm_id = cm["id"]
        fn.count(cm)
        for p in parms[:-1]:
            if ctype(p)[0] != "V":
                fail(p, "kernel parameter that is not a register")
            fn.add_param(p, w)
        fn.stmts(fn.body_of(m), True)
        if fn.ret is None:
            fail(m, "operator() does not end in a return statement")
        fn.ret = fn.relane(fn.ret, w)
        self.defs.append((name, fn.render(("Simd.Reg", fn.ret.s))))
        self.kernels[m["id"]] = fn
        return fn

    def butterfly(self, cls):
        nm, mode, suf, w = self.class_key(cls, cls)
        name = self.class_prefix(cls, cls)
        ctors = [c for c in cls.get("inner", []) if c.get("kind") == "CXXConstructorDecl" and not c.get("isImplicit")
                 and any(x.get("kind") == "CompoundStmt" for x in c.get("inner", []))]
        ops = [c for c in cls.get("inner", []) if c.get("kind") == "CXXMethodDecl" and c.get("name") == "operator()"
               and any(x.get("kind") == "CompoundStmt" for x in c.get("inner", []))]
        fields = [c for c in cls.get("inner", []) if c.get("kind") == "FieldDecl"]
        if len(ctors) != 1 or len(ops) != 1:
            fail(cls, "ntt_loop_body: %d user constructors, %d operator()" % (len(ctors), len(ops)))
        ctor, op = ctors[0], ops[0]
        doc = ["/-- `%s`: constructor (%s:%s) then `operator()` (line %s) as a function of the loaded registers; result = what is" % (
            "nfl::ops::ntt_loop_body<%s>" % ", ".join(self.targs(cls)), self.short(ctor.get("_file")), ctor.get("_line"), op.get("_line")),
            "stored through the non-const pointer parameters, in parameter order.  %d-bit lanes. -/" % w]
        fn = Fn(self, name, doc)
        fn.count(ctor)
        cp = [c for c in ctor["inner"] if c.get("kind") == "ParmVarDecl"]
        if len(cp) != 1 or ctype(cp[0]) != ("U", w):
            fail(ctor, "constructor parameters")
        fn.add_param(cp[0])
        for f in fields:
            fn.count(f)
            t = ctype(f)
            if t[0] != "V":
                fail(f, "data member that is not a register")
            fn.members[fn.ident(f)] = Var(fn.ident(f), t)
        fn.lines.append("  -- constructor")
        fn.stmts(fn.body_of(ctor), False)
        for v in fn.members.values():
            if v.val is None:
                fail(ctor, "member %s not assigned by the constructor" % v.name)
            v.is_const = True       # operator() is a const member function
        if not (op.get("type", {}).get("qualType", "").rstrip().endswith("const")):
            fail(op, "operator() is not const")
        fn.lines.append("  -- operator()")
        fn.count(op)
        saved_env = fn.env
        fn.env = {}
        aliases = {}
        for c in cls.get("inner", []):
            if c.get("kind") in ("TypeAliasDecl", "TypedefDecl") and c.get("name"):
                aliases[c["name"]] = strip_cv(tstr(c))
        for p in [c for c in op["inner"] if c.get("kind") == "ParmVarDecl"]:
            q = strip_cv(tstr(p))
            # the pointee is written with the class's own alias (`value_type const*`): resolve it through the TypeAliasDecl
            base = strip_cv(q[:-1]) if q.endswith("*") else ""
            al = base.split("::")[-1]
            if base in SCALAR:
                t = ("P", SCALAR[base][1]) if SCALAR[base][0] == "U" else None
            elif "::" in base and al in aliases and aliases[al] in SCALAR and SCALAR[aliases[al]][0] == "U":
                t = ("P", SCALAR[aliases[al]][1])
            else:
                t = None
            fn.count(p)
            if t != ("P", w):
                fail(p, "operator() parameter is not a pointer to the limb type")
            q = tstr(p)
            nm_ = fn.ident(p)
            if nm_ in [a for a, _ in fn.params]:
                fail(p, "parameter name clash")
            fn.ptrs[p["id"]] = dict(name=nm_, w=w, const=("const" in q.split("*")[0]), stored=None, bits=None)
            fn.params.append((nm_, "Simd.Reg"))
        fn.stmts(fn.body_of(op), False)
        outs = [p for p in fn.ptrs.values() if not p["const"]]
        for p in fn.ptrs.values():
            if not p.get("loaded"):
                fail(op, "pointer parameter %s is never loaded" % p["name"])
        if not outs or any(p["stored"] is None for p in outs):
            fail(op, "a non-const pointer parameter is not stored")
        rt = " × ".join(["Simd.Reg"] * len(outs))
        self.defs.append((name, fn.render((rt, "(" + ", ".join(p["stored"] for p in outs) + ")"))))
        return fn

    # ---- driver
    def find_classes(self):
        out = {}
        for n in self.byid.values():
            if n.get("kind") != "ClassTemplateSpecializationDecl" or n.get("name") not in FUNCTORS + ["ntt_loop_body"]:
                continue
            if not n.get("inner") or not n.get("completeDefinition", True):
                continue
            try:
                key = self.class_key(n, n)
            except Unsupported:
                continue
            if not n.get("definitionData") and not any(c.get("kind") in ("CXXMethodDecl", "CXXRecordDecl") for c in n.get("inner", [])) and not n.get("bases"):
                continue
            out.setdefault(key[:3], []).append(n)
        return out

    def run(self, txt):
        objs = G.parse_objects(txt)
        self.byid = G.annotate(objs)
        # free functions
        for fname in FREE[self.cfg]:
            ds = [n for n in self.byid.values() if n.get("kind") == "FunctionDecl" and n.get("name") == fname
                  and (n.get("_parent") or {}).get("kind") == "NamespaceDecl" and any(c.get("kind") == "CompoundStmt" for c in n.get("inner", []))]
            if len(ds) != 1:
                raise Unsupported("%d definitions of nfl::ops::%s" % (len(ds), fname))
            w = 32 if fname.endswith("32") else 16
            parms = [c for c in ds[0]["inner"] if c.get("kind") == "ParmVarDecl"]
            self.helper(ds[0], tuple(w for _ in parms), None)
        classes = self.find_classes()

        def own_op(f, mode, suf, cn):
            """the operator() defined by f<T, simd::mode> itself, or the mode of its single base class"""
            cs = classes.get((f, mode, suf), [])
            has = lambda x: x.get("kind") == "CXXMethodDecl" and x.get("name") == "operator()" and \
                any(y.get("kind") == "CompoundStmt" for y in x.get("inner", []))
            defs = [c for c in cs if any(has(x) for x in c.get("inner", []))]
            if len(defs) > 1:
                raise Unsupported("two definitions of %s<%s, simd::%s>" % (f, cn, mode))
            if len(defs) == 1:
                m = [x for x in defs[0]["inner"] if has(x)]
                if len(m) != 1:
                    fail(defs[0], "several operator()")
                return ("def", m[0])
            based = [c for c in cs if c.get("bases")]
            if len(based) != 1 or len(based[0]["bases"]) != 1:
                raise Unsupported("no operator() and no single base class found for nfl::ops::%s<%s, simd::%s>" % (f, cn, mode))
            bt = based[0]["bases"][0].get("type", {}).get("qualType", "").strip()
            mb = re.search(r"simd::(\w+)>$", bt)
            if not mb or not bt.startswith(f + "<"):
                fail(based[0], "base class %r" % bt)
            own = [x for x in based[0].get("inner", []) if x.get("kind") in ("CXXMethodDecl", "FieldDecl") and not x.get("isImplicit")]
            if own:
                fail(based[0], "inheriting specialisation with own members")
            return ("base", mb.group(1), bt)

        for f in FUNCTORS:
            for _, cn, suf, w in TYPES:
                mode, chain = self.cfg, []
                while True:
                    r = own_op(f, mode, suf, cn)
                    if r[0] == "def":
                        k = self.kernel_of_method(r[1], r[1])
                        if k.ret.view != w:
                            fail(r[1], "result view")
                        break
                    chain.append("%s<%s, simd::%s> : %s" % (f, cn, mode, r[2]))
                    mode = r[1]
                    if mode == "serial":
                        break
                if chain:
                    self.notes.append({"functor": "%s<%s, simd::%s>" % (f, cn, self.cfg), "inherits": chain,
                                       "code": "serial (scalar functor, C03)" if mode == "serial" else "%s_%s_%s" % (mode, f, suf)})
                    if mode != "serial":
                        self.defs.append(("%s_%s_%s" % (self.cfg, f, suf),
                                          ("ALIAS", "%s_%s_%s" % (mode, f, suf), "%s<%s, simd::%s>" % (f, cn, self.cfg), "; ".join(chain))))
        for _, cn, suf, w in TYPES:
            cs = [c for c in classes.get(("ntt_loop_body", self.cfg, suf), []) if any(x.get("kind") == "CXXConstructorDecl" and not x.get("isImplicit") and
                  any(y.get("kind") == "CompoundStmt" for y in x.get("inner", [])) for x in c.get("inner", []))]
            if len(cs) != 1:
                raise Unsupported("%d instantiated definitions of ntt_loop_body<simd::%s, poly, %s>" % (len(cs), self.cfg, cn))
            self.butterfly(cs[0])


# ------------------------------------------------------------------------------------------------ main
def make_tu(cfg):
    os.makedirs(BUILD, exist_ok=True)
    tu = os.path.join(BUILD, "simd_ast_tu_%s.cpp" % cfg)
    lines = ['#include "nfl.hpp"', "namespace nfl_verif_tu {", "using P16 = nfl::poly<uint16_t, 8, 1>;", "using P32 = nfl::poly<uint32_t, 8, 1>;", "}"]
    for f in FUNCTORS:
        for t, _, _, _ in TYPES:
            lines.append("template struct nfl::ops::%s<%s, nfl::simd::%s>;" % (f, t, cfg))
    lines.append("template struct nfl::ops::ntt_loop_body<nfl::simd::%s, nfl_verif_tu::P16, uint16_t>;" % cfg)
    lines.append("template struct nfl::ops::ntt_loop_body<nfl::simd::%s, nfl_verif_tu::P32, uint32_t>;" % cfg)
    # the free helpers are `static inline`: their bodies exist in the AST as soon as the header is parsed
    open(tu, "w").write("\n".join(lines) + "\n")
    return tu


def clang_ast(repo, tu, flags):
    inc = os.path.join(repo, "include")
    cmd = [CLANG, "-std=gnu++17", "-fsyntax-only", "-DNFL_OPTIMIZED"] + flags + [
        "-Wno-instantiation-after-specialization", "-Wno-unknown-attributes",
        "-I" + inc, "-I" + os.path.join(inc, "nfl"), "-I" + os.path.join(inc, "nfl", "prng"),
        "-Xclang", "-ast-dump=json", "-Xclang", "-ast-dump-filter=nfl::", tu]
    r = subprocess.run(cmd, capture_output=True, text=True)
    if r.returncode != 0:
        raise SystemExit("gen_simd_ast: clang failed (rc=%d):\n%s" % (r.returncode, r.stderr[-3000:]))
    return r.stdout


def main():
    repo = os.environ.get("VERIF_REPO", "/repo")
    out = OUT
    if "--repo" in sys.argv:
        repo = sys.argv[sys.argv.index("--repo") + 1]
    if "--out" in sys.argv:
        out = sys.argv[sys.argv.index("--out") + 1]
    repo = os.path.abspath(repo)
    shared = {"files": {}}
    trs = []
    try:
        for cfg, flags in CONFIGS:
            txt = clang_ast(repo, make_tu(cfg), flags)
            if "--keep" in sys.argv:
                open(os.path.join(BUILD, "simd_ast_dump_%s.json" % cfg), "w").write(txt)
            tr = Tr(repo, cfg, shared)
            tr.run(txt)
            trs.append(tr)
        # merge: a definition reached from both configurations must have been translated to the same text
        merged, order = {}, []
        for tr in trs:
            for name, text in tr.defs:
                if name in merged:
                    if merged[name] != text:
                        raise Unsupported("%s is translated differently in the SSE and the AVX2 configuration" % name)
                    continue
                merged[name] = text
                order.append(name)
        for name in order:
            t = merged[name]
            if isinstance(t, tuple):
                if t[1] not in merged or isinstance(merged[t[1]], tuple):
                    raise Unsupported("%s inherits %s which is not translated" % (name, t[1]))
    except Unsupported as e:
        msg = "gen_simd_ast: UNSUPPORTED C++ construct, nothing translated: %s" % e
        sys.stderr.write(msg + "\n")
        print(json.dumps({"ok": False, "err": msg}))
        sys.exit(3)
    head = [
        "-- GENERATED by tools/gen_simd_ast.py from clang++-14's typed AST of include/nfl/opt/arch/sse.hpp and avx2.hpp",
        "-- (configurations -DNFL_OPTIMIZED -DNTT_SSE -msse4.2 and -DNFL_OPTIMIZED -DNTT_AVX2 -mavx2, no CHECK_STRICTMOD).  Do not edit.",
        "-- One `let` per C++ statement; every intrinsic call is the intrinsic model of Model/Simd.lean named by the intrinsic,",
        "-- every change of lane view is an explicit `SimdView.relane from to`; `P[cm]` is the parameter `P_cm`.",
        "import NflVerif.Model.CSem",
        "import NflVerif.Model.SimdView",
        "namespace Nfl.GenSimd",
        "open Nfl",
        "",
    ]
    body = []
    for name in order:
        t = merged[name]
        if isinstance(t, tuple):
            body.append("/-- `nfl::ops::%s` has no `operator()` of its own (%s) -/\ndef %s := %s" % (t[2], t[3], name, t[1]))
        else:
            body.append(t)
    text = "\n".join(head) + "\n" + "\n\n".join(body) + "\n\nend Nfl.GenSimd\n"
    changed = G.write_if_changed(out, text)
    intr = {}
    kinds = {}
    for tr in trs:
        for k, v in tr.intrinsics.items():
            intr[k] = intr.get(k, 0) + v
        for k, v in tr.kinds.items():
            kinds[k] = kinds.get(k, 0) + v
    print(json.dumps({
        "ok": True, "functions": order, "nodes": sum(tr.nodes for tr in trs), "intrinsics": dict(sorted(intr.items())),
        "relanes": sum(tr.relanes for tr in trs), "inherited": [n for tr in trs for n in tr.notes],
        "node_kinds": dict(sorted(kinds.items())), "ub_wrap_assumed": [u for tr in trs for u in tr.ub_sites],
        "sha": hashlib.sha256(text.encode()).hexdigest()[:16], "changed": changed,
        "out": os.path.relpath(out, VERIF), "repo": repo}))


if __name__ == "__main__":
    main()
