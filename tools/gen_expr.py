#!/usr/bin/env python3
"""Generator of the C07/C08 correspondence harnesses.

Emits C++ translation units (against harness/expr_rt.hpp) with one assignment (C07) or one boolean conversion
(C08) per case.  Every random choice derives from the seed.  Which operator overloads exist and which mode each
functor is evaluated in is *predicted* here (`analyze`); the prediction is kept honest by (a) every generated TU
having to compile, (b) single-expression `-fsyntax-only` probes of predicted-accepted and predicted-rejected trees.

Trees (python):  ('P',i) plain polynomial v[i] | ('Q',j) shared handle q[j] | ('add'|'sub'|'mul', a, b)
                 | ('shoup', x, q)  the call shoup(x, q) | ('cshoup', a) | ('eq'|'neq', a, b)  (root only)
"""
import hashlib, json, os, random, sys

NV, NQ = 6, 3                 # handles: v0..v5, q0..q2
DATA_P, DATA_Q = [0, 1, 2, 3], [0, 1]          # operand leaves
HOLD = [('P', 4), ('P', 5), ('Q', 2)]          # leaves reserved for precomputed quotients / controlled operands
SERIAL, SSE, AVX2 = 0, 1, 2
BE_CODE = {"plain": SERIAL, "serial": SERIAL, "sse": SSE, "avx2": AVX2}
LIMB_T = {16: "uint16_t", 32: "uint32_t", 64: "uint64_t"}


def common(a, b):
    return min(a, b)


def elt_count(w, m):
    return 1 if m == SERIAL else (128 // w if m == SSE else 256 // w)


def fn_mode(w, fn, tag):
    """NAME<T,tag>::simd_mode (see Model/Expr.lean fnMode)"""
    if fn == "cmp":
        return tag
    if fn in ("mul", "cshoup"):
        return SERIAL
    if w == 64:
        return SERIAL
    if fn in ("add", "sub"):
        return tag
    if fn == "mulshoup":
        return SERIAL if tag == SERIAL else SSE
    raise ValueError(fn)


class Reject(Exception):
    pass


class Node:
    """result of analysing a sub-tree: kind 'P' | 'Q' | 'E'; for 'E': fn, fmode, args (post pattern match)"""
    def __init__(self, kind, fn=None, fmode=None, args=(), direct_q=False):
        self.kind, self.fn, self.fmode, self.args, self.direct_q = kind, fn, fmode, args, direct_q

    def mode(self, be):
        return be if self.kind in "PQ" else self.fmode


def analyze(t, w, be):
    """Predict overload resolution for tree t.  Returns Node or raises Reject(reason)."""
    op = t[0]
    if op in ("P", "Q"):
        return Node(op)
    if op in ("add", "sub", "mul", "eq", "neq"):
        a, b = analyze(t[1], w, be), analyze(t[2], w, be)
        ka, kb = a.kind, b.kind
        cmp_ = op in ("eq", "neq")
        if (ka, kb) in (("P", "P"), ("Q", "Q"), ("Q", "P")):
            tag = be                       # member operators of poly_p forward to poly (op) poly
            args = (Node("P"), Node("P"))  # the expression refers to the underlying poly objects
        elif (ka, kb) == ("P", "Q"):
            raise Reject("poly (op) poly_p has no overload")
        elif ka == "E" and kb == "E":
            tag = common(a.fmode, b.fmode)
            args = (a, b)
        else:
            e = a if ka == "E" else b
            o = b if ka == "E" else a
            if cmp_ and kb == "Q":
                raise Reject("expr ==/!= poly_p has no overload")
            tag = e.fmode
            if cmp_ and o.kind == "Q":
                args = (Node("P"), b)      # poly_p::operator==(O const&) forwards poly_obj() == o
            else:
                args = (a, b)
        fn = "cmp" if cmp_ else op
        direct_q = (not cmp_) and any(x.kind == "Q" for x in args)
        return Node("E", fn, fn_mode(w, fn, tag), args, direct_q)
    if op == "shoup":
        x, q = analyze(t[1], w, be), analyze(t[2], w, be)
        if x.kind != "E" or x.fn != "mul":
            raise Reject("shoup(x, q) with x not a product: generic shoup node cannot be loaded")
        if x.direct_q:
            raise Reject("retag over a poly_p argument (poly_p has no simd_mode)")
        qa = Node("P") if q.kind == "Q" else q    # shoup(E, poly_p) forwards m.poly_obj()
        a0, a1 = x.args
        tag = common(a0.mode(be), common(a1.mode(be), qa.mode(be)))
        return Node("E", "mulshoup", fn_mode(w, "mulshoup", tag), (a0, a1, qa))
    if op == "cshoup":
        a = analyze(t[1], w, be)
        tag = be if a.kind in "PQ" else a.fmode
        arg = Node("P") if a.kind == "Q" else a
        return Node("E", "cshoup", fn_mode(w, "cshoup", tag), (arg,))
    raise ValueError(op)


def check_modes(n, m):
    """every functor below the root must accept registers of the root's mode"""
    if n.kind != "E":
        return
    if n.fn != "cmp" and n.fmode != m:
        raise Reject("functor of mode %d under a root of mode %d" % (n.fmode, m))
    for a in n.args:
        check_modes(a, m)


def compiles(t, w, be, deg, as_bool=False):
    """(ok, mode or reason).  t: arithmetic tree (assignment / bool) or comparison root (bool)."""
    try:
        if t[0] in ("eq", "neq") and t[1][0] == "Q" and t[2][0] == "Q":
            # poly_p ==/!= poly_p : plain bool; unless the storage is shared it forwards to poly ==/!= poly, which is
            # instantiated in the backend's own mode whatever the operands (measured with -fsyntax-only probes)
            if deg % elt_count(w, be):
                raise Reject("degree not a multiple of the register width")
            return True, be
        n = analyze(t, w, be)
        if n.kind != "E":
            if as_bool and n.kind == "P":
                return True, be
            raise Reject("not an expression")
        check_modes(n, n.fmode)
        if deg % elt_count(w, n.fmode):
            raise Reject("degree not a multiple of the register width")
        return True, n.fmode
    except Reject as r:
        return False, str(r)


# ------------------------------------------------------------------------------------------ degrees
MAX_DEG = {16: 512, 32: 32768, 64: 1048576}      # params<T>::kMaxPolyDegree


def degree_plan(w, be, tier):
    """Degrees of the additional parts of a configuration (the base part is degree 16 with the full case list).
    `E` is the register width of the backend's own mode: a comparison / sum / difference of two polynomials needs E | degree
    (static_assert in the library; measured: tools/exprcheck.py run_probes), roots of a narrower mode (products: serial;
    fused products: sse) accept the other degrees too and are the only shapes generated there.
    Returns [(degree, nmoduli)], ascending: the smallest degree; non-powers of two; one register above / below the block
    sizes 64 and 128; a degree between 128 and 256; thorough adds more of each kind, degrees where only narrower-mode
    roots compile (off-width), and a large one."""
    E = elt_count(w, be)
    up = lambda d: -(-d // E) * E
    q = [(E, 2), (3 * E, 2), (64 + E, 2), (up(96), 2), (128 - E, 2), (up(200), 1)]
    if tier == "thorough":
        q += [(2 * E, 2), (5 * E, 2 if w == 16 else 3), (up(24), 2), (up(40), 2), (64 - E, 2), (64, 2), (up(72), 2), (128, 2),
              (128 + E, 1), (up(192), 1), (256 + E, 1), (up(320), 1), (min(MAX_DEG[w], 1024), 1)]
        if E > 1:
            q += [(1, 2), (3, 2), (E // 2, 2), (64 + E // 2, 2), (65, 2), (127, 1)]
    seen, out = set([16]), []
    for d, m in q:
        if d not in seen and 1 <= d <= MAX_DEG[w]:
            seen.add(d)
            out.append((d, m))
    return sorted(out)


# ------------------------------------------------------------------------------------------ emission helpers
def handle(t):
    return t[1] if t[0] == "P" else NV + t[1]


def cxx(t):
    op = t[0]
    if op == "P":
        return "e.v[%d]" % t[1]
    if op == "Q":
        return "e.q[%d]" % t[1]
    if op == "cshoup":
        return "compute_shoup(%s)" % cxx(t[1])
    if op == "shoup":
        return "shoup(%s, %s)" % (cxx(t[1]), cxx(t[2]))
    sym = {"add": "+", "sub": "-", "mul": "*", "eq": "==", "neq": "!="}[op]
    return "(%s %s %s)" % (cxx(t[1]), sym, cxx(t[2]))


def code(t):
    op = t[0]
    if op in "PQ":
        return [0, handle(t)]
    if op == "cshoup":
        return [5] + code(t[1])
    if op == "shoup":
        return [8] + code(t[1]) + code(t[2])
    return [{"add": 1, "sub": 2, "mul": 3, "eq": 6, "neq": 7}[op]] + code(t[1]) + code(t[2])


def ref(t):
    """C++ scalar expression of the exact value of t at (cm,i) (independent 128-bit reference)"""
    op = t[0]
    if op in "PQ":
        return "e.at(%d,cm,i)" % handle(t)
    if op == "cshoup":
        return "xr::rquot<T>(cm,%s)" % ref(t[1])
    if op == "shoup":
        return ref(t[1])
    f = {"add": "radd", "sub": "rsub", "mul": "rmul"}[op]
    return "xr::%s<T>(cm,%s,%s)" % (f, ref(t[1]), ref(t[2]))


def leaves(t):
    if t[0] in "PQ":
        return [t]
    out = []
    for c in t[1:]:
        out += leaves(c)
    return out


def depth(t):
    return 0 if t[0] in "PQ" else 1 + max(depth(c) for c in t[1:])


def size(t):
    return 1 if t[0] in "PQ" else 1 + sum(size(c) for c in t[1:])


# ------------------------------------------------------------------------------------------ random trees
class Gen:
    def __init__(self, rng, w, be, deg):
        self.r, self.w, self.be, self.deg = rng, w, be, deg
        self.vector = (w != 64 and be != SERIAL)

    def leaf(self, allow_q=True):
        if allow_q and self.r.random() < 0.3:
            return ("Q", self.r.choice(DATA_Q))
        return ("P", self.r.choice(DATA_P))

    def fix_pair(self, a, b):
        """poly (op) poly_p does not exist: swap or replace"""
        if a[0] == "P" and b[0] == "Q":
            return (("Q", self.r.choice(DATA_Q)), b) if self.r.random() < 0.5 else (a, ("P", self.r.choice(DATA_P)))
        return a, b

    def tree(self, d, m, st, top=False):
        """tree of depth <= d whose root functor has mode m (never a leaf).  st: {'hold': free holder leaves, 'prep': []}"""
        r = self.r
        sub = lambda mm, p_leaf=0.3, allow_q=True: (self.leaf(allow_q) if (d <= 1 or r.random() < p_leaf) else self.tree(d - 1, mm, st))
        if not self.vector:
            # every functor is serial: any shape
            k = r.choice(["add", "sub", "mul", "mul", "shoup", "shoup"] + (["cshoup"] if top else []) if d > 1 else ["add", "sub", "mul", "shoup"])
            if k == "cshoup":
                return self.quot_wrap(sub(SERIAL), d, st)
            if k == "shoup":
                return self.shoup(d, SERIAL, st, sub)
            a, b = self.fix_pair(sub(SERIAL), sub(SERIAL))
            return (k, a, b)
        if m == SERIAL:
            k = r.choice(["mul", "mul", "addsub", "shoup"] + (["cshoup"] if top else []) if d > 1 else ["mul"])
            if k == "mul":
                a, b = self.fix_pair(sub(SERIAL), sub(SERIAL))
                return ("mul", a, b)
            if k == "cshoup":
                return self.quot_wrap(sub(SERIAL), d, st)
            if k == "addsub":
                # tag serial needs a serial sub-expression on one side, leaf or serial expression on the other
                x = self.tree(d - 1, SERIAL, st)
                y = sub(SERIAL)
                a, b = (x, y) if r.random() < 0.5 else (y, x)
                a, b = self.fix_pair(a, b)
                return (r.choice(["add", "sub"]), a, b)
            return self.shoup(d, SERIAL, st, sub)
        # vector root
        opts = ["addsub"] if m == self.be else []
        if m == SSE:
            opts.append("shoup")
            if self.be == AVX2 and d > 1:
                opts.append("addsub_sse")
        k = r.choice(opts)
        if k == "addsub":
            a, b = self.fix_pair(sub(m), sub(m))
            return (r.choice(["add", "sub"]), a, b)
        if k == "addsub_sse":
            # avx2 build, sse root: tag sse needs an sse sub-expression (a fused product)
            x = self.tree(d - 1, SSE, st)
            y = sub(SSE)
            a, b = (x, y) if r.random() < 0.5 else (y, x)
            a, b = self.fix_pair(a, b)
            return (r.choice(["add", "sub"]), a, b)
        return self.shoup(d, m, st, sub)

    def quot_wrap(self, a, d, st):
        """compute_shoup(a): only meaningful as a root or as quotient operand; as a root here"""
        return ("cshoup", a)

    def shoup(self, d, m, st, sub):
        """shoup(a*b, q) with q the precomputed quotient of b"""
        r = self.r
        # operands of the product: direct poly_p next to an expression would make retag fail -> plain leaves there
        a = sub(m, 0.5, allow_q=False)
        b = sub(m, 0.6, allow_q=False)
        if a[0] in "PQ" and b[0] in "PQ" and r.random() < 0.4:
            a, b = ("Q", r.choice(DATA_Q)), ("Q", r.choice(DATA_Q))
        serial_ok = (not self.vector) or m == SERIAL
        use_inline = serial_ok and (not st["hold"] or r.random() < 0.4)
        if self.vector and m == SERIAL and a[0] in "PQ" and b[0] in "PQ":
            use_inline = True      # the tag must become serial: needs a serial sub-expression among the operands
        if use_inline:
            if st["hold"] and r.random() < 0.35:
                z = st["hold"].pop()
                st["prep"].append("e.set_lazy(%d, [&](size_t cm, size_t i) -> T { return %s; });" % (handle(z), ref(b)))
                q = ("cshoup", z)
            else:
                q = ("cshoup", b)
        else:
            if not st["hold"]:
                raise Reject("no free quotient holder")
            q = st["hold"].pop()
            st["prep"].append("e.set_quot(%d, [&](size_t cm, size_t i) -> T { return %s; });" % (handle(q), ref(b)))
        return ("shoup", ("mul", a, b), q)

    def modes(self):
        if not self.vector:
            return [SERIAL]
        return [SERIAL, SSE] if self.be == SSE else [SERIAL, SSE, AVX2]

    def random_case(self, maxdepth, holders=None, top=True):
        for _ in range(200):
            st = {"hold": (HOLD if holders is None else holders)[:], "prep": []}
            self.r.shuffle(st["hold"])
            m = self.r.choice(self.modes())
            d = maxdepth if self.r.random() < 0.5 else self.r.randint(1, maxdepth)
            try:
                t = self.tree(d, m, st, top=top)
            except Reject:
                continue
            ok, mm = compiles(t, self.w, self.be, self.deg)
            if ok:
                return t, st["prep"], mm
        raise RuntimeError("generator could not produce an accepted tree")

    def wild_tree(self, d):
        """unconstrained random tree (for predicted-rejected probes)"""
        r = self.r
        if d == 0 or r.random() < 0.3:
            return self.leaf()
        k = r.choice(["add", "sub", "mul", "shoup", "cshoup"])
        if k == "cshoup":
            return ("cshoup", self.wild_tree(d - 1))
        if k == "shoup":
            return ("shoup", self.wild_tree(d - 1), self.wild_tree(d - 1))
        return (k, self.wild_tree(d - 1), self.wild_tree(d - 1))


# ------------------------------------------------------------------------------------------ case lists
def P(i):
    return ("P", i)


def Q(i):
    return ("Q", i)


def basic_cases(w, be, deg):
    """small shapes × every aliasing pattern of the destination with the leaves (dest given as a leaf tuple)"""
    cases = []
    H0, H1 = HOLD[0], HOLD[2]

    def quot(h, b):
        return "e.set_quot(%d, [&](size_t cm, size_t i) -> T { return %s; });" % (handle(h), ref(b))

    for op in ("add", "sub", "mul"):
        for (x, y, d) in [(P(0), P(1), P(0)), (P(0), P(1), P(1)), (P(0), P(0), P(0)), (P(0), P(1), P(2)), (P(0), P(0), P(1)),
                          (Q(0), Q(1), Q(0)), (Q(0), P(1), P(1)), (Q(0), Q(0), Q(0)), (Q(0), Q(1), P(0))]:
            cases.append(((op, x, y), [], d, 0))
        cases.append(((op, P(0), P(1)), [], P(0), 1))      # helper nfl::add/sub/mul, out aliased with arg0
        cases.append(((op, P(0), P(1)), [], P(1), 1))
        cases.append(((op, P(0), P(0)), [], P(0), 1))
        cases.append(((op, P(0), P(1)), [], P(3), 1))
    # shoup(a*b, b') : dest = a, b, b', other; a = b
    for (a, b, q, d) in [(P(0), P(1), H0, P(0)), (P(0), P(1), H0, P(1)), (P(0), P(1), H0, H0), (P(0), P(1), H0, P(2)),
                         (P(0), P(0), H0, P(0)), (Q(0), Q(1), H1, Q(0)), (Q(0), Q(1), H1, H1), (Q(0), Q(1), H0, P(0))]:
        cases.append((("shoup", ("mul", a, b), q), [quot(q, b)], d, 0))
    # a + b*c, a = a + a*b, (a-b) + shoup(c*b, b'), c + shoup(a*b,b'), shoup(a*b, compute_shoup(b)), compute_shoup(a)
    for d in (P(0), P(1), P(2), P(3)):
        cases.append((("add", P(0), ("mul", P(1), P(2))), [], d, 0))
    cases.append((("add", P(0), ("mul", P(0), P(1))), [], P(0), 0))
    cases.append((("add", Q(0), ("mul", Q(0), Q(1))), [], Q(0), 0))
    for d in (P(0), P(1), P(2), H0):
        cases.append((("add", ("sub", P(0), P(1)), ("shoup", ("mul", P(2), P(1)), H0)), [quot(H0, P(1))], d, 0))
        cases.append((("add", P(2), ("shoup", ("mul", P(0), P(1)), H0)), [quot(H0, P(1))], d, 0))
    for d in (P(0), P(1), P(2)):
        cases.append((("shoup", ("mul", P(0), P(1)), ("cshoup", P(1))), [], d, 0))
    cases.append((("cshoup", P(0)), [], P(0), 0))
    cases.append((("cshoup", P(0)), [], P(1), 0))
    cases.append((("cshoup", Q(0)), [], Q(0), 0))
    cases.append((("cshoup", ("mul", P(0), P(1))), [], P(0), 0))
    cases.append((("mul", ("add", P(0), P(1)), P(2)), [], P(2), 0))
    cases.append((("mul", P(0), ("add", P(1), P(2))), [], P(1), 0))
    cases.append((("add", ("add", P(0), P(1)), ("mul", P(2), P(0))), [], P(0), 0))
    cases.append((("shoup", ("mul", ("add", P(0), P(1)), P(1)), H0), [quot(H0, P(1))], P(1), 0))
    cases.append((("sub", ("add", ("sub", P(0), P(1)), P(2)), ("add", P(0), P(0))), [], P(0), 0))
    cases.append((("mul", ("mul", P(0), P(1)), ("mul", P(0), P(2))), [], P(0), 0))
    cases.append((("shoup", ("mul", ("shoup", ("mul", P(0), P(1)), H0), P(2)), H1), [quot(H0, P(1)), quot(H1, P(2))], P(2), 0))
    # constructions and copy-on-write detach
    cases.append((("add", P(0), ("mul", P(1), P(2))), [], None, 2))
    cases.append((("sub", Q(0), Q(1)), [], None, 2))
    cases.append((("add", P(0), P(1)), [], None, 3))
    cases.append((("shoup", ("mul", P(0), P(1)), H0), [quot(H0, P(1))], None, 3))
    cases.append((("add", Q(0), Q(1)), [], Q(0), 4))
    cases.append((("add", Q(0), ("mul", Q(0), Q(1))), [], Q(0), 4))
    cases.append((("sub", ("mul", Q(0), P(0)), Q(0)), [], Q(0), 4))   # expr - poly_p: the leaf is the handle itself
    out = []
    for (t, prep, d, form) in cases:
        ok, m = compiles(t, w, be, deg)
        if ok:
            out.append((t, prep, d, form, m))
    return out


def all_handles():
    return [("P", i) for i in range(NV)] + [("Q", j) for j in range(NQ)]


def light_cases(w, be, deg):
    """the additional degrees: one aliasing pattern of each statement form (the aliasing dimension is swept at the base degree)"""
    H0 = HOLD[0]
    quot = lambda h, b: "e.set_quot(%d, [&](size_t cm, size_t i) -> T { return %s; });" % (handle(h), ref(b))
    cases = [(("add", P(0), P(1)), [], P(0), 0), (("sub", P(0), P(1)), [], P(2), 0), (("mul", P(0), P(1)), [], P(1), 0),
             (("sub", Q(0), Q(1)), [], Q(0), 0), (("add", P(0), P(1)), [], P(1), 1), (("mul", P(0), P(0)), [], P(0), 1),
             (("shoup", ("mul", P(0), P(1)), H0), [quot(H0, P(1))], P(0), 0),
             (("add", P(0), ("mul", P(1), P(2))), [], P(1), 0),
             (("add", ("sub", P(0), P(1)), ("shoup", ("mul", P(2), P(1)), H0)), [quot(H0, P(1))], P(0), 0),
             (("cshoup", P(0)), [], P(0), 0),
             (("sub", Q(0), Q(1)), [], None, 2), (("add", P(0), P(1)), [], None, 3), (("add", Q(0), Q(1)), [], Q(0), 4)]
    out = []
    for (t, prep, d, form) in cases:
        ok, m = compiles(t, w, be, deg)
        if ok:
            out.append((t, prep, d, form, m))
    return out


def c07_cases(seed, w, be, deg, tier, tu, profile="full", given=None):
    if profile == "given":
        return list(given)
    rng = random.Random("c07/%d/%d/%d/%d/%s/%d" % (seed, w, be, deg, tier, tu))
    g = Gen(rng, w, be, deg)
    if profile == "full":
        cases = basic_cases(w, be, deg) if tu == 0 else []
        nrand, maxd = (26, 4) if tier == "quick" else (40, 6)
    else:
        cases = light_cases(w, be, deg)
        nrand, maxd = (4, 3) if tier == "quick" else (8, 4)
    for k in range(nrand):
        t, prep, m = g.random_case(maxd if k % 3 else min(maxd, 3))
        lv = leaves(t)
        form = 0
        u = rng.random()
        if u < 0.6:
            d = rng.choice(lv)
        elif u < 0.85:
            d = rng.choice(all_handles())
        elif u < 0.92:
            d, form = None, 2
        elif u < 0.96:
            d, form = None, 3
        else:
            d, form = ("Q", rng.choice(DATA_Q)), 4
        cases.append((t, prep, d, form, m))
    return cases


def part_ns(pt):
    return "d%dm%d" % (pt["deg"], pt["nmod"])


def emit_c07(seed, w, be_name, deg, nmod, tier, tu=0, parts=None, op="asg"):
    """one translation unit; `parts` = [{deg, nmod, profile}] (default: the single full part (deg, nmod)), one namespace
    and one Env instantiation per part; case functions are numbered across the parts.  A part with profile "given" carries
    its own case list (`cases`); `op` = "asgx" makes the runtime print the statements as `asgx` lines (shapes outside the
    acceptance rules of `analyze`: checked against the coefficient-wise meaning only, see harness/expr_rt.hpp)"""
    be = BE_CODE[be_name]
    parts = parts or [dict(deg=deg, nmod=nmod, profile="full")]
    L = ['// GENERATED by tools/gen_expr.py (C07) seed=%d limb=%d backend=%s parts=%s tier=%s tu=%d' % (
            seed, w, be_name, ",".join("%dx%d:%s" % (pt["deg"], pt["nmod"], pt["profile"]) for pt in parts), tier, tu),
         '#include "expr_rt.hpp"', 'using T = %s;' % LIMB_T[w], 'using nfl::shoup; using nfl::compute_shoup;', '']
    spans, allcases, k0 = [], [], 0
    for pi, pt in enumerate(parts):
        cases = c07_cases(seed, w, be, pt["deg"], tier, tu, pt["profile"], pt.get("cases"))
        L.append("namespace %s {" % part_ns(pt))
        L.append('using E = xr::Env<T, %d, %d, %d, %d>;' % (pt["deg"], pt["nmod"], NV, NQ))
        for j, (t, prep, d, form, m) in enumerate(cases):
            k = k0 + j
            start = len(L) + 1
            tc = code(t)
            ex = cxx(t)
            L.append("// case %d: %s  [form %d, predicted mode %s]" % (k, ex.replace("e.", ""), form, m))
            L.append("static void case_%d(E& e, int reps) {" % k)
            L.append("  static const int tree[] = {%s};" % ", ".join(map(str, tc)))
            L.append("  for (int rep = 0; rep < reps; rep++) {")
            L.append("    e.fill(rep);")
            for p in prep:
                L.append("    " + p)
            L.append(("    const int mode = decltype(%s)::simd_mode::mode;" if op == "asg" else "    const int mode = xr::mode_of_type<decltype(%s)>::value;") % ex)
            if form == 0:
                L.append("    e.begin(tree, %d, %d, 0);" % (len(tc), handle(d)))
                L.append("    %s = %s;" % (cxx(d), ex))
                L.append("    e.end(mode);")
            elif form == 1:
                L.append("    e.begin(tree, %d, %d, 1);" % (len(tc), handle(d)))
                L.append("    nfl::%s(%s, %s, %s);" % (t[0], cxx(d), cxx(t[1]), cxx(t[2])))
                L.append("    e.end(mode);")
            elif form == 2:
                L.append("    e.begin(tree, %d, %d, 2);" % (len(tc), NV + NQ))
                L.append("    E::P fresh(%s);" % ex if k % 2 else "    E::P fresh = %s;" % ex)
                L.append("    e.end(mode, fresh.data());")
            elif form == 3:
                L.append("    e.begin(tree, %d, %d, 3);" % (len(tc), NV + NQ))
                L.append("    E::PP fresh(%s);" % ex)
                L.append("    e.end(mode, fresh.poly_obj().data());")
            elif form == 4:
                L.append("    E::PP other(%s);            // shares the storage of the destination" % cxx(d))
                L.append("    e.begin(tree, %d, %d, 4);" % (len(tc), handle(d)))
                L.append("    %s = %s;                  // detaches: the destination gets its own copy first" % (cxx(d), ex))
                L.append("    e.end(mode, &static_cast<E::PP const&>(other).poly_obj()(0, 0));")
            L.append("  }")
            L.append("}")
            spans.append((start, len(L), k))
        L.append("static void run_all(uint64_t seed) {")
        L.append("  E* env = new E(seed);")
        L.append("  E& e = *env;")
        if op != "asg":
            L.append('  e.asg_op = "%s"; e.mode_in_args = true;' % op)
        L.append("  int reps = vh::thorough() ? 4 : 3;")
        for j in range(len(cases)):
            L.append("  case_%d(e, reps);" % (k0 + j))
        L.append("  delete env;")
        L.append("}")
        L.append("}  // namespace %s" % part_ns(pt))
        L.append("")
        k0 += len(cases)
        allcases += cases
    L.append("int main() {")
    for pi, pt in enumerate(parts):
        L.append("  %s::run_all(vh::env_u64(\"VERIF_SEED\", 1) * 1000003ULL + %d);" % (
            part_ns(pt), w * 131 + be * 17 + tu + (0 if pt["profile"] == "full" else 7919 * pt["deg"])))
    L.append("  fflush(stdout);")
    L.append("  return 0;")
    L.append("}")
    return "\n".join(L) + "\n", spans, allcases


# ------------------------------------------------------------------------------------------ C08
def c08_shapes(seed, w, be, deg, tier, profile="full"):
    """(kind, tree, t_leaf, target-ref, prep).  `t_leaf` is the controlled leaf."""
    rng = random.Random("c08/%d/%d/%d/%d/%s" % (seed, w, be, deg, tier))
    g = Gen(rng, w, be, deg)
    T0, T1 = HOLD[0], HOLD[2]           # controlled leaves: a poly and a poly_p
    shapes = []

    def add(root, l, r_, t, target, prep=()):
        shapes.append((root, l, r_, t, target, list(prep)))

    if profile == "full":
        for root in ("eq", "neq"):
            # poly/poly, poly_p/poly_p (distinct storage), poly_p/poly
            add(root, P(0), T0, T0, ref(P(0)))
            add(root, T0, P(0), T0, ref(P(0)))
            add(root, Q(0), T1, T1, ref(Q(0)))
            add(root, T1, P(0), T1, ref(P(0)))
            # expression on either side
            add(root, ("add", P(0), P(1)), T0, T0, ref(("add", P(0), P(1))))
            add(root, T0, ("sub", P(0), P(1)), T0, ref(("sub", P(0), P(1))))
            add(root, ("mul", P(0), P(1)), T0, T0, ref(("mul", P(0), P(1))))
            add(root, T1, ("add", P(0), P(1)), T1, ref(("add", P(0), P(1))))
            add(root, T1, ("mul", Q(0), Q(1)), T1, ref(("mul", Q(0), Q(1))))
            # expression == expression: L == (S + t)  with t := L - S
            for (l, s) in [(("add", P(0), P(1)), P(2)), (("mul", P(0), P(1)), ("mul", P(2), P(3))), (("sub", Q(0), P(0)), P(1))]:
                r_ = ("add", s, T0)
                add(root, l, r_, T0, "xr::rsub<T>(cm,%s,%s)" % (ref(l), ref(s)))
        nrand = 4 if tier == "quick" else 12
        nbool = nrand
        bool_srcs = [P(0), ("add", P(0), P(1)), ("mul", P(0), P(1))]
    else:
        # the additional degrees: every operand kind once per root (the shape dimension is swept at the base degree);
        # the roots of narrower modes (a product on one side: serial) are the ones that exist at off-width degrees
        add("eq", P(0), T0, T0, ref(P(0)))
        add("neq", T0, P(0), T0, ref(P(0)))
        add("eq", Q(0), T1, T1, ref(Q(0)))
        add("neq", Q(0), T1, T1, ref(Q(0)))
        add("eq", T0, ("sub", P(0), P(1)), T0, ref(("sub", P(0), P(1))))
        add("eq", ("mul", P(0), P(1)), T0, T0, ref(("mul", P(0), P(1))))
        add("neq", T1, ("mul", Q(0), Q(1)), T1, ref(("mul", Q(0), Q(1))))
        nrand = 1 if tier == "quick" else 3
        nbool = 0 if tier == "quick" else 2
        bool_srcs = [P(0), ("mul", P(0), P(1))]
    for k in range(nrand):
        # random tree against a controlled leaf, or against (S + t)
        l, prep, _ = g.random_case(3 if (tier == "quick" or profile != "full") else 5, holders=[("P", 5)], top=False)
        root = rng.choice(["eq", "neq"])
        if rng.random() < 0.5:
            add(root, l, T0, T0, ref(l), prep) if rng.random() < 0.5 else add(root, T0, l, T0, ref(l), prep)
        else:
            s = ("P", rng.choice(DATA_P))
            add(root, l, ("add", s, T0), T0, "xr::rsub<T>(cm,%s,%s)" % (ref(l), ref(s)), prep)
    # bool(arithmetic expression):  S - t  (zero iff t = S), t - S, and a product with a controlled factor
    for n_, s in enumerate(bool_srcs):
        if profile == "full" or n_ % 2 == 0:
            add("bool", ("sub", s, T0), None, T0, ref(s))
        if profile == "full" or n_ % 2 == 1:
            add("bool", ("sub", T0, s), None, T0, ref(s))
    for k in range(nbool):
        s, prep, _ = g.random_case(3, holders=[("P", 5)], top=False)
        add("bool", ("sub", s, T0), None, T0, ref(s), prep)
    out = []
    for (root, l, r_, t, target, prep) in shapes:
        tree = l if root == "bool" else (root, l, r_)
        ok, m = compiles(tree, w, be, deg, as_bool=True)
        if ok:
            out.append((root, tree, t, target, prep, m))
    return out


FIXED_PBOOL = """
  // poly -> bool: all zero, one-hot at every position, random
  e.fill_zero(); e.emit_pbool(0, bool(e.v[0]));
  for (size_t k : e.positions()) {
    e.fill_zero(); size_t cm = k / %(deg)d, i = k %% %(deg)d;
    e.set(0, cm, i, (k %% 2) ? (T)1 : (T)(xr::modp<T>(cm) - 1));
    e.emit_pbool(0, bool(e.v[0]));
    e.emit_pbool(1, bool(e.v[1]));
  }
  e.fill(0); e.emit_pbool(2, bool(e.v[2]));
  e.sweep_pbool(0, [&]() -> bool { return bool(e.v[0]); });
  e.sweep_pbool(%(q0)d, [&]() -> bool { return bool(static_cast<E::PP const&>(e.q[0]).poly_obj()); });
"""
FIXED_BITS = """
  // a single non-zero residue with a single bit set, every bit position (word-part-blind reductions)
  for (int b = 0; b < (int)(8 * sizeof(T)) - 2; b++) {
    size_t k = (size_t)(b * 5 + 1) %% E::N, cm = k / %(deg)d, i = k %% %(deg)d;
    T val = (T)((T)1 << b);
    if (val >= xr::modp<T>(cm)) continue;
    e.fill_zero(); e.set(0, cm, i, val);
    e.emit_pbool(0, bool(e.v[0]));
    // and the upper-half-only mask of p-1
    e.fill_zero(); e.set(0, cm, i, (T)((xr::modp<T>(cm) - 1) & ~(((T)1 << (4 * sizeof(T))) - 1)));
    if (b %% 8 == 0) e.emit_pbool(0, bool(e.v[0]));
  }
"""
FIXED_PP = """
  // poly_p on identical storage: copies share the pointer
  for (int rep = 0; rep < %(ppreps)d; rep++) {
    e.fill(rep);
    E::PP same(e.q[0]);
    e.emit_pp("ppeq", %(q0)d, %(q0)d, same == e.q[0]);
    e.emit_pp("ppne", %(q0)d, %(q0)d, same != e.q[0]);
    e.emit_pp("ppeq", %(q0)d, %(q0)d, e.q[0] == e.q[0]);
    e.emit_pp("ppne", %(q0)d, %(q0)d, e.q[0] != e.q[0]);
    e.emit_pp("ppeq", %(q0)d, %(q1)d, e.q[0] == e.q[1]);
    e.emit_pp("ppne", %(q0)d, %(q1)d, e.q[0] != e.q[1]);
  }
"""
FIXED_F1 = """
  // the former defect witnesses of F1
  {
    e.fill_zero();
    T a[] = {1, 2, 3}, b[] = {1, 5, 6}, c[] = {4, 5, 6};
    for (int i = 0; i < 3; i++) { e.set(0, 0, i, a[i]); e.set(1, 0, i, b[i]); e.set(2, 0, i, c[i]); }
    static const int t01[] = {6, 0, 0, 0, 1}, t02[] = {6, 0, 0, 0, 2}, n01[] = {7, 0, 0, 0, 1};
    const int mode = decltype(e.v[0] == e.v[1])::simd_mode::mode;
    e.emit_bool(t01, 5, 1, mode, bool(e.v[0] == e.v[1]));
    e.emit_bool(t02, 5, 1, mode, bool(e.v[0] == e.v[2]));
    e.emit_bool(n01, 5, 1, mode, bool(e.v[0] != e.v[1]));
    e.fill_zero();
    T x[] = {1, 2, 3, 4, 5, 6, 7, 8}, y[] = {1, 9, 3, 9, 5, 9, 7, 9};
    for (int i = 0; i < 8; i++) { e.set(0, 0, i, x[i]); e.set(1, 0, i, y[i]); }
    e.emit_bool(t01, 5, 1, mode, bool(e.v[0] == e.v[1]));
    e.emit_bool(n01, 5, 1, mode, bool(e.v[0] != e.v[1]));
  }
"""


def emit_c08(seed, w, be_name, deg, nmod, tier, parts=None, xmode=False):
    """one translation unit; `parts` = [{deg, nmod, profile}] as in emit_c07; shape functions are numbered across the parts.
    A part with profile "given" carries its own shape list (`shapes`: tuples as c08_shapes returns) and no fixed section;
    `xmode`: the conversions are printed as `eboolx` lines (shapes outside the acceptance rules, see harness/expr_rt.hpp)"""
    be = BE_CODE[be_name]
    parts = parts or [dict(deg=deg, nmod=nmod, profile="full")]
    L = ['// GENERATED by tools/gen_expr.py (C08) seed=%d limb=%d backend=%s parts=%s tier=%s' % (
            seed, w, be_name, ",".join("%dx%d:%s" % (pt["deg"], pt["nmod"], pt["profile"]) for pt in parts), tier),
         '#include "expr_rt.hpp"', 'using T = %s;' % LIMB_T[w], 'using nfl::shoup; using nfl::compute_shoup;', '']
    spans, allshapes, k0 = [], [], 0
    for pi, pt in enumerate(parts):
        pdeg, full = pt["deg"], (pt["profile"] == "full" or bool(pt.get("full")))
        given = pt["profile"] == "given"
        shapes = list(pt["shapes"]) if given else c08_shapes(seed, w, be, pdeg, tier, pt["profile"])
        L.append("namespace %s {" % part_ns(pt))
        L.append('using E = xr::Env<T, %d, %d, %d, %d>;' % (pdeg, pt["nmod"], NV, NQ))
        for j, (root, tree, t, target, prep, m) in enumerate(shapes):
            k = k0 + j
            start = len(L) + 1
            tc = code(tree)
            ex = cxx(tree)
            both_q = root != "bool" and tree[1][0] == "Q" and tree[2][0] == "Q"
            leaf_only = root != "bool" and tree[1][0] in "PQ" and tree[2][0] in "PQ"
            L.append("// shape %d: bool(%s)  [predicted mode %s]" % (k, ex.replace("e.", ""), m))
            L.append("static void shape_%d(E& e) {" % k)
            L.append("  static const int tree[] = {%s};" % ", ".join(map(str, tc)))
            L.append("  auto target = [&](size_t cm, size_t i) -> T { return %s; };" % target)
            L.append("  auto prep = [&]() { %s };" % " ".join(prep))
            if both_q and not xmode:
                L.append("  xr::BoolCase bc{1, tree, %d, 0, %d, %d};" % (len(tc), handle(tree[1]), handle(tree[2])))
                L.append("  auto ev = [&]() -> bool { bool r = %s; return r; };" % ex)
            elif xmode:
                L.append("  const int mode = xr::mode_of_type<decltype(%s)>::value;" % ex)
                L.append("  xr::BoolCase bc{0, tree, %d, mode, 0, 0};" % len(tc))
                L.append("  auto ev = [&]() -> bool { return bool(%s); };" % ex)
            else:
                L.append("  const int mode = decltype(%s)::simd_mode::mode;" % ex if not (root != "bool" and tree[1][0] == "Q")
                         else "  const int mode = decltype(%s)::simd_mode::mode;" % cxx((root, ("P", 0), tree[2])))
                L.append("  xr::BoolCase bc{0, tree, %d, mode, 0, 0};" % len(tc))
                L.append("  auto ev = [&]() -> bool { return bool(%s); };" % ex)
            # the difference / the equal residue at EVERY position for the polynomial-only shapes (and for every shape of a
            # small polynomial); the boundary-directed positions otherwise
            L.append("  e.patterns(%d, target, prep, bc, ev, %s);" % (handle(t), "true" if (leaf_only or root == "bool" and size(tree) <= 3) else "false"))
            L.append("}")
            spans.append((start, len(L), k))
        cmp_ok = pdeg % elt_count(w, be) == 0
        sub = {"deg": pdeg, "q0": NV, "q1": NV + 1, "ppreps": 3 if full else 1}
        L.append("static void fixed(E& e) {")
        L.append(FIXED_PBOOL % sub)
        if full:
            L.append(FIXED_BITS % sub)
        if cmp_ok:
            L.append(FIXED_PP % sub)
        if cmp_ok and pdeg >= 8 and full:
            L.append(FIXED_F1 % sub)
        L.append("}")
        L.append("static void run_all(uint64_t seed) {")
        L.append("  E* env = new E(seed);")
        L.append("  E& e = *env;")
        L.append("  e.light = %s;" % ("false" if full else "true"))
        if xmode:
            L.append("  e.xmode = true;")
        if not given:
            L.append("  fixed(e);")
        for j in range(len(shapes)):
            L.append("  shape_%d(e);" % (k0 + j))
        L.append("  delete env;")
        L.append("}")
        L.append("}  // namespace %s" % part_ns(pt))
        L.append("")
        k0 += len(shapes)
        allshapes += shapes
    L.append("int main() {")
    for pi, pt in enumerate(parts):
        L.append("  %s::run_all(vh::env_u64(\"VERIF_SEED\", 1) * 1000003ULL + %d);" % (
            part_ns(pt), 7 + w * 131 + be * 17 + (0 if pt["profile"] == "full" else 7919 * pt["deg"])))
    L.append("  fflush(stdout);")
    L.append("  return 0;")
    L.append("}")
    return "\n".join(L) + "\n", spans, allshapes


# ------------------------------------------------------------------------------------------ probes
def probe_source(w, deg, nmod, t, as_bool):
    ex = cxx(t)
    body = "bool r = bool(%s); (void)r;" % ex if as_bool else "e.v[%d] = %s;" % (NV - 1, ex)
    return ('#include "expr_rt.hpp"\nusing T = %s;\nusing E = xr::Env<T, %d, %d, %d, %d>;\nusing nfl::shoup; using nfl::compute_shoup;\n'
            'void probe(E& e) { %s }\n' % (LIMB_T[w], deg, nmod, NV, NQ, body))


def probes(seed, w, be_name, deg, n_acc, n_rej):
    """single-expression sources: [(predicted_ok, reason/mode, tree text, source, info)]; info = dict(tree, ...) for the
    predicted-rejected ones (executed by tools/exprcheck.py when the compiler accepts them after all)"""
    be = BE_CODE[be_name]
    rng = random.Random("probe/%d/%d/%d/%d" % (seed, w, be, deg))
    g = Gen(rng, w, be, deg)
    out = []
    for _ in range(n_acc):
        t, prep, m = g.random_case(4)
        out.append((True, m, cxx(t), probe_source(w, deg, 1, t, False), None))
    tries = 0
    fixed_rej = [("mul", ("add", P(0), P(1)), P(2)), ("add", P(0), Q(0)), ("shoup", P(0), P(1)), ("cshoup", ("add", P(0), P(1))),
                 ("shoup", ("mul", Q(0), ("mul", P(0), P(1))), P(2)), ("add", ("sub", P(0), P(1)), ("shoup", ("mul", P(2), P(1)), P(3)))]
    rng.shuffle(fixed_rej)
    cand = fixed_rej[:]
    while len([1 for x in out if not x[0]]) < n_rej and tries < 2000:
        tries += 1
        t = cand.pop() if cand else g.wild_tree(rng.randint(1, 3))
        if t[0] in "PQ":
            continue
        ok, why = compiles(t, w, be, deg)
        if not ok:
            out.append((False, why, cxx(t), probe_source(w, deg, 1, t, False), dict(key=None, tree=t, prep=None, as_bool=False)))
    return out


def degree_probes(seed, w, be_name, tier):
    """single-statement sources at degrees that are not multiples of the backend's register width: which roots the
    library accepts there (those of a narrower mode) and which it rejects (static_assert `no need for a footer`);
    the accepted side is also exercised by every generated part (it has to compile)"""
    be = BE_CODE[be_name]
    E = elt_count(w, be)
    if E == 1:
        return []
    rng = random.Random("degprobe/%d/%d/%d" % (seed, w, be))
    cand = [(("eq", P(0), P(1)), True), (("neq", Q(0), Q(1)), True), (("add", P(0), P(1)), False), (("sub", P(0), P(1)), True),
            (("eq", ("mul", P(0), P(1)), P(2)), True), (("mul", P(0), P(1)), False), (("eq", Q(0), ("add", P(0), P(1))), True),
            (("shoup", ("mul", P(0), P(1)), P(2)), False)]
    degs = [64 + E // 2, 65, 3 * E + 1, E // 2, 200 + E // 2 + (0 if E > 2 else 1)]
    picks = [(t, b, d) for (t, b) in cand for d in degs]
    rng.shuffle(picks)
    out, want = [], ({True: 1, False: 1} if tier == "quick" else {True: 4, False: 6})
    for (t, as_bool, d) in picks:
        ok, why = compiles(t, w, be, d, as_bool=as_bool)
        if want[ok] > 0:
            want[ok] -= 1
            out.append((ok, "degree %d: %s" % (d, why), ("bool(%s)" if as_bool else "%s") % cxx(t) + " at degree %d" % d, probe_source(w, d, 1, t, as_bool), None))
    return out


# ------------------------------------------------------------------------------------------ shape families
# The claim of C07 covers "any arithmetic expression the library accepts at compile time"; the case generators above only
# produce what `analyze` predicts to be accepted.  The other side of that border is enumerated here, systematically:
# every root kind x every operand kind in every operand position.  tools/exprcheck.py compiles a representative of each
# family the predictor REJECTS (-fsyntax-only) and, when the compiler accepts one (a library change made a new shape
# compile: it is inside the claim from then on), EXECUTES it (`family_exec_cases`) against the exact meaning.
#
# operand kinds:  P  plain polynomial          Q  shared handle (poly_p)
#                 Ea sum / difference of two polynomials (the backend's own mode)
#                 Em product of two polynomials (serial mode in every build)
#                 Ef fused product shoup(a*b, b') with a precomputed quotient (sse mode in the vector builds)
# root kinds:     add | sub | mul (x, y)            cshoup (x)
#                 fused (x, y, q) = shoup(x * y, q)   q: P / Q = a holder set to the quotient of y,  C = compute_shoup(y) inline
#                 shoupgen (x, q) = shoup(x, q) with x not a product
#                 eq | neq (x, y)                   (boolean conversion; C08)
OPK = ("P", "Q", "Ea", "Em", "Ef")
FAM_QUOT_EF = ("P", 4)        # v4 := quotient of v1, shared by the fused operands
FAM_ROOT_HOLD = {"P": ("P", 5), "Q": ("Q", 2)}


def set_quot_stmt(h, b):
    return "e.set_quot(%d, [&](size_t cm, size_t i) -> T { return %s; });" % (handle(h), ref(b))


def fam_operand(kind, pos, var=0):
    """(tree, prep) of an operand of kind `kind` in operand position `pos` (0 | 1); `var` varies the representative"""
    a, b = (P(0), P(1)) if pos == 0 else (P(2), P(3))
    if kind == "P":
        return a, []
    if kind == "Q":
        return Q(pos), []
    if kind == "Ea":
        return (("add", "sub")[(var + pos) % 2], a, b), []
    if kind == "Em":
        return ("mul", Q(0), Q(1)) if (var // 2 + pos) % 3 == 2 else ("mul", a, b), []
    if kind == "Ef":
        return ("shoup", ("mul", a, P(1)), FAM_QUOT_EF), [set_quot_stmt(FAM_QUOT_EF, P(1))]
    raise ValueError(kind)


def family_tree(key, var=0):
    """(tree, prep, as_bool) of the representative `var` of family `key` = (root, operand kinds...)"""
    root = key[0]
    if root in ("add", "sub", "mul", "eq", "neq"):
        (x, px), (y, py) = fam_operand(key[1], 0, var), fam_operand(key[2], 1, var)
        return (root, x, y), px + [s for s in py if s not in px], root in ("eq", "neq")
    if root == "cshoup":
        x, px = fam_operand(key[1], 0, var)
        return ("cshoup", x), px, False
    if root == "fused":
        (x, px), (y, py) = fam_operand(key[1], 0, var), fam_operand(key[2], 1, var)
        prep = px + [s for s in py if s not in px]
        if key[3] == "C":
            q = ("cshoup", y)
        else:
            q = FAM_ROOT_HOLD[key[3]]
            prep = prep + [set_quot_stmt(q, y)]
        return ("shoup", ("mul", x, y), q), prep, False
    if root == "shoupgen":
        x, px = fam_operand(key[1], 0, var)
        return ("shoup", x, FAM_ROOT_HOLD[key[2]]), px, False
    raise ValueError(root)


def family_keys(cmp_roots=False):
    keys = [(r, x, y) for r in ("add", "sub", "mul") for x in OPK for y in OPK]
    keys += [("cshoup", x) for x in OPK]
    keys += [("fused", x, y, q) for x in OPK for y in OPK for q in ("P", "Q", "C")]
    keys += [("shoupgen", x, q) for x in ("P", "Q", "Ea", "Ef") for q in ("P", "Q")]
    if cmp_roots:
        keys += [(r, x, y) for r in ("eq", "neq") for x in OPK for y in OPK]
    return keys


def fam_name(key):
    return "%s(%s)" % (key[0], ",".join(key[1:]))


def handle_fused(key):
    """a fused product with a shared handle among the factors of its product (and not handles only)"""
    return key[0] == "fused" and "Q" in key[1:3] and key[1:3] != ("Q", "Q")


def family_probes(seed, w, be_name, tier, roots="arith", everything=False):
    """[(predicted_ok, reason/mode, text, source, info)]: one single-statement source per selected family;
    roots = "arith" (assignments; C07) | "cmp" (boolean conversions of == / != roots; C08).
    thorough (or `everything`): every family the predictor rejects + a rotating eighth of the accepted ones;
    quick: of the rejected families, arith: every fused product with a handle factor next to a sub-expression or a polynomial
    (both factor positions, every kind of the other factor; the kind of the quotient operand rotates with the seed)
    and a rotating subset of the others; cmp: a comparison with a handle operand per root (rotating) and a rotating subset of
    the others.  `info` = dict(key, tree, prep, as_bool)."""
    be = BE_CODE[be_name]
    rng = random.Random("famprobe/%s/%d/%d/%d" % (roots, seed, w, be))
    var = seed + w // 16 + be
    rej, acc = [], []
    for key in family_keys(roots == "cmp"):
        if (key[0] in ("eq", "neq")) != (roots == "cmp"):
            continue
        t, prep, as_bool = family_tree(key, var)
        ok, why = compiles(t, w, be, 16, as_bool=as_bool)
        (acc if ok else rej).append((ok, why, key, t, prep, as_bool))
    if tier == "thorough" or everything:
        rot = (seed + w + be) % 8
        pick = rej + ([] if everything else [x for i, x in enumerate(acc) if i % 8 == rot])
    else:
        always = handle_fused if roots == "arith" else (lambda key: "Q" in key[1:])
        group_of = (lambda key: key[1:3]) if roots == "arith" else (lambda key: key[0])
        must, groups = [], {}
        for x in rej:
            if always(x[2]):
                groups.setdefault(group_of(x[2]), []).append(x)
        for g in sorted(groups):
            must.append(groups[g][(seed + len(must)) % len(groups[g])])
        rest = [x for x in rej if not always(x[2])]
        rng.shuffle(rest)
        pick = must + rest[:(3 if roots == "arith" else 2)]
    out = []
    for (ok, why, key, t, prep, as_bool) in pick:
        out.append((ok, "family %s: %s" % (fam_name(key), why), ("bool(%s)" if as_bool else "%s") % cxx(t),
                    probe_source(w, 16, 1, t, as_bool), dict(key=key, tree=t, prep=prep, as_bool=as_bool)))
    return out


def factors(t):
    """(a, b) of a product-valued operand: a * b or shoup(a * b, q)"""
    return (t[1], t[2]) if t[0] == "mul" else (t[1][1], t[1][2])


def family_cmp_shape(key, tree, prep):
    """how to drive a comparison family through the data patterns of the C08 runtime (`patterns`): the controlled leaf `t` and the
    value `target` of it that makes the two sides equal at (cm,i) (the specification evaluates every store exactly, so the
    patterns need not be perfect: they only have to reach equal / differ-in-one / equal-in-one stores most of the time).
    Returns (root, tree, t, target, prep, None) as gen_expr.c08_shapes does."""
    root, x, y = tree
    kx, ky = key[1], key[2]
    copy = lambda dst, src: "e.set_val(%d, [&](size_t cm, size_t i) -> T { return %s; });" % (handle(dst), ref(src))
    if ky in "PQ":
        return (root, tree, y, ref(x), prep, None)
    if kx in "PQ":
        return (root, tree, x, ref(y), prep, None)
    for (side, other) in ((y, x), (x, y)):
        if side[0] in ("add", "sub"):
            a, b = side[1], side[2]
            tgt = "xr::rsub<T>(cm,%s,%s)" % ((ref(other), ref(a)) if side[0] == "add" else (ref(a), ref(other)))
            return (root, tree, b, tgt, prep, None)
    (a, b), (a2, b2) = factors(x), factors(y)
    pre = [copy(b2, b)] if b2 != b else []
    return (root, tree, a2, ref(a), pre + prep, None)


def has_meaning(t):
    """the executable specification gives a meaning to every tree except the generic node shoup(x, q) with x not a product"""
    if t[0] in "PQ":
        return True
    if t[0] == "shoup" and t[1][0] != "mul":
        return False
    return all(has_meaning(c) for c in t[1:])


def family_exec_cases(t, prep):
    """the statements that execute a tree the compiler turned out to accept: (tree, prep, dest, form, None) for every
    aliasing pattern of the destination with the leaves (every distinct leaf incl. the quotient holders), a polynomial and
    a handle that are not operands, construction of a polynomial / of a handle, and the copy-on-write detach"""
    lv = []
    for l in leaves(t):
        if l not in lv:
            lv.append(l)
    free_p = [x for x in (P(3), P(5), P(2), P(4), P(0), P(1)) if x not in lv]
    free_q = [x for x in (Q(1), Q(2), Q(0)) if x not in lv]
    dests = [(d, 0) for d in lv]
    if free_p:
        dests.append((free_p[0], 0))
    if free_q:
        dests.append((free_q[0], 0))
    dests += [(None, 2), (None, 3)]
    qs = [l for l in lv if l[0] == "Q"]
    dests.append(((qs[0] if qs else Q(0)), 4))
    return [(t, prep, d, form, None) for (d, form) in dests]


if __name__ == "__main__":
    import argparse
    ap = argparse.ArgumentParser()
    ap.add_argument("kind", choices=["c07", "c08", "table"])
    ap.add_argument("--seed", type=int, default=1)
    ap.add_argument("--limb", type=int, default=16)
    ap.add_argument("--backend", default="sse")
    ap.add_argument("--deg", type=int, default=16)
    ap.add_argument("--nmod", type=int, default=2)
    ap.add_argument("--tier", default="quick")
    a = ap.parse_args()
    if a.kind == "c07":
        sys.stdout.write(emit_c07(a.seed, a.limb, a.backend, a.deg, a.nmod, a.tier)[0])
    elif a.kind == "c08":
        sys.stdout.write(emit_c08(a.seed, a.limb, a.backend, a.deg, a.nmod, a.tier)[0])
    else:
        shapes = {"a+b": ("add", P(0), P(1)), "(a+b)*c": ("mul", ("add", P(0), P(1)), P(2)), "a*(b+c)": ("mul", P(0), ("add", P(1), P(2))),
                  "shoup(a*b,c)": ("shoup", ("mul", P(0), P(1)), P(2)), "(a-b)+shoup(c*b,a)": ("add", ("sub", P(0), P(1)), ("shoup", ("mul", P(2), P(1)), P(0))),
                  "compute_shoup(a+b)": ("cshoup", ("add", P(0), P(1))), "shoup((a+b)*b,c)": ("shoup", ("mul", ("add", P(0), P(1)), P(1)), P(2)),
                  "(a+b)+(c*a)": ("add", ("add", P(0), P(1)), ("mul", P(2), P(0))), "a+pa": ("add", P(0), Q(0)), "pa+a": ("add", Q(0), P(0))}
        for name, t in shapes.items():
            row = []
            for w in (16, 32, 64):
                for be in (SERIAL, SSE, AVX2):
                    row.append("Y" if compiles(t, w, be, 16)[0] else "n")
                row.append("|")
            print("%-24s %s" % (name, " ".join(row)))
