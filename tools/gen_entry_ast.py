#!/usr/bin/env python3
"""Translator: clang's typed AST of the two PUBLIC TRANSFORM ENTRY POINTS of NFLlib -> lean/NflVerif/Generated/EntryAst.lean

  ntt_pow_phi_uW        nfl::poly<T,Degree,NbModuli>::core::ntt_pow_phi(poly& op)          (core.hpp)
  invntt_pow_invphi_uW  nfl::poly<T,Degree,NbModuli>::core::invntt_pow_invphi(poly& op)    (core.hpp)
for T = uint32_t, uint64_t, instantiated for poly<T,16,2> and poly<T,32,1> (both must give the same text: `degree`, `nmoduli`
are PARAMETERS).  Only the GLUE is translated here; everything called is already translated elsewhere and is referenced BY NAME:
  * `op = nfl::shoup(op * reinterpret_cast<poly const&>(F), reinterpret_cast<poly const&>(G))` — the operator= selected by clang must
    be the one for `ops::expr<mulmod_shoup<T, serial>, poly, poly, poly>` and the argument tree `shoup(operator*(op, F), G)`; it becomes
    `ExprAst.assign_shoup_serial_uW` (tools/gen_expr_ast.py: poly::operator=(expr), the fused `_make_op`, the functor) on the heap
    [op, F, G], destination = first leaf = object 0 (the aliasing of the source);
  * `for (size_t cm = 0; cm < nmoduli; ++cm) { core::ntt(&op(cm, 0), A[cm], B[cm], get_modulus(cm)); }` — `CSemExpr.forSt` over `op`;
    `ntt` / `inv_ntt` are `ntt_uW` / `inv_ntt_uW` of Generated/NttLoopAst.lean; `&op(cm,0)` is the offset computed by the generated
    `ExprAst.poly_at`; `A[cm]` with `A` a `value_type[nmoduli][2*degree]` member is row `cm` of the tables at offset 0; `B[cm]` with `B` a
    `value_type*[nmoduli]` member is the pointer core::initialize() stored: (row `A` it points into, offset `(T cm).B`), see
    Generated/InitAst.lean; `C[cm]` with `C` a `value_type[nmoduli]` member is `(T cm).C`; `get_modulus(cm)` is `P cm` (params<T>::P[cm]).
Pointer windows (`CSemEntry.callSlice`, `CSemEntry.suffix`): see lean/NflVerif/Model/CSemEntry.lean.
Any other node kind / callee / member / shape => non-zero exit naming it.  The last line of stdout is a JSON summary.
Usage: gen_entry_ast.py [--repo DIR] [--out FILE]
"""
import hashlib, json, os, sys

HERE = os.path.dirname(os.path.abspath(__file__))
sys.path.insert(0, HERE)
import gen_ops_ast as g
from gen_ops_ast import Unsupported

OUT = os.path.join(g.VERIF, "lean", "NflVerif", "Generated", "EntryAst.lean")
TYPES = [t for t in g.TYPES if t[2] in ("u32", "u64")]
SHAPES = [(16, 2), (32, 1)]
# member -> (InitRow field holding the row, InitRow field holding the offset or None)
PTR_MEMBERS = {"shoupomegas": ("omegas", "shoupomegas"), "shoupinvomegas": ("invomegas", "shoupinvomegas")}
ROW_MEMBERS = {"phis", "shoupphis", "invpoly_times_invphis", "shoupinvpoly_times_invphis", "omegas", "invomegas"}
SCALAR_MEMBERS = {"invpolyDegree"}
CALLEES = {"ntt": "ntt", "inv_ntt": "inv_ntt"}


def kids(n):
    return [c for c in n.get("inner", []) or [] if isinstance(c, dict) and c.get("kind")]


def bad(n, why):
    raise Unsupported("%s: %s (kind %s)" % (why, json.dumps({k: n.get(k) for k in ("name", "opcode", "castKind", "value")}), n.get("kind")))


def strip(n, *kinds):
    """skip implicit nodes of the given kinds / castKinds"""
    while True:
        if n["kind"] in ("ExprWithCleanups", "MaterializeTemporaryExpr", "ParenExpr") and "wrap" in kinds:
            n = kids(n)[0]
        elif n["kind"] == "ImplicitCastExpr" and n.get("castKind") in kinds:
            n = kids(n)[0]
        else:
            return n


def callee(n):
    f = strip(kids(n)[0], "FunctionToPointerDecay")
    if f["kind"] != "DeclRefExpr":
        bad(f, "callee is not a declaration reference")
    return f["referencedDecl"]


def declref(n, name, what):
    if n["kind"] != "DeclRefExpr" or n["referencedDecl"].get("name") != name:
        bad(n, "expected a reference to %s `%s`" % (what, name))


class Fn:
    def __init__(self, name, suf, cname, src):
        self.name, self.suf, self.cname, self.src = name, suf, cname, src
        self.lines, self.nodes, self.called, self.members = [], 0, [], []
        self.junk = False

    def text_of(self, n):
        r = n.get("range", {})
        b, e = r.get("begin", {}), r.get("end", {})
        b, e = b.get("expansionLoc", b), e.get("expansionLoc", e)
        if "offset" not in b or "offset" not in e:
            return "?"
        s = self.src[b["offset"]: e["offset"] + e.get("tokLen", 1)]
        return " ".join(s.split())

    def count(self, n):
        self.nodes += 1
        for c in kids(n):
            self.count(c)

    # ---- the twist statement
    def member_as_poly(self, n):
        n = strip(n, "NoOp", "wrap")
        if n["kind"] != "CXXReinterpretCastExpr" or n.get("castKind") != "LValueBitCast":
            bad(n, "expected reinterpret_cast<poly const&>(member)")
        if "poly<%s, " % self.cname not in n["type"]["qualType"]:
            bad(n, "reinterpret_cast to something else than poly")
        m = kids(n)[0]
        if m["kind"] != "MemberExpr" or kids(m)[0]["kind"] != "CXXThisExpr" or m["name"] not in ROW_MEMBERS:
            bad(m, "expected a table member of core")
        if not m["type"]["qualType"].endswith("value_type[%d][%d]" % (self.nm, self.deg)):
            bad(m, "member `%s` is not value_type[nmoduli][degree]" % m["name"])
        self.members.append(m["name"])
        return "(CSemEntry.flat2d nmoduli (fun cm => (T cm).%s))" % m["name"]

    def twist(self, st):
        src = self.text_of(st)
        n = strip(st, "wrap")
        if n["kind"] != "CXXOperatorCallExpr":
            bad(n, "expected op = <expr>")
        d = callee(n)
        if d.get("name") != "operator=" or "ops::expr<mulmod_shoup<%s, serial>, poly<" % self.cname not in d["type"]["qualType"]:
            bad(n, "operator= is not poly::operator=(ops::expr<mulmod_shoup<T, serial>, …> const&)")
        a = kids(n)
        declref(a[1], "op", "the parameter")
        sh = strip(a[2], "NoOp", "wrap")
        if sh["kind"] != "CallExpr" or callee(sh).get("name") != "shoup":
            bad(sh, "expected nfl::shoup(…)")
        sa = kids(sh)
        mul = strip(sa[1], "NoOp", "wrap")
        if mul["kind"] != "CXXOperatorCallExpr" or callee(mul).get("name") != "operator*":
            bad(mul, "expected op * table")
        ma = kids(mul)
        declref(strip(ma[1], "NoOp"), "op", "the parameter")
        f = self.member_as_poly(ma[2])
        gq = self.member_as_poly(sa[2])
        self.called.append("ExprAst.assign_shoup_serial_" + self.suf)
        self.lines += [
            "  -- nfl/core.hpp  %s" % src,
            "  let m : CSemExpr.Mem := [op, %s, %s]" % (f, gq),
            "  let m := ExprAst.assign_shoup_serial_%s degree nmoduli P Pn m 0 0 1 2" % self.suf,
            "  let op := CSemEntry.obj m 0",
        ]

    # ---- the loop over the moduli
    def size_var(self, n, name):
        n = strip(n, "LValueToRValue")
        declref(n, name, "the variable")

    def arg(self, n, cm):
        """one argument of core::ntt / core::inv_ntt -> list of Lean arguments"""
        n0 = strip(n, "NoOp")
        if n0["kind"] == "UnaryOperator" and n0.get("opcode") == "&":
            c = kids(n0)[0]
            if c["kind"] != "CXXOperatorCallExpr" or callee(c).get("name") != "operator()":
                bad(c, "expected &op(cm, 0)")
            a = kids(c)
            declref(a[1], "op", "the parameter")
            self.size_var(a[2], cm)
            z = strip(a[3], "IntegralCast")
            if z["kind"] != "IntegerLiteral" or z["value"] != "0":
                bad(z, "expected the literal 0")
            return ("x", "(ExprAst.poly_at degree nmoduli P Pn 0 %s (CSem.castSU 64 0)).2" % cm)
        if n0["kind"] == "CallExpr":
            if callee(n0).get("name") != "get_modulus":
                bad(n0, "unknown callee")
            self.size_var(kids(n0)[1], cm)
            return ("v", "(P %s)" % cm)
        n1 = strip(n0, "ArrayToPointerDecay", "LValueToRValue")
        if n1["kind"] != "ArraySubscriptExpr":
            bad(n1, "expected member[cm]")
        b, i = kids(n1)
        self.size_var(i, cm)
        m = strip(b, "ArrayToPointerDecay")
        if m["kind"] != "MemberExpr" or kids(m)[0]["kind"] != "CXXThisExpr":
            bad(m, "expected a member of core")
        name, ty = m["name"], m["type"]["qualType"]
        self.members.append(name)
        if name in PTR_MEMBERS and ty.endswith("value_type *[%d]" % self.nm):
            row, off = PTR_MEMBERS[name]
            return ("p", "(CSemEntry.suffix (T %s).%s (T %s).%s) 0" % (cm, row, cm, off))
        if name in ROW_MEMBERS and ty.endswith("value_type[%d][%d]" % (self.nm, 2 * self.deg)):
            return ("p", "(T %s).%s 0" % (cm, name))
        if name in SCALAR_MEMBERS and ty.endswith("value_type[%d]" % self.nm):
            return ("v", "(T %s).%s" % (cm, name))
        bad(m, "member `%s` of type %s is not handled" % (name, ty))

    def loop(self, st):
        if st["kind"] != "ForStmt":
            bad(st, "expected the loop over the moduli")
        init, _, cond, inc, body = [c if isinstance(c, dict) else {} for c in st["inner"]]
        vd = kids(init)[0]
        if init["kind"] != "DeclStmt" or vd["kind"] != "VarDecl" or vd["type"]["qualType"] != "size_t":
            bad(init, "expected size_t cm = 0")
        cm = vd["name"]
        z = strip(kids(vd)[0], "IntegralCast")
        if z["kind"] != "IntegerLiteral" or z["value"] != "0":
            bad(z, "expected the literal 0")
        if cond["kind"] != "BinaryOperator" or cond["opcode"] != "<":
            bad(cond, "expected cm < nmoduli")
        self.size_var(kids(cond)[0], cm)
        self.size_var(kids(cond)[1], "nmoduli")
        if inc["kind"] != "UnaryOperator" or inc["opcode"] != "++":
            bad(inc, "expected ++cm")
        declref(kids(inc)[0], cm, "the variable")
        bs = kids(body)
        if body["kind"] != "CompoundStmt" or len(bs) != 1 or bs[0]["kind"] != "CallExpr":
            bad(body, "expected one call in the loop body")
        call = bs[0]
        cal = callee(call).get("name")
        if cal not in CALLEES:
            bad(call, "unknown callee `%s`" % cal)
        args = [self.arg(a, cm) for a in kids(call)[1:]]
        if args[0][0] != "x" or any(a[0] == "x" for a in args[1:]):
            bad(call, "the first argument must be &op(cm,0), the others must not alias op")
        ptrs = [a[1] for a in args[1:] if a[0] == "p"]
        vals = [a[1] for a in args[1:] if a[0] == "v"]
        fn = "%s_%s" % (CALLEES[cal], self.suf)
        self.called.append(fn)
        if cal == "inv_ntt":
            self.junk = True      # generated signature: degree invK p y x x_o tabs…   (y: the uninitialised local array)
            if len(vals) != 2 or len(ptrs) != 2 or [a[0] for a in args] != ["x", "p", "p", "v", "v"]:
                bad(call, "unexpected argument list of inv_ntt")
            app = "%s degree %s %s (yinit %s) x 0 %s" % (fn, vals[0], vals[1], cm, " ".join(ptrs))
        else:
            if len(vals) != 1 or len(ptrs) != 2 or [a[0] for a in args] != ["x", "p", "p", "v"]:
                bad(call, "unexpected argument list of ntt")
            app = "%s degree %s x 0 %s" % (fn, vals[0], " ".join(ptrs))
        head = self.text_of(st).split("{")[0].strip()
        self.lines += [
            "  -- nfl/core.hpp  %s" % head,
            "  let op := CSemExpr.forSt (fun %s => CSem.ltU %s nmoduli) (fun %s => CSem.addU 64 %s 1) (fun op %s =>" % (cm, cm, cm, cm, cm),
            "      -- nfl/core.hpp  %s" % self.text_of(call),
            "      CSemEntry.callSlice op %s degree (fun x =>" % args[0][1],
            "        %s)) (2 ^ 64) 0 op" % app,
        ]

    def translate(self, decl, deg, nm):
        self.deg, self.nm = deg, nm
        ps = [c for c in kids(decl) if c["kind"] == "ParmVarDecl"]
        body = [c for c in kids(decl) if c["kind"] == "CompoundStmt"][0]
        if len(ps) != 1 or ps[0]["name"] != "op":
            bad(decl, "expected one parameter `op`")
        self.count(body)
        for st in kids(body):
            if st["kind"] == "ForStmt":
                self.loop(st)
            else:
                self.twist(st)
        return self

    def render(self):
        sig = "(degree nmoduli : Nat) (P Pn : Nat → Nat) (T : Nat → InitRow) %s(op : List Nat) : List Nat" % (
            "(yinit : Nat → List Nat) " if self.junk else "")
        doc = "/-- `nfl::poly<T, Degree, NbModuli>::core::%s(poly& op)`  (nfl/core.hpp), T = %s, serial build.  Result: the new `op._data`.%s -/" % (
            self.name, self.cname, "  `yinit cm`: contents of the uninitialised local array of the `cm`-th `inv_ntt` call." if self.junk else "")
        return "\n".join([doc, "def %s_%s %s :=" % (self.name, self.suf, sig)] + self.lines + ["  op"])


def make_tu():
    os.makedirs(g.BUILD, exist_ok=True)
    tu = os.path.join(g.BUILD, "entry_ast_tu.cpp")
    lines = ['#include "nfl.hpp"']
    for t, _, _ in TYPES:
        for d, m in SHAPES:
            for f in ("ntt_pow_phi", "invntt_pow_invphi"):
                lines.append("template void nfl::poly<%s, %d, %d>::core::%s(nfl::poly<%s, %d, %d>&);" % (t, d, m, f, t, d, m))
    open(tu, "w").write("\n".join(lines) + "\n")
    return tu


def find_decls(objs):
    out = {}

    def walk(n):
        if n.get("kind") == "CXXMethodDecl" and n.get("name") in ("ntt_pow_phi", "invntt_pow_invphi") and \
                any(c.get("kind") == "CompoundStmt" for c in kids(n)):
            out.setdefault((n["name"], n["type"]["qualType"]), n)
        for c in kids(n):
            walk(c)
    for o in objs:
        walk(o)
    return out


def main():
    repo = os.environ.get("VERIF_REPO", "/repo")
    out = OUT
    if "--repo" in sys.argv:
        repo = sys.argv[sys.argv.index("--repo") + 1]
    if "--out" in sys.argv:
        out = sys.argv[sys.argv.index("--out") + 1]
    repo = os.path.abspath(repo)
    src = open(os.path.join(repo, "include", "nfl", "core.hpp")).read()
    decls = find_decls(g.parse_objects(g.clang_ast(repo, make_tu())))
    try:
        texts, fns = {}, []
        for d, m in SHAPES:
            parts = []
            for _, cname, suf in TYPES:
                for name in ("ntt_pow_phi", "invntt_pow_invphi"):
                    key = (name, "void (nfl::poly<%s, %d, %d> &)" % (cname, d, m))
                    if key not in decls:
                        raise Unsupported("instantiation %s of %s not found in the AST" % (key[1], name))
                    f = Fn(name, suf, cname, src).translate(decls[key], d, m)
                    parts.append(f)
            texts[(d, m)] = "\n\n".join(f.render() for f in parts)
            if (d, m) == SHAPES[0]:
                fns = parts
        for s in SHAPES[1:]:
            if texts[s] != texts[SHAPES[0]]:
                raise Unsupported("the translation for poly<T,%d,%d> differs from that for poly<T,%d,%d>" % (s + SHAPES[0]))
        base = None
        for _, cname, suf in TYPES:
            t = "\n\n".join(f.render() for f in fns if f.suf == suf).replace("_" + suf, "_uW").replace(cname, "T")
            if base is None:
                base = t
            elif t != base:
                raise Unsupported("the %s instantiation has another structure than the %s one" % (suf, TYPES[0][2]))
    except Unsupported as e:
        msg = "gen_entry_ast: UNSUPPORTED C++ construct, nothing translated: %s" % e
        sys.stderr.write(msg + "\n")
        print(json.dumps({"ok": False, "err": msg}))
        sys.exit(3)
    head = [
        "-- GENERATED by tools/gen_entry_ast.py from clang++-14's typed AST of include/nfl/core.hpp (poly::core::ntt_pow_phi,",
        "-- poly::core::invntt_pow_invphi), instantiated for %s, T = uint32_t / uint64_t (all give the same text: checked on every run;" % (
            ", ".join("poly<T,%d,%d>" % s for s in SHAPES)),
        "-- `degree`, `nmoduli` are PARAMETERS), -DNFL_OPTIMIZED, serial build.  Do not edit.",
        "-- GLUE only: the assignment is the evaluator of Generated/ExprAst.lean, the transforms are those of Generated/NttLoopAst.lean, the",
        "-- tables `T cm` are the rows of Generated/InitAst.lean; pointer windows: Model/CSemEntry.lean.",
        "import NflVerif.Model.CSemEntry",
        "import NflVerif.Generated.InitAst",
        "import NflVerif.Generated.ExprAst",
        "import NflVerif.Generated.NttLoopAst",
        "namespace Nfl.Gen",
        "open Nfl",
        "set_option linter.unusedVariables false",
        "",
    ]
    text = "\n".join(head) + "\n" + texts[SHAPES[0]] + "\n\nend Nfl.Gen\n"
    changed = g.write_if_changed(out, text)
    print(json.dumps({
        "ok": True, "functions": ["%s_%s" % (f.name, f.suf) for f in fns], "nodes": sum(f.nodes for f in fns),
        "shapes_compared": ["poly<T,%d,%d>" % s for s in SHAPES], "called": sorted({c for f in fns for c in f.called}),
        "members": sorted({m for f in fns for m in f.members}),
        "sha": hashlib.sha256(text.encode()).hexdigest()[:16], "changed": changed, "out": os.path.relpath(out, g.VERIF), "repo": repo}))


if __name__ == "__main__":
    main()
