"""Shared stream logic of C09 and C12: harness/samplers.cpp (real code, scripted tape) -> Lean driver, plus
python cross-checks that evaluate the *statements* of the counting theorems on the real code's output over the
enumerated tape (labelled cross-check: they are not the proof, they tie the theorems' statements to the C++)."""
import math, os
from collections import Counter, defaultdict
import checklib as cl

C12_OPS = ("uni", "bnd", "zo", "hwt", "hwtw", "umask")


def parse_line(l):
    lhs, rhs = l.split(" =>")
    lt = lhs.split()
    return lt[0], [int(x) for x in lt[1:]], [int(x) for x in rhs.split()]


def parse_tape(a):
    nreq, pos, reqs = a[0], 1, []
    for _ in range(nreq):
        ln = a[pos]
        reqs.append(a[pos + 1:pos + 1 + ln])
        pos += 1 + ln
    return reqs


def words(req, wb):
    return [sum(b << (8 * k) for k, b in enumerate(req[i:i + wb])) for i in range(0, len(req) - wb + 1, wb)]


def enc(p, v):
    return v if v >= 0 else p - (-v)


def decode_all(rs, ps, bound):
    """the signed integer v, |v| <= bound, with rs[cm] = enc(ps[cm], v) for every modulus (None if there is none)"""
    r0, p0 = rs[0], ps[0]
    cands = ([r0] if r0 <= bound else []) + ([-(p0 - r0)] if r0 < p0 and 0 < p0 - r0 <= bound else [])
    for v in cands:
        if all(rs[cm] == enc(ps[cm], v) for cm in range(len(ps))):
            return v
    return None


def cross_checks(stdout, want):
    """returns (failures, stats). want: subset of {'canonical','uniform','bounded','zo','hwt'}"""
    P = {}
    fails, stats = [], Counter()
    uni = defaultdict(Counter)           # (w, cm) -> residue counts over the enumerated words
    uni_words = defaultdict(set)
    bnd = defaultdict(Counter)           # (B, A) -> signed value counts
    bnd_words = defaultdict(set)
    bnd_line = {}
    hwt = defaultdict(Counter)           # (w, n, nm, h) -> support counts
    hwt_tuples = defaultdict(set)
    hwt_line = {}
    uni_line = {}
    for l in stdout.splitlines():
        if l.startswith("# P "):
            t = l.split()
            P[int(t[2])] = [int(x) for x in t[3:]]
            continue
        if not l or l.startswith("#") or " =>" not in l:
            continue
        op = l.split(" ", 1)[0]
        if op not in ("uni", "bnd", "zo", "hwt", "gau", "cval", "clist", "cmpz"):
            continue
        op, a, out = parse_line(l)
        w, n, nm = a[0], a[1], a[2]
        ps = P[w][:nm]
        if out == [-1] or len(ps) < nm:
            continue
        if "canonical" in want and op in ("uni", "zo", "hwt"):
            stats["canonical-lines"] += 1
            for cm in range(nm):
                if any(x >= ps[cm] for x in out[cm * n:(cm + 1) * n]):
                    fails.append({"kind": "cross-check:canonical", "line": l, "what": "residue >= p (python re-evaluation)"})
                    break
        if op == "uni" and "uniform" in want and w == 16 and n == 256:
            req = parse_tape(a[4:])[0]
            ws = words(req, 2)
            for cm in range(nm):
                for i in range(n):
                    x = ws[cm * n + i]
                    uni[(w, cm)][out[cm * n + i]] += 1
                    uni_words[(w, cm)].add(x)
            uni_line.setdefault(w, l)
        if op == "bnd" and "bounded" in want and w == 16 and n == 256:
            B, A = a[4], a[5]
            if B >= 1 and A >= 1 and all(B < p and A * (B - 1) < p for p in ps):
                req = parse_tape(a[6:])[0]
                ws = words(req, 2)
                for i in range(n):
                    v = decode_all([out[cm * n + i] for cm in range(nm)], ps, A * (B - 1))
                    if v is None:
                        fails.append({"kind": "cross-check:bounded-support", "line": l, "what": "coefficient %d is not one integer of A*[-(B-1),B-1]" % i})
                        break
                    bnd[(B, A)][v] += 1
                    bnd_words[(B, A)].add(ws[i])
                bnd_line.setdefault((B, A), l)
        if op == "zo" and "zo" in want and n == 256:
            rho = a[4]
            req = parse_tape(a[5:])[0]
            if sorted(req) == list(range(256)):
                stats["zo-full-tables"] += 1
                p = ps[0]
                nz = sum(1 for x in out[:n] if x != 0)
                plus = sum(1 for x in out[:n] if x == 1)
                minus = sum(1 for x in out[:n] if x == p - 1)
                bad = []
                if nz != rho + 1 or plus + minus != nz: bad.append("#nonzero=%d, rho+1=%d" % (nz, rho + 1))
                if abs(plus - minus) > 2: bad.append("|#(+1)-#(-1)|=%d" % abs(plus - minus))
                if rho == 0x7F and plus != minus: bad.append("rho=0x7F not balanced (%d vs %d)" % (plus, minus))
                if bad:
                    fails.append({"kind": "cross-check:zo-counts", "line": l, "what": "; ".join(bad)})
        if op == "hwt" and "hwt" in want and n <= 8:
            h = a[4]
            reqs = parse_tape(a[5:])
            ws = [x for r in reqs[:-1] for x in words(r, 8)]
            idx, k = [], h
            for x in ws:
                if k >= n: break
                R = (2 ** 64 - 1) // (k + 1)
                if x < R * (k + 1):
                    idx.append(x % (k + 1)); k += 1
            key = (w, n, nm, h)
            t = tuple(idx)
            if t not in hwt_tuples[key]:
                hwt_tuples[key].add(t)
                hwt[key][tuple(i for i in range(n) if out[i] != 0)] += 1
            hwt_line.setdefault(key, l)
    # ---- evaluate the counting statements on what the real code produced
    if "uniform" in want:
        for (w, cm), cnt in sorted(uni.items()):
            p = P[w][cm]
            if len(uni_words[(w, cm)]) != 2 ** w:
                continue
            stats["uniform-full-enumerations"] += 1
            missing = [r for r in range(p) if cnt[r] == 0]
            mx, mn = max(cnt.values()), min(cnt[r] for r in range(p))
            if missing or mx > 2 * mn or any(r >= p for r in cnt):
                fails.append({"kind": "cross-check:uniform-preimages", "line": uni_line[w],
                              "what": "w=%d modulus %d (row %d): over ALL 2^%d words %d residues are never produced (e.g. %s); max count %d, min count %d" % (
                                  w, p, cm, w, len(missing), missing[:3], mx, mn)})
    if "bounded" in want:
        for (B, A), cnt in sorted(bnd.items()):
            if len(bnd_words[(B, A)]) != 2 ** 16:
                continue
            stats["bounded-full-enumerations"] += 1
            want_vals = set(A * j for j in range(-(B - 1), B))
            got = set(cnt)
            mx, mn = max(cnt.values()), min(cnt.values())
            if got != want_vals or mx > 2 * mn:
                fails.append({"kind": "cross-check:bounded-preimages", "line": bnd_line[(B, A)],
                              "what": "B=%d A=%d over ALL 2^16 words: missing values %s, extra values %s, max count %d, min count %d" % (
                                  B, A, sorted(want_vals - got)[:4], sorted(got - want_vals)[:4], mx, mn)})
    if "hwt" in want:
        for key, cnt in sorted(hwt.items()):
            w, n, nm, h = key
            total = math.factorial(n) // math.factorial(h)
            if len(hwt_tuples[key]) != total:
                continue       # not an exhaustive group
            stats["hwt-exhaustive-groups"] += 1
            each = math.factorial(n - h)
            nsub = math.comb(n, h)
            badsub = [s for s, c in cnt.items() if c != each or len(s) != h]
            if len(cnt) != nsub or badsub:
                import itertools
                missing = [s for s in itertools.combinations(range(n), h) if s not in cnt]
                fails.append({"kind": "cross-check:reservoir-uniform", "line": hwt_line[key],
                              "what": "n=%d h=%d over ALL %d reduced index tuples: %d of %d subsets occur, expected each %d times; never produced: %s; wrong counts: %s" % (
                                  n, h, total, len(cnt), nsub, each, missing[:3], [(s, cnt[s]) for s in badsub[:3]])})
    return fails, stats


CROSS_OPS = ("uni", "bnd", "zo", "hwt")     # what cross_checks reads (small-degree enumerations only)


def moduli_lines(exe, env_extra=None):
    """the '# P <w> <moduli…>' lines of the harness (run_stream drops comment lines before any filter sees them)"""
    import subprocess
    e = dict(os.environ)
    e.update(env_extra or {})
    e["SAMPLERS_PRINT_P"] = "1"
    try:
        r = subprocess.run([exe], env=e, capture_output=True, text=True, timeout=60)
        return [l for l in r.stdout.splitlines() if l.startswith("# P ")]
    except Exception:
        return []


def inflight_failures(err, label, ops=None, rename=None):
    """the harness died inside a creator (sanitizer report, assert of the library, signal): its death callback wrote
    `INFLIGHT <op> w n nm via params… script-(words64|bytes) <#units> <units…> served-requests …` = the input of the call
    that did not return.  That call is the failing input; the reason is the first report line of the sanitizer / assert."""
    out = []
    why = [l.strip() for l in err.splitlines() if "runtime error:" in l or "ERROR: AddressSanitizer" in l or "Assertion" in l
           or "ERROR: LeakSanitizer" in l or "ERROR: UndefinedBehaviorSanitizer" in l]
    for l in err.splitlines():
        if not l.startswith("INFLIGHT "):
            continue
        line = l[len("INFLIGHT "):]
        op = line.split(" ", 1)[0]
        if ops is not None and op not in ops and not (op == "hwt" and "hwtw" in ops):
            op_in_scope = False
        else:
            op_in_scope = True
        t = line.split()
        what = "the process died inside this call (%s); op w n nm via params…, then the scripted random tape" % (why[0][:300] if why else "no report line")
        if not op_in_scope:
            what += " [creator outside this property's op set: reported because the stream was cut short by it]"
        out.append({"kind": "runtime", "stream": label, "line": (line if len(line) < 4000 else line[:4000] + " …") + " => (no return)",
                    "what": what, "call": " ".join(t[:6])})
    return out


def run(ctx, res, ops=None, want=(), env_extra=None, rename=None):
    """rename: {op: op'} applied to the lines before they reach the driver (C09 judges the fixed-weight lines with
    ITS statement only: hwt -> hwt9, hwtw -> hwtw9; the position law belongs to C12)"""
    exes, errs = cl.build_harnesses([dict(name="samplers", backend="serial", with_prng=False)])
    for k, e in errs.items():
        ctx["problems"].append({"kind": "harness-build", "what": "samplers harness does not compile for %s" % (k,), "detail": e})
    extra = {}
    rename = rename or {}
    for (name, b), exe in sorted(exes.items()):
        kept = []

        def flt(l, kept=kept):
            op = l.split(" ", 1)[0]
            if ops is not None and op not in ops:
                return False
            if want and op in CROSS_OPS and len(l) < 100000:
                kept.append(l)
            if op in rename:
                return rename[op] + l[len(op):]
            return True

        h = cl.run_stream(res, "samplers/" + b, exe, env=env_extra, line_filter=flt, trivial=lambda lhs: False)
        if h is not None and h.returncode != 0:
            ctx.setdefault("failing_inputs", [])
            ctx["failing_inputs"] += inflight_failures(h.stderr, "samplers/" + b, ops, rename)
        if h is not None and want:
            plines = moduli_lines(exe, env_extra)
            if not plines:
                ctx["problems"].append({"kind": "cross-check", "what": "the harness did not print its moduli: python cross-checks not run"})
                continue
            fails, stats = cross_checks("\n".join(plines + kept), set(want))
            ctx.setdefault("failing_inputs", [])
            for f in fails[:10]:
                f["line"] = f["line"] if len(f["line"]) < 4000 else f["line"][:4000] + " …"
                ctx["failing_inputs"].append(f)
            extra["python_cross_checks(statements of the counting theorems evaluated on the real code's output)"] = dict(stats)
    return extra


def search(ctx, res, problems, ops=None, want=(), rename=None):
    found = []
    for s in range(2):
        r2 = cl.StreamResult()
        c2 = {"problems": [], "failing_inputs": []}
        run(c2, r2, ops=ops, want=want, env_extra={"VERIF_SEED": str(ctx["seed"] * 1000 + s + 7), "VERIF_TIER": "thorough"}, rename=rename)
        for sf in r2.specfail:
            found.append({"kind": "spec", **sf})
        found += c2["failing_inputs"]
        if found:
            break
    return found
