// Shared helpers for the correspondence harnesses.  Everything random derives from VERIF_SEED.
#pragma once
#include <cstdint>
#include <cstdio>
#include <cstdlib>
#include <cstring>
#include <string>
#include <vector>
#include <array>
#include <type_traits>

#ifndef BACKEND_NAME
#define BACKEND_NAME "serial"
#endif

namespace vh {

struct Rng {
  uint64_t s;
  explicit Rng(uint64_t seed) : s(seed * 0x9E3779B97F4A7C15ULL + 0x1234567ULL) {}
  uint64_t next() {  // splitmix64
    uint64_t z = (s += 0x9E3779B97F4A7C15ULL);
    z = (z ^ (z >> 30)) * 0xBF58476D1CE4E5B9ULL;
    z = (z ^ (z >> 27)) * 0x94D049BB133111EBULL;
    return z ^ (z >> 31);
  }
  uint64_t below(uint64_t n) { return n ? next() % n : 0; }
};

inline uint64_t env_u64(const char* name, uint64_t dflt) {
  const char* v = getenv(name);
  return v && *v ? strtoull(v, nullptr, 10) : dflt;
}
inline bool thorough() {
  const char* v = getenv("VERIF_TIER");
  return v && !strcmp(v, "thorough");
}

template <class T> constexpr int bits() { return 8 * sizeof(T); }

typedef unsigned __int128 u128;

inline void put_u128(FILE* f, u128 v) {
  char buf[48]; int n = 0;
  if (v == 0) { fputc('0', f); return; }
  while (v) { buf[n++] = '0' + (int)(v % 10); v /= 10; }
  while (n) fputc(buf[--n], f);
}

template <class T> inline void put(FILE* f, T v) { fprintf(f, " %llu", (unsigned long long)v); }

inline uint64_t powmod(uint64_t b, uint64_t e, uint64_t m) {
  u128 r = 1, x = b % m;
  while (e) { if (e & 1) r = r * x % m; x = x * x % m; e >>= 1; }
  return (uint64_t)r;
}
inline uint64_t invmod(uint64_t a, uint64_t p) { return powmod(a, p - 2, p); }

// rows to visit: quick = a spread including first/last; thorough = all
inline std::vector<size_t> rows_to_visit(size_t nrows, size_t quick_count, Rng& rng) {
  std::vector<size_t> r;
  if (thorough() || nrows <= quick_count) { for (size_t i = 0; i < nrows; i++) r.push_back(i); return r; }
  r.push_back(0); r.push_back(1); r.push_back(nrows - 1);
  while (r.size() < quick_count) r.push_back(rng.below(nrows));
  return r;
}

}  // namespace vh
