// C16 correspondence harness: raw serialiser / deserialiser through std::stringstream (every truncation point,
// polynomials back to back), operator<< text, cereal binary / portable-binary / JSON archives; nfl::poly and
// nfl::poly_p; built with ASan+UBSan; the plain object sits between two canary blocks.
//
//   ser      <w> <n> <m> <cls> <words…nm>                      => <bytes…>
//   deser    <w> <n> <m> <cls> <old…nm> <slen> <stream…slen>   => <fail> <gcount> <canary_ok> <words…nm> <rest…>
//   rt       <w> <n> <m> <cls> <words…nm> <old…nm>             => <fail> <words…nm>
//   deserseq <w> <n> <m> <cls> <cnt> <old…cnt*nm> <slen> <stream…> => (<fail> <gcount>)×cnt <words…cnt*nm> <rest…>
//   serseq   <w> <n> <m> <cls> <cnt> <words…cnt*nm>            => <bytes…>
//   text     <w> <n> <m> <cls> <words…nm>                      => <char codes…>
//   cereal   <arch> <w> <n> <m> <cls> <words…nm> <old…nm>      => <ok> <words…nm>          arch 0 binary 1 portable 2 JSON
//   cereal2  <arch> <w> <n> <m> <cls> <a…nm> <b…nm>            => <ok> <a'…nm> <b'…nm>     two objects, one archive
//   cerealtrunc <arch> <w> <n> <m> <cls> <cut> <total>         => <threw> <canary_ok>       archive bytes cut short
// cls: 0 = nfl::poly, 1 = nfl::poly_p
#include "common.hpp"
#include <nfl.hpp>
#include <sstream>
#include <memory>
#if __has_include(<cereal/archives/binary.hpp>)
#define HAVE_CEREAL 1
#include <cereal/archives/binary.hpp>
#include <cereal/archives/portable_binary.hpp>
#include <cereal/archives/json.hpp>
#else
#define HAVE_CEREAL 0
#endif

using namespace vh;

template <class T, size_t N, size_t M> struct S {
  using P = nfl::poly<T, N, M>;
  using PP = nfl::poly_p<T, N, M>;
  static constexpr size_t NM = N * M;
  static constexpr size_t B = sizeof(T);
  static constexpr int W = 8 * sizeof(T);
  Rng& g;
  explicit S(Rng& r) : g(r) {}

  // the plain object between canaries (poly_p objects live on the heap: ASan red zones)
  struct Guarded {
    alignas(32) unsigned char pre[32];
    P p;
    alignas(32) unsigned char post[32];
    Guarded() { memset(pre, 0xCC, 32); memset(post, 0xCC, 32); }
    int ok() const { for (int i = 0; i < 32; i++) if (pre[i] != 0xCC || post[i] != 0xCC) return 0; return 1; }
  };
  struct HolderP { std::unique_ptr<Guarded> gq{new Guarded}; P& obj() { return gq->p; } int ok() { return gq->ok(); } };
  struct HolderPP { PP pp; PP& obj() { return pp; } int ok() { return 1; } };
  template <class Obj> using Holder = typename std::conditional<std::is_same<Obj, P>::value, HolderP, HolderPP>::type;

  static void fill(P& p, std::vector<T> const& s) { for (size_t j = 0; j < NM; j++) p.begin()[j] = s[j]; }
  static void fill(PP& p, std::vector<T> const& s) { for (size_t j = 0; j < NM; j++) p(j / N, j % N) = s[j]; }
  static void dump(P const& p) { for (size_t j = 0; j < NM; j++) printf(" %llu", (unsigned long long)p.begin()[j]); }
  static void dump(PP const& p) { dump(p.poly_obj()); }
  static void dump(std::vector<T> const& s) { for (T x : s) printf(" %llu", (unsigned long long)x); }
  static void dump_bytes(std::string const& s) { for (unsigned char c : s) printf(" %u", (unsigned)c); }

  // polynomials: the format is a raw dump, so every word value matters
  std::vector<T> words(int pat) {
    std::vector<T> v(NM);
    for (size_t j = 0; j < NM; j++) {
      T p = P::get_modulus(j / N);
      switch (pat) {
        case 0: v[j] = (T)g.next(); break;                                        // any word, canonical or not
        case 1: v[j] = (T)g.below(p); break;                                      // canonical
        case 2: v[j] = 0; break;
        case 3: v[j] = (T)~(T)0; break;
        case 4: v[j] = (T)(0x0807060504030201ULL + 0x0808080808080808ULL * j); break;  // all bytes distinct: order visible
        case 5: v[j] = (j >= NM / 2) ? (T)(g.next() | 1) : 0; break;              // only the second half non-zero
        case 6: v[j] = (T)(p - 1); break;
        default: v[j] = (g.below(3) == 0) ? (T)g.below(10) : (T)g.next(); break;  // short and long decimal forms
      }
    }
    return v;
  }
  std::string raw_bytes(std::vector<T> const& v) {  // only used to build *input* streams (x86-64 memory image)
    return std::string(reinterpret_cast<const char*>(v.data()), v.size() * B);
  }
  std::string random_bytes(size_t k) { std::string s(k, 0); for (auto& c : s) c = (char)g.next(); return s; }

  template <class Obj> void ser(int cls, std::vector<T> const& v) {
    Holder<Obj> h; fill(h.obj(), v);
    std::stringstream ss(std::ios::in | std::ios::out | std::ios::binary);
    h.obj().serialize_manually(ss);
    printf("ser %d %zu %zu %d", W, N, M, cls); dump(v); printf(" =>"); dump_bytes(ss.str()); printf("\n");
  }
  template <class Obj> void deser(int cls, std::vector<T> const& old, std::string const& stream) {
    Holder<Obj> h; fill(h.obj(), old);
    std::stringstream ss(stream, std::ios::in | std::ios::out | std::ios::binary);
    h.obj().deserialize_manually(ss);
    int fail = ss.fail() ? 1 : 0;
    long long gc = (long long)ss.gcount();
    ss.clear();
    std::string rest((std::istreambuf_iterator<char>(ss)), std::istreambuf_iterator<char>());
    printf("deser %d %zu %zu %d", W, N, M, cls); dump(old); printf(" %zu", stream.size()); dump_bytes(stream);
    printf(" => %d %lld %d", fail, gc, h.ok()); dump(h.obj()); dump_bytes(rest); printf("\n");
  }
  template <class Obj> void rt(int cls, std::vector<T> const& v, std::vector<T> const& old) {
    Holder<Obj> a, b; fill(a.obj(), v); fill(b.obj(), old);
    std::stringstream ss(std::ios::in | std::ios::out | std::ios::binary);
    a.obj().serialize_manually(ss);
    b.obj().deserialize_manually(ss);
    printf("rt %d %zu %zu %d", W, N, M, cls); dump(v); dump(old);
    printf(" => %d", ss.fail() ? 1 : 0); dump(b.obj()); printf("\n");
  }
  bool few_cuts = false;
  template <class Obj> void seq(int cls, size_t cnt) {
    std::vector<std::vector<T>> vs, olds;
    for (size_t i = 0; i < cnt; i++) { vs.push_back(words((int)g.below(8))); olds.push_back(words(0)); }
    std::stringstream ss(std::ios::in | std::ios::out | std::ios::binary);
    for (auto& v : vs) { Holder<Obj> h; fill(h.obj(), v); h.obj().serialize_manually(ss); }
    std::string all = ss.str();
    printf("serseq %d %zu %zu %d %zu", W, N, M, cls, cnt); for (auto& v : vs) dump(v); printf(" =>"); dump_bytes(all); printf("\n");
    // read them back: whole stream (+ trailing bytes), and streams cut at a few places
    std::vector<size_t> cuts = {all.size(), all.size() + 3, NM * B, NM * B + 1, 2 * NM * B - 1, 0};
    for (int i = 0; i < (thorough() ? 12 : 3); i++) cuts.push_back(g.below(all.size()));
    if (few_cuts) cuts = {all.size(), all.size() - 7};
    for (size_t cut : cuts) {
      std::string st = cut <= all.size() ? all.substr(0, cut) : all + random_bytes(cut - all.size());
      std::stringstream in(st, std::ios::in | std::ios::out | std::ios::binary);
      std::vector<Holder<Obj>> hs(cnt);
      std::vector<int> fails; std::vector<long long> gcs;
      for (size_t i = 0; i < cnt; i++) {
        fill(hs[i].obj(), olds[i]);
        hs[i].obj().deserialize_manually(in);
        fails.push_back(in.fail() ? 1 : 0); gcs.push_back((long long)in.gcount());
      }
      in.clear();
      std::string rest((std::istreambuf_iterator<char>(in)), std::istreambuf_iterator<char>());
      printf("deserseq %d %zu %zu %d %zu", W, N, M, cls, cnt); for (auto& o : olds) dump(o);
      printf(" %zu", st.size()); dump_bytes(st); printf(" =>");
      for (size_t i = 0; i < cnt; i++) printf(" %d %lld", fails[i], gcs[i]);
      for (auto& h : hs) dump(h.obj());
      dump_bytes(rest); printf("\n");
    }
  }
  template <class Obj> void text(int cls, std::vector<T> const& v) {
    Holder<Obj> h; fill(h.obj(), v);
    std::ostringstream os;
    os << const_cast<Obj const&>(h.obj());
    printf("text %d %zu %zu %d", W, N, M, cls); dump(v); printf(" =>"); dump_bytes(os.str()); printf("\n");
  }

#if HAVE_CEREAL
  template <class OA, class IA, class Obj> void cereal_rt(int arch, int cls, std::vector<T> const& v, std::vector<T> const& old) {
    Holder<Obj> a, b; fill(a.obj(), v); fill(b.obj(), old);
    std::stringstream ss(std::ios::in | std::ios::out | std::ios::binary);
    int ok = 1;
    try {
      { OA oa(ss); oa(a.obj()); }
      { IA ia(ss); ia(b.obj()); }
    } catch (std::exception const&) { ok = 0; }
    printf("cereal %d %d %zu %zu %d", arch, W, N, M, cls); dump(v); dump(old);
    printf(" => %d", ok && a.ok() && b.ok()); dump(b.obj()); printf("\n");
  }
  template <class OA, class IA, class Obj> void cereal_two(int arch, int cls, std::vector<T> const& v1, std::vector<T> const& v2) {
    Holder<Obj> a1, a2, b1, b2; fill(a1.obj(), v1); fill(a2.obj(), v2); fill(b1.obj(), words(0)); fill(b2.obj(), words(0));
    std::stringstream ss(std::ios::in | std::ios::out | std::ios::binary);
    int ok = 1;
    try {
      { OA oa(ss); oa(a1.obj(), a2.obj()); }
      { IA ia(ss); ia(b1.obj(), b2.obj()); }
    } catch (std::exception const&) { ok = 0; }
    printf("cereal2 %d %d %zu %zu %d", arch, W, N, M, cls); dump(v1); dump(v2);
    printf(" => %d", ok); dump(b1.obj()); dump(b2.obj()); printf("\n");
  }
  template <class OA, class IA, class Obj> void cereal_trunc(int arch, int cls, std::vector<T> const& v) {
    Holder<Obj> a; fill(a.obj(), v);
    std::stringstream ss(std::ios::in | std::ios::out | std::ios::binary);
    { OA oa(ss); oa(a.obj()); }
    std::string all = ss.str();
    std::vector<size_t> cuts = {0, 1, all.size() - 1, all.size() / 2, all.size()};
    for (int i = 0; i < (thorough() ? 8 : 2); i++) cuts.push_back(g.below(all.size()));
    for (size_t cut : cuts) {
      Holder<Obj> b; fill(b.obj(), words(0));
      std::stringstream in(all.substr(0, cut), std::ios::in | std::ios::out | std::ios::binary);
      int threw = 0;
      try { IA ia(in); ia(b.obj()); } catch (std::exception const&) { threw = 1; }
      printf("cerealtrunc %d %d %zu %zu %d %zu %zu => %d %d\n", arch, W, N, M, cls, cut, all.size(), threw, b.ok());
    }
  }
  template <class Obj> void all_cereal(int cls) {
    for (int pat = 0; pat < 8; pat++) {
      auto v = words(pat), o = words(0);
      cereal_rt<cereal::BinaryOutputArchive, cereal::BinaryInputArchive, Obj>(0, cls, v, o);
      cereal_rt<cereal::PortableBinaryOutputArchive, cereal::PortableBinaryInputArchive, Obj>(1, cls, v, o);
      cereal_rt<cereal::JSONOutputArchive, cereal::JSONInputArchive, Obj>(2, cls, v, o);
    }
    for (int i = 0; i < 3; i++) {
      auto v1 = words((int)g.below(8)), v2 = words((int)g.below(8));
      cereal_two<cereal::BinaryOutputArchive, cereal::BinaryInputArchive, Obj>(0, cls, v1, v2);
      cereal_two<cereal::PortableBinaryOutputArchive, cereal::PortableBinaryInputArchive, Obj>(1, cls, v1, v2);
      cereal_two<cereal::JSONOutputArchive, cereal::JSONInputArchive, Obj>(2, cls, v1, v2);
    }
    cereal_trunc<cereal::BinaryOutputArchive, cereal::BinaryInputArchive, Obj>(0, cls, words(0));
    cereal_trunc<cereal::PortableBinaryOutputArchive, cereal::PortableBinaryInputArchive, Obj>(1, cls, words(0));
  }
#endif

  template <class Obj> void all_for(int cls) {
    int reps = thorough() ? 6 : 2;
    for (int pat = 0; pat < 8; pat++)
      for (int r = 0; r < ((pat == 0 || pat == 1 || pat == 7) ? reps : 1); r++) {
        auto v = words(pat);
        ser<Obj>(cls, v);
        rt<Obj>(cls, v, words(0));
        text<Obj>(cls, v);
      }
    // every truncation point 0 … nm*B-1, the exact length, and longer streams
    for (int r = 0; r < (thorough() ? 3 : 1); r++) {
      std::vector<T> v = words(r == 0 ? 4 : 0), old = words(r == 0 ? 3 : 0);
      std::string img = raw_bytes(v);
      for (size_t cut = 0; cut <= NM * B; cut++) deser<Obj>(cls, old, img.substr(0, cut));
      deser<Obj>(cls, old, img + random_bytes(1));
      deser<Obj>(cls, old, img + random_bytes(NM * B + 5));
      deser<Obj>(cls, words(0), random_bytes(NM * B));   // arbitrary bytes, not produced by the serialiser
    }
    seq<Obj>(cls, 3);
    if (thorough()) seq<Obj>(cls, 5);
#if HAVE_CEREAL
    all_cereal<Obj>(cls);
#endif
  }
  void all() { all_for<P>(0); all_for<PP>(1); }
  // large objects (beyond any internal block size a chunked reader/writer might use, and not a multiple of it):
  // round trip, two objects back to back with cuts, a stream cut just before the end
  void big() {
    few_cuts = true;
    rt<P>(0, words(0), words(1));
    rt<PP>(1, words(1), words(0));
    seq<P>(0, 2);
    { auto v = words(0); deser<PP>(1, words(1), raw_bytes(v).substr(0, NM * B - 5)); }
  }
};

#ifndef CFG
#define CFG -1
#endif
int main() {
  Rng g(env_u64("VERIF_SEED", 1) * 104729 + 16 + 1000003 * (CFG + 1));
  printf("# cereal %d\n", HAVE_CEREAL);
  if (CFG == 0 || CFG == -1) S<uint16_t, 8, 2>(g).all();
  if (CFG == 1 || CFG == -1) { S<uint32_t, 4, 3>(g).all(); S<uint32_t, 4, 1>(g).all(); }
  if (CFG == 2 || CFG == -1) { S<uint64_t, 4, 2>(g).all(); S<uint16_t, 4, 1>(g).all(); }
  if (CFG == 2 || CFG == -1) { S<uint64_t, 4096, 3>(g).big(); }
  if ((CFG == 3 || CFG == -1) && thorough()) { S<uint64_t, 8, 4>(g).all(); S<uint32_t, 16, 2>(g).all(); }
  return 0;
}
