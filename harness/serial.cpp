// C16 correspondence harness: raw serialiser / deserialiser through std::stringstream (every truncation point,
// polynomials back to back), operator<< text, cereal binary / portable-binary / JSON archives; nfl::poly and
// nfl::poly_p; built with ASan+UBSan; the plain object sits between two canary blocks.
//
//   ser      <w> <n> <m> <cls> <words…nm>                      => <bytes…>
//   deser    <w> <n> <m> <cls> <old…nm> <slen> <stream…slen>   => <fail> <gcount> <canary_ok> <words…nm> <rest…>
//   rt       <w> <n> <m> <cls> <words…nm> <old…nm>             => <fail> <words…nm>
//   deserseq <w> <n> <m> <cls> <cnt> <old…cnt*nm> <slen> <stream…> => (<fail> <gcount>)×cnt <words…cnt*nm> <rest…>
//   serseq   <w> <n> <m> <cls> <cnt> <words…cnt*nm>            => <bytes…>
//   text     <w> <n> <m> <cls> <words…nm>                      => <char codes…>
//   cereal   <arch> <w> <n> <m> <cls> <words…nm> <old…nm>      => <ok> <words…nm>          arch 0 binary 1 portable 2 JSON
//   cereal2  <arch> <w> <n> <m> <cls> <a…nm> <b…nm>            => <ok> <a'…nm> <b'…nm>     two objects, one archive
//   cerealtrunc <arch> <w> <n> <m> <cls> <cut> <total>         => <threw> <canary_ok>       archive bytes cut short
//   hist     <mode> <w> <n> <m> <cls> <K> <imode> <src…K> <init…K*nm> <ns> (<code> <a> <b> <x>)×ns
//                                                             => (<r1> <r2> <all K variables…K*nm>)×ns [mode 0: <total> <bytes…>]
//            a history of statements over K variables and ONE stream; the receiving object of a read has a past: old
//            contents, written before, and (poly_p) storage shared with other handles - src j = copy of variable j,
//            imode 1/3 = std::vector<poly_p>(k, prototype).  mode 0 raw, 1..3 cereal binary/portable/JSON.
//            steps: 0 write a | 1 read a | 2 copy a <- b | 3 a[b] = x.  r1 r2: bytes appended 0 | fail gcount.
//            After EVERY statement the contents of ALL variables are printed (read through const&).
// cls: 0 = nfl::poly, 1 = nfl::poly_p
#include "common.hpp"
#include <nfl.hpp>
#include <sstream>
#include <memory>
#include <functional>
#if __has_include(<cereal/archives/binary.hpp>)
#define HAVE_CEREAL 1
#include <cereal/archives/binary.hpp>
#include <cereal/archives/portable_binary.hpp>
#include <cereal/archives/json.hpp>
#else
#define HAVE_CEREAL 0
#endif

using namespace vh;

template <class T, size_t N, size_t M> struct S {
  using P = nfl::poly<T, N, M>;
  using PP = nfl::poly_p<T, N, M>;
  static constexpr size_t NM = N * M;
  static constexpr size_t B = sizeof(T);
  static constexpr int W = 8 * sizeof(T);
  Rng& g;
  explicit S(Rng& r) : g(r) {}

  // the plain object between canaries (poly_p objects live on the heap: ASan red zones)
  struct Guarded {
    alignas(32) unsigned char pre[32];
    P p;
    alignas(32) unsigned char post[32];
    Guarded() { memset(pre, 0xCC, 32); memset(post, 0xCC, 32); }
    int ok() const { for (int i = 0; i < 32; i++) if (pre[i] != 0xCC || post[i] != 0xCC) return 0; return 1; }
  };
  struct HolderP { std::unique_ptr<Guarded> gq{new Guarded}; P& obj() { return gq->p; } int ok() { return gq->ok(); } };
  struct HolderPP { PP pp; PP& obj() { return pp; } int ok() { return 1; } };
  template <class Obj> using Holder = typename std::conditional<std::is_same<Obj, P>::value, HolderP, HolderPP>::type;

  static void fill(P& p, std::vector<T> const& s) { for (size_t j = 0; j < NM; j++) p.begin()[j] = s[j]; }
  static void fill(PP& p, std::vector<T> const& s) { for (size_t j = 0; j < NM; j++) p(j / N, j % N) = s[j]; }
  static void dump(P const& p) { for (size_t j = 0; j < NM; j++) printf(" %llu", (unsigned long long)p.begin()[j]); }
  static void dump(PP const& p) { dump(p.poly_obj()); }
  static void dump(std::vector<T> const& s) { for (T x : s) printf(" %llu", (unsigned long long)x); }
  static void dump_bytes(std::string const& s) { for (unsigned char c : s) printf(" %u", (unsigned)c); }

  // polynomials: the format is a raw dump, so every word value matters
  std::vector<T> words(int pat) {
    std::vector<T> v(NM);
    for (size_t j = 0; j < NM; j++) {
      T p = P::get_modulus(j / N);
      switch (pat) {
        case 0: v[j] = (T)g.next(); break;                                        // any word, canonical or not
        case 1: v[j] = (T)g.below(p); break;                                      // canonical
        case 2: v[j] = 0; break;
        case 3: v[j] = (T)~(T)0; break;
        case 4: v[j] = (T)(0x0807060504030201ULL + 0x0808080808080808ULL * j); break;  // all bytes distinct: order visible
        case 5: v[j] = (j >= NM / 2) ? (T)(g.next() | 1) : 0; break;              // only the second half non-zero
        case 6: v[j] = (T)(p - 1); break;
        default: v[j] = (g.below(3) == 0) ? (T)g.below(10) : (T)g.next(); break;  // short and long decimal forms
      }
    }
    return v;
  }
  std::string raw_bytes(std::vector<T> const& v) {  // only used to build *input* streams (x86-64 memory image)
    return std::string(reinterpret_cast<const char*>(v.data()), v.size() * B);
  }
  std::string random_bytes(size_t k) { std::string s(k, 0); for (auto& c : s) c = (char)g.next(); return s; }

  template <class Obj> void ser(int cls, std::vector<T> const& v) {
    Holder<Obj> h; fill(h.obj(), v);
    std::stringstream ss(std::ios::in | std::ios::out | std::ios::binary);
    h.obj().serialize_manually(ss);
    printf("ser %d %zu %zu %d", W, N, M, cls); dump(v); printf(" =>"); dump_bytes(ss.str()); printf("\n");
  }
  template <class Obj> void deser(int cls, std::vector<T> const& old, std::string const& stream) {
    Holder<Obj> h; fill(h.obj(), old);
    std::stringstream ss(stream, std::ios::in | std::ios::out | std::ios::binary);
    h.obj().deserialize_manually(ss);
    int fail = ss.fail() ? 1 : 0;
    long long gc = (long long)ss.gcount();
    ss.clear();
    std::string rest((std::istreambuf_iterator<char>(ss)), std::istreambuf_iterator<char>());
    printf("deser %d %zu %zu %d", W, N, M, cls); dump(old); printf(" %zu", stream.size()); dump_bytes(stream);
    printf(" => %d %lld %d", fail, gc, h.ok()); dump(h.obj()); dump_bytes(rest); printf("\n");
  }
  template <class Obj> void rt(int cls, std::vector<T> const& v, std::vector<T> const& old) {
    Holder<Obj> a, b; fill(a.obj(), v); fill(b.obj(), old);
    std::stringstream ss(std::ios::in | std::ios::out | std::ios::binary);
    a.obj().serialize_manually(ss);
    b.obj().deserialize_manually(ss);
    printf("rt %d %zu %zu %d", W, N, M, cls); dump(v); dump(old);
    printf(" => %d", ss.fail() ? 1 : 0); dump(b.obj()); printf("\n");
  }
  bool few_cuts = false;
  template <class Obj> void seq(int cls, size_t cnt) {
    std::vector<std::vector<T>> vs, olds;
    for (size_t i = 0; i < cnt; i++) { vs.push_back(words((int)g.below(8))); olds.push_back(words(0)); }
    std::stringstream ss(std::ios::in | std::ios::out | std::ios::binary);
    for (auto& v : vs) { Holder<Obj> h; fill(h.obj(), v); h.obj().serialize_manually(ss); }
    std::string all = ss.str();
    printf("serseq %d %zu %zu %d %zu", W, N, M, cls, cnt); for (auto& v : vs) dump(v); printf(" =>"); dump_bytes(all); printf("\n");
    // read them back: whole stream (+ trailing bytes), and streams cut at a few places
    std::vector<size_t> cuts = {all.size(), all.size() + 3, NM * B, NM * B + 1, 2 * NM * B - 1, 0};
    for (int i = 0; i < (thorough() ? 12 : 3); i++) cuts.push_back(g.below(all.size()));
    if (few_cuts) cuts = {all.size(), all.size() - 7};
    for (size_t cut : cuts) {
      std::string st = cut <= all.size() ? all.substr(0, cut) : all + random_bytes(cut - all.size());
      std::stringstream in(st, std::ios::in | std::ios::out | std::ios::binary);
      std::vector<Holder<Obj>> hs(cnt);
      std::vector<int> fails; std::vector<long long> gcs;
      for (size_t i = 0; i < cnt; i++) {
        fill(hs[i].obj(), olds[i]);
        hs[i].obj().deserialize_manually(in);
        fails.push_back(in.fail() ? 1 : 0); gcs.push_back((long long)in.gcount());
      }
      in.clear();
      std::string rest((std::istreambuf_iterator<char>(in)), std::istreambuf_iterator<char>());
      printf("deserseq %d %zu %zu %d %zu", W, N, M, cls, cnt); for (auto& o : olds) dump(o);
      printf(" %zu", st.size()); dump_bytes(st); printf(" =>");
      for (size_t i = 0; i < cnt; i++) printf(" %d %lld", fails[i], gcs[i]);
      for (auto& h : hs) dump(h.obj());
      dump_bytes(rest); printf("\n");
    }
  }
  template <class Obj> void text(int cls, std::vector<T> const& v) {
    Holder<Obj> h; fill(h.obj(), v);
    std::ostringstream os;
    os << const_cast<Obj const&>(h.obj());
    printf("text %d %zu %zu %d", W, N, M, cls); dump(v); printf(" =>"); dump_bytes(os.str()); printf("\n");
  }

#if HAVE_CEREAL
  template <class OA, class IA, class Obj> void cereal_rt(int arch, int cls, std::vector<T> const& v, std::vector<T> const& old) {
    Holder<Obj> a, b; fill(a.obj(), v); fill(b.obj(), old);
    std::stringstream ss(std::ios::in | std::ios::out | std::ios::binary);
    int ok = 1;
    try {
      { OA oa(ss); oa(a.obj()); }
      { IA ia(ss); ia(b.obj()); }
    } catch (std::exception const&) { ok = 0; }
    printf("cereal %d %d %zu %zu %d", arch, W, N, M, cls); dump(v); dump(old);
    printf(" => %d", ok && a.ok() && b.ok()); dump(b.obj()); printf("\n");
  }
  template <class OA, class IA, class Obj> void cereal_two(int arch, int cls, std::vector<T> const& v1, std::vector<T> const& v2) {
    Holder<Obj> a1, a2, b1, b2; fill(a1.obj(), v1); fill(a2.obj(), v2); fill(b1.obj(), words(0)); fill(b2.obj(), words(0));
    std::stringstream ss(std::ios::in | std::ios::out | std::ios::binary);
    int ok = 1;
    try {
      { OA oa(ss); oa(a1.obj(), a2.obj()); }
      { IA ia(ss); ia(b1.obj(), b2.obj()); }
    } catch (std::exception const&) { ok = 0; }
    printf("cereal2 %d %d %zu %zu %d", arch, W, N, M, cls); dump(v1); dump(v2);
    printf(" => %d", ok); dump(b1.obj()); dump(b2.obj()); printf("\n");
  }
  template <class OA, class IA, class Obj> void cereal_trunc(int arch, int cls, std::vector<T> const& v) {
    Holder<Obj> a; fill(a.obj(), v);
    std::stringstream ss(std::ios::in | std::ios::out | std::ios::binary);
    { OA oa(ss); oa(a.obj()); }
    std::string all = ss.str();
    std::vector<size_t> cuts = {0, 1, all.size() - 1, all.size() / 2, all.size()};
    for (int i = 0; i < (thorough() ? 8 : 2); i++) cuts.push_back(g.below(all.size()));
    for (size_t cut : cuts) {
      Holder<Obj> b; fill(b.obj(), words(0));
      std::stringstream in(all.substr(0, cut), std::ios::in | std::ios::out | std::ios::binary);
      int threw = 0;
      try { IA ia(in); ia(b.obj()); } catch (std::exception const&) { threw = 1; }
      printf("cerealtrunc %d %d %zu %zu %d %zu %zu => %d %d\n", arch, W, N, M, cls, cut, all.size(), threw, b.ok());
    }
  }
  template <class Obj> void all_cereal(int cls) {
    for (int pat = 0; pat < 8; pat++) {
      auto v = words(pat), o = words(0);
      cereal_rt<cereal::BinaryOutputArchive, cereal::BinaryInputArchive, Obj>(0, cls, v, o);
      cereal_rt<cereal::PortableBinaryOutputArchive, cereal::PortableBinaryInputArchive, Obj>(1, cls, v, o);
      cereal_rt<cereal::JSONOutputArchive, cereal::JSONInputArchive, Obj>(2, cls, v, o);
    }
    for (int i = 0; i < 3; i++) {
      auto v1 = words((int)g.below(8)), v2 = words((int)g.below(8));
      cereal_two<cereal::BinaryOutputArchive, cereal::BinaryInputArchive, Obj>(0, cls, v1, v2);
      cereal_two<cereal::PortableBinaryOutputArchive, cereal::PortableBinaryInputArchive, Obj>(1, cls, v1, v2);
      cereal_two<cereal::JSONOutputArchive, cereal::JSONInputArchive, Obj>(2, cls, v1, v2);
    }
    cereal_trunc<cereal::BinaryOutputArchive, cereal::BinaryInputArchive, Obj>(0, cls, words(0));
    cereal_trunc<cereal::PortableBinaryOutputArchive, cereal::PortableBinaryInputArchive, Obj>(1, cls, words(0));
  }
#endif

  // ---- histories over several variables and one stream: the receiving object has a past -------------------------
  // (old contents, written before, and - poly_p - storage shared with 1..k other handles, copies of a prototype)
  struct HSt { int code; size_t a, b; unsigned long long x; };
  struct Hist {
    size_t K = 0, Kv = 0;          // variables; the first Kv are made by std::vector<PP>(Kv, prototype) when imode is 1 / 3
    int imode = 0;                 // 0 copy constructors, 2 copy assignments, 1 vector(Kv, temporary prototype), 3 vector(Kv, prototype kept alive)
    std::vector<int> src;          // -1 independently constructed, j < i copy of variable j
    std::vector<std::vector<T>> init;
    std::vector<HSt> prog;
  };
  using PutFn = std::function<long long(int, void*)>;                    // bytes appended (raw) / 0
  using GetFn = std::function<std::pair<int, long long>(int, void*)>;    // (failed, gcount)

  static P& at(std::vector<HolderP>& v, size_t i) { return v[i].obj(); }
  static PP& at(std::vector<PP>& v, size_t i) { return v[i]; }
  static void build(Hist const& h, std::vector<HolderP>& v) {
    v = std::vector<HolderP>(h.K);
    for (size_t i = 0; i < h.K; i++) fill(v[i].obj(), h.init[i]);
  }
  static void build(Hist const& h, std::vector<PP>& v, std::unique_ptr<PP>& keep) {
    size_t first = 0;
    if (h.imode == 1 || h.imode == 3) {
      std::unique_ptr<PP> proto(new PP);                       // PP() when the initial value is zero: nothing is ever written to it
      bool zero = true; for (T x : h.init[0]) zero = zero && x == 0;
      if (!zero) fill(*proto, h.init[0]);
      v = std::vector<PP>(h.Kv, static_cast<PP const&>(*proto));
      if (h.imode == 3) keep = std::move(proto);
      first = h.Kv;
    }
    v.reserve(h.K);
    for (size_t i = first; i < h.K; i++) {
      if (h.src[i] < 0) { v.emplace_back(); bool zero = true; for (T x : h.init[i]) zero = zero && x == 0; if (!zero) fill(v[i], h.init[i]); }
      else if (h.imode == 2) { v.emplace_back(); v[i] = static_cast<PP const&>(v[h.src[i]]); }
      else if ((i & 1) == 0) { PP const& s = v[h.src[i]]; v.emplace_back(s); }   // poly_p(poly_p const&)
      else { PP& s = v[h.src[i]]; v.emplace_back(s); }                           // poly_p(poly_p&)
    }
  }
  static void copy_var(P& d, P& s) { d = s; }
  static void copy_var(PP& d, PP& s) { d = static_cast<PP const&>(s); }
  static int all_ok(std::vector<HolderP>& v) { int ok = 1; for (auto& h : v) ok = ok && h.ok(); return ok; }
  static int all_ok(std::vector<PP>&) { return 1; }

  template <class Obj, class Vars> void hist_run(int mode, int cls, Hist const& h, Vars& vars, PutFn const& put, GetFn const& get,
                                                 std::function<std::string()> const& written) {
    printf("hist %d %d %zu %zu %d %zu %d", mode, W, N, M, cls, h.K, h.imode);
    for (int s : h.src) printf(" %d", s);
    for (auto& v : h.init) dump(v);
    printf(" %zu", h.prog.size());
    for (auto& s : h.prog) printf(" %d %zu %zu %llu", s.code, s.a, s.b, s.x);
    printf(" =>");
    for (auto& s : h.prog) {
      long long r1 = 0, r2 = 0;
      switch (s.code) {
        case 0: r1 = put(cls, &at(vars, s.a)); break;
        case 1: { auto r = get(cls, &at(vars, s.a)); r1 = r.first; r2 = r.second; } break;
        case 2: copy_var(at(vars, s.a), at(vars, s.b)); break;
        default: at(vars, s.a)(s.b / N, s.b % N) = (T)s.x; break;
      }
      if (!all_ok(vars)) r1 = 99;   // a canary next to a plain object was overwritten
      printf(" %lld %lld", r1, r2);
      for (size_t i = 0; i < h.K; i++) { Obj const& c = at(vars, i); dump(c); }   // read through const&: no un-sharing
    }
    if (mode == 0) { std::string all = written(); printf(" %zu", all.size()); dump_bytes(all); }
    printf("\n");
  }
  template <class Obj> void hist_exec(int mode, int cls, Hist const& h, PutFn const& put, GetFn const& get,
                                      std::function<std::string()> const& written) {
    if constexpr (std::is_same<Obj, P>::value) {
      std::vector<HolderP> vars; build(h, vars);
      hist_run<P>(mode, cls, h, vars, put, get, written);
    } else {
      std::vector<PP> vars; std::unique_ptr<PP> keep; build(h, vars, keep);
      hist_run<PP>(mode, cls, h, vars, put, get, written);
    }
  }
  // the channels
  template <class Obj> void hist_raw(int cls, Hist const& h) {
    std::stringstream ss(std::ios::in | std::ios::out | std::ios::binary);
    PutFn put = [&](int, void* o) { size_t b = ss.str().size(); static_cast<Obj*>(o)->serialize_manually(ss); return (long long)(ss.str().size() - b); };
    GetFn get = [&](int, void* o) { static_cast<Obj*>(o)->deserialize_manually(ss); return std::make_pair(ss.fail() ? 1 : 0, (long long)ss.gcount()); };
    hist_exec<Obj>(0, cls, h, put, get, [&] { return ss.str(); });
  }
#if HAVE_CEREAL
  template <class OA, class IA, class Obj> void hist_cereal(int arch, int cls, Hist const& h) {
    std::stringstream ss(std::ios::in | std::ios::out | std::ios::binary);
    std::unique_ptr<OA> oa; std::unique_ptr<IA> ia;
    PutFn put = [&](int, void* o) { if (!oa) oa.reset(new OA(ss)); (*oa)(*static_cast<Obj*>(o)); return 0LL; };
    GetFn get = [&](int, void* o) {
      oa.reset();                                   // closes the output archive (JSON: writes the closing brace)
      int failed = 0;
      try { if (!ia) ia.reset(new IA(ss)); (*ia)(*static_cast<Obj*>(o)); } catch (std::exception const&) { failed = 1; }
      return std::make_pair(failed, 0LL);
    };
    hist_exec<Obj>(1 + arch, cls, h, put, get, [] { return std::string(); });
  }
#endif

  // history generators.  two_phase: all writes before the first read (what an archive pair needs)
  void hist_vars(Hist& h, size_t K) {
    h.K = K; h.src.assign(K, -1); h.init.clear();
    for (size_t i = 0; i < K; i++) h.init.push_back(words((int)g.below(8)));
  }
  void hist_share(Hist& h, size_t i, size_t j) { h.src[i] = (int)j; h.init[i] = h.init[j]; }
  HSt rnd_side_step(Hist const& h) {   // copy or element store
    if (g.below(2)) return HSt{2, (size_t)g.below(h.K), (size_t)g.below(h.K), 0};
    return HSt{3, (size_t)g.below(h.K), (size_t)g.below(NM), (unsigned long long)(T)g.next()};
  }
  // kind 0: kv receivers made as a vector of copies of one prototype + kv independent sources; the sources are written,
  //         then read back to back into the receivers (raw: also alternating write/read)
  Hist hist_vector(bool two_phase) {
    Hist h; size_t kv = 1 + g.below(4);
    hist_vars(h, 2 * kv); h.Kv = kv; h.imode = g.below(2) ? 1 : 3;
    if (g.below(2)) h.init[0] = words(2);   // std::vector<poly_p>(k, poly_p())
    for (size_t i = 1; i < kv; i++) hist_share(h, i, 0);
    bool alternate = !two_phase && g.below(2);
    if (alternate) for (size_t i = 0; i < kv; i++) { h.prog.push_back(HSt{0, kv + i, 0, 0}); h.prog.push_back(HSt{1, i, 0, 0}); }
    else { for (size_t i = 0; i < kv; i++) h.prog.push_back(HSt{0, kv + i, 0, 0}); for (size_t i = 0; i < kv; i++) h.prog.push_back(HSt{1, i, 0, 0}); }
    return h;
  }
  // kind 1: a prototype with contents, k copies of it (constructors or assignments), one source: read into one of the
  //         sharers (possibly the prototype itself), then into another
  Hist hist_copies() {
    Hist h; size_t k = 1 + g.below(4);
    hist_vars(h, k + 2); h.imode = g.below(2) ? 0 : 2;
    for (size_t i = 1; i <= k; i++) hist_share(h, i, g.below(2) ? 0 : i - 1);
    size_t s = k + 1;
    h.prog.push_back(HSt{0, s, 0, 0});
    h.prog.push_back(HSt{3, s, (size_t)g.below(NM), (unsigned long long)(T)g.next()});
    h.prog.push_back(HSt{0, s, 0, 0});
    h.prog.push_back(HSt{1, (size_t)g.below(k + 1), 0, 0});
    h.prog.push_back(HSt{1, (size_t)g.below(k + 1), 0, 0});
    return h;
  }
  // kind 2: writing handles that share storage (no variable may change), then reading the images into the same group
  Hist hist_write_shared() {
    Hist h; size_t k = 2 + g.below(3);
    hist_vars(h, k); h.imode = g.below(2) ? 0 : 2;
    for (size_t i = 1; i < k; i++) hist_share(h, i, g.below(i));
    size_t a = g.below(k), b = g.below(k);
    h.prog.push_back(HSt{0, a, 0, 0});
    h.prog.push_back(HSt{3, b, (size_t)g.below(NM), (unsigned long long)(T)g.next()});
    h.prog.push_back(HSt{0, b, 0, 0});
    h.prog.push_back(HSt{0, a, 0, 0});
    for (int i = 0; i < 3; i++) h.prog.push_back(HSt{1, (size_t)g.below(k), 0, 0});
    return h;
  }
  // kind 3: random sharing forest, random statements
  Hist hist_random(bool two_phase) {
    Hist h; size_t k = 1 + g.below(5);
    hist_vars(h, k); h.imode = g.below(2) ? 0 : 2;
    for (size_t i = 1; i < k; i++) if (g.below(3)) hist_share(h, i, g.below(i));
    size_t len = 4 + g.below(9), pending = 0;
    if (two_phase) {
      size_t nw = 1 + g.below(4);
      for (size_t i = 0; i < nw; i++) { while (g.below(3) == 0) h.prog.push_back(rnd_side_step(h)); h.prog.push_back(HSt{0, (size_t)g.below(k), 0, 0}); }
      size_t nr = 1 + g.below(nw);
      for (size_t i = 0; i < nr; i++) { while (g.below(3) == 0) h.prog.push_back(rnd_side_step(h)); h.prog.push_back(HSt{1, (size_t)g.below(k), 0, 0}); }
      return h;
    }
    for (size_t i = 0; i < len; i++) {
      uint64_t c = g.below(8);
      if (c < 3) { h.prog.push_back(HSt{0, (size_t)g.below(k), 0, 0}); pending++; }
      else if (c < 6 && pending) { h.prog.push_back(HSt{1, (size_t)g.below(k), 0, 0}); pending--; }
      else h.prog.push_back(rnd_side_step(h));
    }
    while (pending && g.below(4)) { h.prog.push_back(HSt{1, (size_t)g.below(k), 0, 0}); pending--; }
    if (!pending && g.below(3) == 0) {   // a read when nothing is left: the handle keeps its value, failbit is sticky (also for writes)
      h.prog.push_back(HSt{1, (size_t)g.below(k), 0, 0});
      h.prog.push_back(HSt{0, (size_t)g.below(k), 0, 0});
      h.prog.push_back(HSt{1, (size_t)g.below(k), 0, 0});
    }
    return h;
  }
  Hist hist_of(int kind, bool two_phase) {
    switch (kind) { case 0: return hist_vector(two_phase); case 1: return hist_copies(); case 2: return hist_write_shared(); default: return hist_random(two_phase); }
  }
  template <class Obj> void all_hist(int cls) {
    int reps = thorough() ? 8 : 1;
    for (int r = 0; r < reps; r++)
      for (int kind = 0; kind < 6; kind++) {
        hist_raw<Obj>(cls, hist_of(kind, false));
#if HAVE_CEREAL
        hist_cereal<cereal::BinaryOutputArchive, cereal::BinaryInputArchive, Obj>(0, cls, hist_of(kind, true));
        hist_cereal<cereal::PortableBinaryOutputArchive, cereal::PortableBinaryInputArchive, Obj>(1, cls, hist_of(kind, true));
        hist_cereal<cereal::JSONOutputArchive, cereal::JSONInputArchive, Obj>(2, cls, hist_of(kind, true));
#endif
      }
  }

  template <class Obj> void all_for(int cls) {
    int reps = thorough() ? 6 : 2;
    for (int pat = 0; pat < 8; pat++)
      for (int r = 0; r < ((pat == 0 || pat == 1 || pat == 7) ? reps : 1); r++) {
        auto v = words(pat);
        ser<Obj>(cls, v);
        rt<Obj>(cls, v, words(0));
        text<Obj>(cls, v);
      }
    // every truncation point 0 … nm*B-1, the exact length, and longer streams
    for (int r = 0; r < (thorough() ? 3 : 1); r++) {
      std::vector<T> v = words(r == 0 ? 4 : 0), old = words(r == 0 ? 3 : 0);
      std::string img = raw_bytes(v);
      for (size_t cut = 0; cut <= NM * B; cut++) deser<Obj>(cls, old, img.substr(0, cut));
      deser<Obj>(cls, old, img + random_bytes(1));
      deser<Obj>(cls, old, img + random_bytes(NM * B + 5));
      deser<Obj>(cls, words(0), random_bytes(NM * B));   // arbitrary bytes, not produced by the serialiser
    }
    seq<Obj>(cls, 3);
    if (thorough()) seq<Obj>(cls, 5);
    all_hist<Obj>(cls);
#if HAVE_CEREAL
    all_cereal<Obj>(cls);
#endif
  }
  void all() { all_for<P>(0); all_for<PP>(1); }
  // large objects (beyond any internal block size a chunked reader/writer might use, and not a multiple of it):
  // round trip, two objects back to back with cuts, a stream cut just before the end
  void big() {
    few_cuts = true;
    rt<P>(0, words(0), words(1));
    rt<PP>(1, words(1), words(0));
    seq<P>(0, 2);
    { auto v = words(0); deser<PP>(1, words(1), raw_bytes(v).substr(0, NM * B - 5)); }
  }
};

#ifndef CFG
#define CFG -1
#endif
int main() {
  Rng g(env_u64("VERIF_SEED", 1) * 104729 + 16 + 1000003 * (CFG + 1));
  printf("# cereal %d\n", HAVE_CEREAL);
  if (CFG == 0 || CFG == -1) S<uint16_t, 8, 2>(g).all();
  if (CFG == 1 || CFG == -1) { S<uint32_t, 4, 3>(g).all(); S<uint32_t, 4, 1>(g).all(); }
  if (CFG == 2 || CFG == -1) { S<uint64_t, 4, 2>(g).all(); S<uint16_t, 4, 1>(g).all(); }
  if (CFG == 2 || CFG == -1) { S<uint64_t, 4096, 3>(g).big(); }
  if ((CFG == 3 || CFG == -1) && thorough()) { S<uint64_t, 8, 4>(g).all(); S<uint32_t, 16, 2>(g).all(); }
  return 0;
}
