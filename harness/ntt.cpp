// C01/C02 correspondence harness: transform tables, forward / inverse transforms, round trips,
// linearity, transform-based products (mulmod and Shoup), on poly<T,Degree,NbModuli>.
// One line per modulus slice:  <op> <w> <cm> <k> <words…> => <words…>
#include "common.hpp"
#include <nfl.hpp>

using namespace vh;

static uint64_t g_budget_words;   // soft cap on emitted words per configuration

template <class T> static void emit_slice(const char* op, size_t cm, size_t k, std::initializer_list<const T*> ins, size_t n, const T* out, size_t nout) {
  printf("%s %d %zu %zu", op, bits<T>(), cm, k);
  for (const T* in : ins) for (size_t i = 0; i < n; i++) printf(" %llu", (unsigned long long)in[i]);
  printf(" =>");
  for (size_t i = 0; i < nout; i++) printf(" %llu", (unsigned long long)out[i]);
  printf("\n");
}

template <class P> struct Gen {
  using T = typename P::value_type;
  static constexpr size_t N = P::degree, M = P::nmoduli;
  static void fill(P& a, int kind, Rng& g, size_t pos = 0) {
    for (size_t cm = 0; cm < M; cm++) {
      T p = P::get_modulus(cm);
      for (size_t i = 0; i < N; i++) {
        T v = 0;
        switch (kind) {
          case 0: v = 0; break;                                   // zero
          case 1: v = (i == pos % N) ? 1 : 0; break;              // unit vector X^pos
          case 2: v = (T)(p - 1); break;                          // all-(p-1)
          case 3: v = (g.below(8) == 0) ? (T)g.below(p) : 0; break;  // sparse
          case 4: v = (T)g.below(p); break;                       // random
          case 5: v = (i == pos % N) ? (T)(p - 1) : 0; break;     // -X^pos
          case 6: v = (i == 0) ? 1 : 0; break;                    // constant 1
          case 7: { T b[] = {0, 1, (T)(p - 1), (T)(p - 2), (T)(p / 2)}; v = b[g.below(5)]; } break;  // boundary mix
        }
        a(cm, i) = v;
      }
    }
  }
};

template <class T, size_t N, size_t M> static void run_config(Rng& g) {
  using P = nfl::poly<T, N, M>;
  constexpr size_t k = nfl::static_log2<N>::value;
  const bool allrows = env_u64("VERIF_ALLROWS", 0) != 0;   // full table width at a small degree (C06)
  const bool big = N >= 2048 || allrows;
  // ---- tables (private members reached with -fno-access-control) ----
  for (size_t cm = 0; cm < M; cm++) {
    const T* tabs[8] = {P::base.phis[cm], P::base.shoupphis[cm], P::base.invpoly_times_invphis[cm],
                        P::base.shoupinvpoly_times_invphis[cm], P::base.omegas[cm], P::base.shoupomegas[cm],
                        P::base.invomegas[cm], P::base.shoupinvomegas[cm]};
    for (int t = 0; t < 8; t++) {
      if (allrows && t != 0 && t != 2 && t != 4 && t != 6) continue;
      if (!allrows && big && !thorough() && (cm > 0 || (t != 0 && t != 4 && t != 6))) continue;
      if (!allrows && !thorough() && N >= 4096 && N < 32768 && t != 0 && t != 4) continue;
      size_t len = t < 4 ? N : N - 1;
      printf("tab %d %d %zu %zu =>", t, bits<T>(), cm, k);
      for (size_t i = 0; i < len; i++) printf(" %llu", (unsigned long long)tabs[t][i]);
      printf("\n");
    }
  }
  // ---- single-polynomial operations ----
  std::vector<std::pair<int, size_t>> kinds = {{0, 0}, {2, 0}, {6, 0}, {1, 1}, {1, N - 1}, {5, N / 2}, {3, 0}, {4, 0}, {7, 0}};
  if (N <= 16) for (size_t i = 0; i < N; i++) kinds.push_back({1, i});
  size_t nrand = big ? 0 : (thorough() ? 6 : 2);
  for (size_t i = 0; i < nrand; i++) kinds.push_back({4, 0});
  if (big && !thorough()) kinds = (N >= 4096 && N < 32768) ? std::vector<std::pair<int, size_t>>{{4, 0}} : std::vector<std::pair<int, size_t>>{{2, 0}, {4, 0}};
  alignas(32) static P a, b, c, d;
  for (auto kd : kinds) {
    Gen<P>::fill(a, kd.first, g, kd.second);
    b = a; b.ntt_pow_phi();
    for (size_t cm = 0; cm < M; cm++) emit_slice<T>("nttfwd", cm, k, {&a(cm, 0)}, N, &b(cm, 0), N);
    c = b; c.invntt_pow_invphi();
    for (size_t cm = 0; cm < M; cm++) emit_slice<T>("roundtrip", cm, k, {&a(cm, 0)}, N, &c(cm, 0), N);
    // treat `a` as evaluation form: inverse, then forward again
    c = a; c.invntt_pow_invphi();
    for (size_t cm = 0; cm < M; cm++) emit_slice<T>("nttinv", cm, k, {&a(cm, 0)}, N, &c(cm, 0), N);
    c.ntt_pow_phi();
    for (size_t cm = 0; cm < M; cm++) emit_slice<T>("roundtrip2", cm, k, {&a(cm, 0)}, N, &c(cm, 0), N);
  }
  // ---- pairs: products and linearity ----
  std::vector<std::array<size_t, 4>> pairs = {  // kindA posA kindB posB
      {1, N - 1, 1, 1}, {1, N / 2, 1, N / 2}, {6, 0, 4, 0}, {2, 0, 2, 0}, {4, 0, 4, 0}, {7, 0, 7, 0}, {5, N - 1, 1, N - 1}, {3, 0, 4, 0}, {0, 0, 4, 0}};
  if (N <= 8) for (size_t i = 0; i < N; i++) for (size_t j = 0; j < N; j++) pairs.push_back({1, i, 1, j});
  if (big) pairs.resize(thorough() ? 5 : 0);
  if (big && !thorough()) pairs = {{4, 0, 4, 0}};
  for (auto pr : pairs) {
    Gen<P>::fill(a, (int)pr[0], g, pr[1]);
    Gen<P>::fill(b, (int)pr[2], g, pr[3]);
    P fa = a, fb = b;
    fa.ntt_pow_phi(); fb.ntt_pow_phi();
    c = fa * fb;
    c.invntt_pow_invphi();
    for (size_t cm = 0; cm < M; cm++) emit_slice<T>("mulntt", cm, k, {&a(cm, 0), &b(cm, 0)}, N, &c(cm, 0), N);
    P fbs = nfl::compute_shoup(fb);
    d = nfl::shoup(fa * fb, fbs);
    d.invntt_pow_invphi();
    for (size_t cm = 0; cm < M; cm++) emit_slice<T>("mulnttshoup", cm, k, {&a(cm, 0), &b(cm, 0)}, N, &d(cm, 0), N);
    // linearity: fwd(a+b); a+b computed here with exact arithmetic, independent of the library's addmod
    for (size_t cm = 0; cm < M; cm++) {
      T p = P::get_modulus(cm);
      for (size_t i = 0; i < N; i++) c(cm, i) = (T)(((u128)a(cm, i) + b(cm, i)) % p);
    }
    c.ntt_pow_phi();
    for (size_t cm = 0; cm < M; cm++) emit_slice<T>("nttlin", cm, k, {&a(cm, 0), &b(cm, 0)}, N, &c(cm, 0), N);
  }
}

// the bit-reversal permutation of permut.hpp for degree N (y[i] = x[P(i)] with x = identity gives P itself);
// every degree up to the largest the limb tables allow (2^20), although the transforms above stop at 32768
template <size_t N> static void permtab() {
  constexpr size_t k = nfl::static_log2<N>::value;
  std::vector<uint32_t> x(N), y(N);
  for (size_t i = 0; i < N; i++) x[i] = (uint32_t)i;
  nfl::permut<N>::compute(y.data(), x.data());
  printf("permtab %zu =>", k);
  for (size_t i = 0; i < N; i++) printf(" %u", y[i]);
  printf("\n");
}

#ifndef MIN16
#define MIN16 1
#endif
#ifndef MIN32
#define MIN32 1
#endif

template <class T, size_t N, size_t M, size_t MIN> static void maybe(Rng& g) {
  // quick tier: every degree up to 2048, and the largest one; 4096..16384 in the thorough tier
  // quick tier: every degree; the full case set up to 2048, a minimal one (one random round trip, one random product,
  // phis/omegas tables) for 4096..32768 — the thorough tier runs the larger set there too
  if constexpr (N >= MIN) run_config<T, N, M>(g);
}

int main() {
  uint64_t seed = env_u64("VERIF_SEED", 1);
  Rng g(seed);
  printf("# ntt backend=%s seed=%llu tier=%s\n", BACKEND_NAME, (unsigned long long)seed, thorough() ? "thorough" : "quick");
  if (env_u64("VERIF_ALLROWS", 0)) {
    // every row of every table as a modulus of one polynomial: transforms, round trips, products on all rows
    run_config<uint16_t, 8, nfl::params<uint16_t>::kMaxNbModuli>(g);
    run_config<uint32_t, 8, nfl::params<uint32_t>::kMaxNbModuli>(g);
    run_config<uint64_t, 8, nfl::params<uint64_t>::kMaxNbModuli>(g);
    if (thorough()) {
      run_config<uint32_t, 64, nfl::params<uint32_t>::kMaxNbModuli>(g);
      run_config<uint64_t, 32, nfl::params<uint64_t>::kMaxNbModuli>(g);
    }
    return 0;
  }
  permtab<2>(); permtab<4>(); permtab<8>(); permtab<16>(); permtab<32>(); permtab<64>(); permtab<128>(); permtab<256>();
  permtab<512>(); permtab<1024>(); permtab<2048>(); permtab<4096>(); permtab<8192>(); permtab<16384>(); permtab<32768>();
  permtab<65536>(); permtab<131072>(); permtab<262144>(); permtab<524288>(); permtab<1048576>();
  // every power-of-two degree the build accepts; number of moduli varied
  maybe<uint16_t, 1, 1, MIN16>(g);  maybe<uint16_t, 2, 2, MIN16>(g);  maybe<uint16_t, 4, 1, MIN16>(g);
  maybe<uint16_t, 8, 2, MIN16>(g);  maybe<uint16_t, 16, 1, MIN16>(g); maybe<uint16_t, 32, 2, MIN16>(g);
  maybe<uint16_t, 64, 1, MIN16>(g); maybe<uint16_t, 128, 2, MIN16>(g); maybe<uint16_t, 256, 1, MIN16>(g);
  maybe<uint16_t, 512, 2, MIN16>(g);
  maybe<uint32_t, 1, 2, MIN32>(g);  maybe<uint32_t, 2, 3, MIN32>(g);  maybe<uint32_t, 4, 1, MIN32>(g);
  maybe<uint32_t, 8, 2, MIN32>(g);  maybe<uint32_t, 16, 3, MIN32>(g); maybe<uint32_t, 32, 1, MIN32>(g);
  maybe<uint32_t, 64, 2, MIN32>(g); maybe<uint32_t, 128, 1, MIN32>(g); maybe<uint32_t, 256, 2, MIN32>(g);
  maybe<uint32_t, 512, 1, MIN32>(g); maybe<uint32_t, 1024, 2, MIN32>(g); maybe<uint32_t, 2048, 1, MIN32>(g);
  maybe<uint32_t, 4096, 1, MIN32>(g); maybe<uint32_t, 8192, 1, MIN32>(g); maybe<uint32_t, 16384, 1, MIN32>(g);
  maybe<uint32_t, 32768, 1, MIN32>(g);
  maybe<uint64_t, 1, 3, 1>(g);  maybe<uint64_t, 2, 2, 1>(g);  maybe<uint64_t, 4, 3, 1>(g);
  maybe<uint64_t, 8, 1, 1>(g);  maybe<uint64_t, 16, 2, 1>(g); maybe<uint64_t, 32, 3, 1>(g);
  maybe<uint64_t, 64, 1, 1>(g); maybe<uint64_t, 128, 2, 1>(g); maybe<uint64_t, 256, 1, 1>(g);
  maybe<uint64_t, 512, 2, 1>(g); maybe<uint64_t, 1024, 1, 1>(g); maybe<uint64_t, 2048, 2, 1>(g);
  maybe<uint64_t, 4096, 1, 1>(g); maybe<uint64_t, 8192, 1, 1>(g); maybe<uint64_t, 16384, 1, 1>(g);
  maybe<uint64_t, 32768, 1, 1>(g);
  return 0;
}
