// Runtime of the generated C07/C08 harnesses (tools/gen_expr.py emits translation units that include this file).
//
// An Env holds NV plain polynomials (handles 0..NV-1) and NQ shared-handle polynomials (handles NV..NV+NQ-1),
// each with its own storage.  Generated code performs one assignment / boolean conversion per case; the runtime
// fills the operands (canonical residues, boundary biased, from VERIF_SEED), snapshots every handle before and
// after and prints the protocol line
//   asg   <w> <be> <nmod> <deg> <form> <dest> <L> <tree:L ints> <nh> <nh*N words>  =>  <mode> <rows*N words>
//   asgx  <w> <be> <nmod> <deg> <form> <dest> <mode> <L> <tree:L ints> <nh> <nh*N words> =>  <rows*N words>
//     the same statement for a shape OUTSIDE the acceptance rules of tools/gen_expr.py that the compiler accepts after all
//     (tools/exprcheck.py execute_new_shapes): no mode is predicted for it, the mode the compiler resolved is an argument;
//     the stores are compared with the exact coefficient-wise meaning and with the width-1 assignment loop of the model
//   ebool <w> <be> <nmod> <deg> <kind> <L> <tree:L ints> <nh> <nh*N words>         =>  <mode> <0|1>
//   eboolx <w> <be> <nmod> <deg> <kind> <mode> <L> <tree:L ints> <nh> <nh*N words>  =>  <0|1>
//     a boolean conversion of a comparison shape outside the acceptance rules that the compiler accepts after all (as asgx)
//   pbool <w> <be> <nmod> <deg> <h> <nh> <words>                                   =>  <0|1>
//   ppeq / ppne <w> <be> <nmod> <deg> <ha> <hb> <nh> <words>                       =>  <0|1>
//   bsweep <w> <be> <nmod> <deg> <fam> <pat> <t> <L> <tree:L ints> <nh> <nh*N words> <N alt words> <np> <np positions>
//                                                                                  =>  <mode> <np times 0|1>
//     a batch of np boolean conversions on stores that differ from the printed one only in the row of handle <t>:
//     pat 0 ("differ in one"): row := printed row with element k replaced by alt[k];
//     pat 1 ("equal in one"):  row := alt with element k replaced by the printed row's element k;   k = each position.
//     fam 0: bool(<tree>) (as ebool);  fam 1: poly_p ==/!= poly_p, tree = {6|7, 0,ha, 0,hb} (as ppeq/ppne, mode printed 0);
//     fam 2: poly -> bool, tree = {0,h} (as pbool, mode printed 0).
// tree prefix code: 0 h leaf | 1 add | 2 sub | 3 mul | 4 shoup3 | 5 compute_shoup | 6 eq | 7 neq | 8 shoup(x,q) call
// <mode> is `decltype(expr)::simd_mode::mode` as the compiler resolved it (0 serial, 1 sse, 2 avx2).
#pragma once
#include "common.hpp"
#include <nfl.hpp>
#include <functional>
#include <type_traits>

namespace xr {
using namespace vh;

#if defined(NFL_OPTIMIZED) && defined(__AVX2__) && defined(NTT_AVX2)
static constexpr int kBackend = 2;
#elif defined(NFL_OPTIMIZED) && defined(__SSE4_2__) && defined(NTT_SSE)
static constexpr int kBackend = 1;
#else
static constexpr int kBackend = 0;
#endif

template <class T> inline T modp(size_t cm) { return nfl::params<T>::P[cm]; }
// independent reference arithmetic (128-bit integers)
template <class T> inline T radd(size_t cm, T x, T y) { return (T)(((u128)x + y) % modp<T>(cm)); }
template <class T> inline T rsub(size_t cm, T x, T y) { T p = modp<T>(cm); return (T)(((u128)x + p - (y % p)) % p); }
template <class T> inline T rmul(size_t cm, T x, T y) { return (T)(((u128)x * y) % modp<T>(cm)); }
template <class T> inline T rquot(size_t cm, T y) { T p = modp<T>(cm); return (T)((((u128)(y % p)) << bits<T>()) / p); }

// `X::simd_mode::mode` when the type of an expression has one, 0 otherwise (an overload that evaluates eagerly and returns a
// plain bool / value: no mode is observable; only used for the `asgx` / `eboolx` lines, whose mode is an argument)
template <class X, class = void> struct mode_of_type { static constexpr int value = 0; };
template <class X> struct mode_of_type<X, std::void_t<typename X::simd_mode>> { static constexpr int value = X::simd_mode::mode; };

// one boolean conversion of the generated code, as the runtime prints it (see the protocol above)
struct BoolCase { int fam; const int* tree; int tlen; int mode; int ha; int hb; };

template <class T, size_t D, size_t M, size_t NV, size_t NQ>
struct Env {
  using P = nfl::poly<T, D, M>;
  using PP = nfl::poly_p<T, D, M>;
  static constexpr size_t N = D * M;
  static constexpr size_t NH = NV + NQ;
  P v[NV];
  PP q[NQ];
  Rng rng;
  std::vector<T> before;
  const int* tree = nullptr; int tlen = 0; int dest = 0; int form = 0;
  unsigned long lines = 0;
  int pb_tree[2] = {0, 0};
  const char* asg_op = "asg"; bool mode_in_args = false;   // `asgx` lines (see the protocol above)
  bool xmode = false;   // C08: `eboolx` lines, no batch lines
  bool light = false;   // the additional degrees: few single-evaluation lines per shape, the positions are covered by sweeps

  explicit Env(uint64_t seed) : rng(seed) {
    for (size_t i = 0; i < NV; i++) v[i] = (T)0;
    for (size_t i = 0; i < NQ; i++) q[i] = (T)0;
  }
  // const access: `poly_obj()` on a non-const poly_p would detach shared storage
  T* row(size_t h) { return h < NV ? v[h].data() : const_cast<T*>(&static_cast<PP const&>(q[h - NV]).poly_obj()(0, 0)); }
  T at(size_t h, size_t cm, size_t i) { return row(h)[cm * D + i]; }
  void set(size_t h, size_t cm, size_t i, T x) { row(h)[cm * D + i] = x; }

  T rnd_res(size_t cm) {
    T p = modp<T>(cm);
    switch (rng.below(8)) {
      case 0: return 0;
      case 1: return (T)(p - 1);
      case 2: return (T)rng.below(3);
      case 3: return (T)(p - 1 - rng.below(3));
      default: return (T)rng.below(p);
    }
  }
  // rep 0: random boundary-biased; rep 1: all p-1; rep 2: zeros and ones; others random
  void fill(int rep) {
    for (size_t h = 0; h < NH; h++)
      for (size_t cm = 0; cm < M; cm++)
        for (size_t i = 0; i < D; i++) {
          T x;
          if (rep == 1) x = (T)(modp<T>(cm) - 1);
          else if (rep == 2) x = (T)rng.below(2);
          else x = rnd_res(cm);
          set(h, cm, i, x);
        }
  }
  void fill_zero() { for (size_t h = 0; h < NH; h++) for (size_t k = 0; k < N; k++) row(h)[k] = 0; }
  // handle h := precomputed quotient of f(cm,i) (+ k*p if lazy: compute_shoup reduces its argument itself)
  template <class F> void set_quot(size_t h, F f) {
    for (size_t cm = 0; cm < M; cm++) for (size_t i = 0; i < D; i++) set(h, cm, i, rquot<T>(cm, f(cm, i)));
  }
  template <class F> void set_lazy(size_t h, F f) {
    for (size_t cm = 0; cm < M; cm++) for (size_t i = 0; i < D; i++)
      set(h, cm, i, (T)(f(cm, i) + (T)rng.below(3) * modp<T>(cm)));
  }
  template <class F> void set_val(size_t h, F f) {
    for (size_t cm = 0; cm < M; cm++) for (size_t i = 0; i < D; i++) set(h, cm, i, f(cm, i));
  }

  void snapshot(std::vector<T>& s) { s.clear(); for (size_t h = 0; h < NH; h++) { T* r = row(h); s.insert(s.end(), r, r + N); } }
  void head(const char* op) { printf("%s %d %d %zu %zu", op, bits<T>(), kBackend, M, D); }
  void put_tree() { printf(" %d", tlen); for (int i = 0; i < tlen; i++) printf(" %d", tree[i]); }
  void put_words(const std::vector<T>& s) { for (T x : s) printf(" %llu", (unsigned long long)x); }
  void put_row(const T* r) { for (size_t k = 0; k < N; k++) printf(" %llu", (unsigned long long)r[k]); }

  // ---- C07
  void begin(const int* t, int len, int dest_, int form_) {
    tree = t; tlen = len; dest = dest_; form = form_;
    snapshot(before);
  }
  // extra: rows of objects created by the statement (constructed object / the other owner after a detach)
  void end(int mode, const T* extra = nullptr) {
    head(asg_op); printf(" %d %d", form, dest); if (mode_in_args) printf(" %d", mode);
    put_tree(); printf(" %zu", NH); put_words(before);
    if (mode_in_args) printf(" =>"); else printf(" => %d", mode);
    std::vector<T> after; snapshot(after); put_words(after);
    if (extra) put_row(extra);
    printf("\n"); lines++;
  }

  // ---- C08
  void emit_bool(const int* t, int len, int kind, int mode, bool r) {
    tree = t; tlen = len;
    std::vector<T> s; snapshot(s);
    if (xmode) {
      head("eboolx"); printf(" %d %d", kind, mode); put_tree(); printf(" %zu", NH); put_words(s);
      printf(" => %d\n", r ? 1 : 0); lines++;
      return;
    }
    head("ebool"); printf(" %d", kind); put_tree(); printf(" %zu", NH); put_words(s);
    printf(" => %d %d\n", mode, r ? 1 : 0); lines++;
  }
  void emit_pbool(int h, bool r) {
    std::vector<T> s; snapshot(s);
    head("pbool"); printf(" %d %zu", h, NH); put_words(s); printf(" => %d\n", r ? 1 : 0); lines++;
  }
  void emit_pp(const char* op, int ha, int hb, bool r) {
    std::vector<T> s; snapshot(s);
    head(op); printf(" %d %d %zu", ha, hb, NH); put_words(s); printf(" => %d\n", r ? 1 : 0); lines++;
  }

  void emit_case(const BoolCase& bc, bool r) {
    if (bc.fam == 0) emit_bool(bc.tree, bc.tlen, 0, bc.mode, r);
    else if (bc.fam == 1) emit_pp(bc.tree[0] == 6 ? "ppeq" : "ppne", bc.ha, bc.hb, r);
    else emit_pbool(bc.ha, r);
  }

  // Boundary-directed positions (flat indices cm*D+i): in every modulus row the first two and last two coefficients and,
  // for each block size B in {2,4,...,128}, the start of the last (possibly partial) block of the row, its neighbours,
  // and the end of the first block: where a blocked / unrolled / vectorised scan changes its behaviour.
  std::vector<size_t> boundary_positions() {
    std::vector<char> mark(N, 0);
    for (size_t cm = 0; cm < M; cm++) {
      auto put = [&](long i) { if (i >= 0 && (size_t)i < D) mark[cm * D + (size_t)i] = 1; };
      put(0); put(1); put((long)D - 1); put((long)D - 2);
      for (size_t B = 2; B <= 128; B *= 2) {
        if (B >= D) { put((long)D / 2); continue; }
        long tail = (long)((D - 1) / B * B);      // first index of the last block (a full one when B divides D)
        put(tail - 1); put(tail); put(tail + 1); put((long)B - 1); put((long)B);
        if (D % B) { long t2 = (long)(D / B * B); put(t2 - 1); put(t2); }
      }
    }
    std::vector<size_t> r;
    for (size_t k = 0; k < N; k++) if (mark[k]) r.push_back(k);
    return r;
  }
  std::vector<size_t> all_positions() { std::vector<size_t> r; for (size_t k = 0; k < N; k++) r.push_back(k); return r; }

  // positions visited by the one-position single-evaluation patterns: all of them (N is small), or a spread when
  // VERIF_EXPR_POS is set: first, last, the modulus-row boundary, the start of the last 64-block of the last row
  // (the tail of a blocked scan), then random ones
  std::vector<size_t> positions() {
    std::vector<size_t> r;
    size_t lim = (size_t)env_u64("VERIF_EXPR_POS", 0);
    if (light) lim = 6;
    if (lim == 0 || lim >= N) return all_positions();
    auto put = [&](size_t k) { for (size_t x : r) if (x == k) return; if (r.size() < lim) r.push_back(k); };
    put(N - 1); put(0); put(D - 1); if (M > 1) put(D);
    if (D > 64) { size_t tl = (D - 1) / 64 * 64; put((M - 1) * D + tl); put(tl - 1); }
    while (r.size() < lim) r.push_back(rng.below(N));
    return r;
  }

  T bump(size_t cm, T x) { T p = modp<T>(cm); return (T)((x + 1 + rng.below(p - 1)) % p); }

  // A batch of conversions on stores differing from the current one in one row only (line `bsweep`, see the top).
  // The current row of `t` is A; B differs from A in every residue.  `ev` performs the conversion on the live objects.
  void sweep(int t, const BoolCase& bc, int pat, const std::vector<size_t>& pos, const std::function<bool()>& ev,
             const std::vector<T>* alt = nullptr) {
    if (pos.empty()) return;
    T* r = row(t);
    std::vector<T> A(r, r + N), B(N);
    for (size_t j = 0; j < N; j++) B[j] = alt ? (*alt)[j] : bump(j / D, A[j]);
    std::vector<T> s; snapshot(s);
    std::vector<char> res;
    if (pat == 1) for (size_t j = 0; j < N; j++) r[j] = B[j];
    for (size_t k : pos) {
      T keep = r[k];
      r[k] = (pat == 0) ? B[k] : A[k];
      res.push_back(ev() ? 1 : 0);
      r[k] = keep;
    }
    for (size_t j = 0; j < N; j++) r[j] = A[j];
    tree = bc.tree; tlen = bc.tlen;
    head("bsweep"); printf(" %d %d %d", bc.fam, pat, t); put_tree(); printf(" %zu", NH); put_words(s); put_words(B);
    printf(" %zu", pos.size()); for (size_t k : pos) printf(" %zu", k);
    printf(" => %d", bc.fam == 0 ? bc.mode : 0);
    for (char c : res) printf(" %d", (int)c);
    printf("\n"); lines++;
  }

  // Comparison / zero-test patterns.  Handle `t` is a leaf whose value the runtime controls:
  //   target(cm,i) is the value of `t` that makes the two sides equal (resp. the expression zero) at (cm,i).
  // Patterns: equal everywhere; differing in exactly one residue at position k; equal in exactly one
  // residue; random unrelated; then the two one-position patterns at EVERY position as sweeps (`all_pos`) or at the
  // boundary-directed positions.  `prep` re-establishes precomputed quotients after the operands are filled.
  // (std::function instead of template parameters: one instantiation of the body per Env, shorter compile times)
  void patterns(int t, std::function<T(size_t, size_t)> target, std::function<void()> prep, const BoolCase& bc,
                std::function<bool()> ev, bool all_pos) {
    auto base = [&](int rep) { fill(rep); prep(); };
    auto run = [&](const char*) { emit_case(bc, ev()); };
    // equal pairs
    for (int rep = 0; rep < (light ? 2 : 3); rep++) { base(rep); set_val(t, target); run("equal"); }
    // differ in exactly one residue
    for (size_t k : positions()) {
      base(0); set_val(t, target);
      size_t cm = k / D, i = k % D;
      T x = at(t, cm, i);
      T y = (k % 3 == 0) ? (T)((x + 1) % modp<T>(cm)) : (k % 3 == 1) ? (T)((x + modp<T>(cm) - 1) % modp<T>(cm)) : bump(cm, x);
      set(t, cm, i, y); run("diff1");
    }
    // differ in exactly one BIT of one residue, every bit position (a comparison or reduction that looks only at part
    // of the word - low half, high half, one byte - is blind to some of these)
    for (int b = 0; b < (int)(8 * sizeof(T)) - 2 && !light; b++) {
      base(b % 3); set_val(t, target);
      size_t k = (size_t)(b * 7 + 3) % N, cm = k / D, i = k % D;
      T x = at(t, cm, i);
      T y = (T)(x ^ ((T)1 << b));
      if (y >= modp<T>(cm)) continue;
      set(t, cm, i, y); run("diffbit");
    }
    // equal in exactly one residue
    { std::vector<size_t> ps = positions(); if (light && ps.size() > 2) ps.resize(2);
      for (size_t k : ps) {
        base(0); set_val(t, target);
        for (size_t j = 0; j < N; j++) if (j != k) { size_t cm = j / D, i = j % D; set(t, cm, i, bump(cm, at(t, cm, i))); }
        run("same1");
      } }
    // unrelated
    for (int rep = 0; rep < (light ? 1 : 2); rep++) { base(0); for (size_t cm = 0; cm < M; cm++) for (size_t i = 0; i < D; i++) set(t, cm, i, rnd_res(cm)); run("random"); }
    // every position (resp. the boundary-directed ones): differ in one / equal in one
    if (xmode) return;     // the batch lines are defined for the shapes of the acceptance rules only
    std::vector<size_t> ps = (all_pos || N <= 160) ? all_positions() : boundary_positions();
    base(0); set_val(t, target); sweep(t, bc, 0, ps, ev);
    base(2); set_val(t, target); sweep(t, bc, 1, ps, ev);
  }

  // poly -> bool with a single non-zero residue at every position (values 1, p-1, random non-zero in turn)
  void sweep_pbool(int h, const std::function<bool()>& ev) {
    fill_zero();
    std::vector<T> alt(N);
    for (size_t j = 0; j < N; j++) { T p = modp<T>(j / D); alt[j] = (j % 3 == 0) ? (T)1 : (j % 3 == 1) ? (T)(p - 1) : (T)(1 + rng.below(p - 1)); }
    pb_tree[0] = 0; pb_tree[1] = h;
    BoolCase bc{2, pb_tree, 2, 0, h, h};
    sweep(h, bc, 0, all_positions(), ev, &alt);
  }
};

}  // namespace xr
