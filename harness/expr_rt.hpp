// Runtime of the generated C07/C08 harnesses (tools/gen_expr.py emits translation units that include this file).
//
// An Env holds NV plain polynomials (handles 0..NV-1) and NQ shared-handle polynomials (handles NV..NV+NQ-1),
// each with its own storage.  Generated code performs one assignment / boolean conversion per case; the runtime
// fills the operands (canonical residues, boundary biased, from VERIF_SEED), snapshots every handle before and
// after and prints the protocol line
//   asg   <w> <be> <nmod> <deg> <form> <dest> <L> <tree:L ints> <nh> <nh*N words>  =>  <mode> <rows*N words>
//   ebool <w> <be> <nmod> <deg> <kind> <L> <tree:L ints> <nh> <nh*N words>         =>  <mode> <0|1>
//   pbool <w> <be> <nmod> <deg> <h> <nh> <words>                                   =>  <0|1>
//   ppeq / ppne <w> <be> <nmod> <deg> <ha> <hb> <nh> <words>                       =>  <0|1>
// tree prefix code: 0 h leaf | 1 add | 2 sub | 3 mul | 4 shoup3 | 5 compute_shoup | 6 eq | 7 neq | 8 shoup(x,q) call
// <mode> is `decltype(expr)::simd_mode::mode` as the compiler resolved it (0 serial, 1 sse, 2 avx2).
#pragma once
#include "common.hpp"
#include <nfl.hpp>
#include <functional>

namespace xr {
using namespace vh;

#if defined(NFL_OPTIMIZED) && defined(__AVX2__) && defined(NTT_AVX2)
static constexpr int kBackend = 2;
#elif defined(NFL_OPTIMIZED) && defined(__SSE4_2__) && defined(NTT_SSE)
static constexpr int kBackend = 1;
#else
static constexpr int kBackend = 0;
#endif

template <class T> inline T modp(size_t cm) { return nfl::params<T>::P[cm]; }
// independent reference arithmetic (128-bit integers)
template <class T> inline T radd(size_t cm, T x, T y) { return (T)(((u128)x + y) % modp<T>(cm)); }
template <class T> inline T rsub(size_t cm, T x, T y) { T p = modp<T>(cm); return (T)(((u128)x + p - (y % p)) % p); }
template <class T> inline T rmul(size_t cm, T x, T y) { return (T)(((u128)x * y) % modp<T>(cm)); }
template <class T> inline T rquot(size_t cm, T y) { T p = modp<T>(cm); return (T)((((u128)(y % p)) << bits<T>()) / p); }

template <class T, size_t D, size_t M, size_t NV, size_t NQ>
struct Env {
  using P = nfl::poly<T, D, M>;
  using PP = nfl::poly_p<T, D, M>;
  static constexpr size_t N = D * M;
  static constexpr size_t NH = NV + NQ;
  P v[NV];
  PP q[NQ];
  Rng rng;
  std::vector<T> before;
  const int* tree = nullptr; int tlen = 0; int dest = 0; int form = 0;
  unsigned long lines = 0;

  explicit Env(uint64_t seed) : rng(seed) {
    for (size_t i = 0; i < NV; i++) v[i] = (T)0;
    for (size_t i = 0; i < NQ; i++) q[i] = (T)0;
  }
  // const access: `poly_obj()` on a non-const poly_p would detach shared storage
  T* row(size_t h) { return h < NV ? v[h].data() : const_cast<T*>(&static_cast<PP const&>(q[h - NV]).poly_obj()(0, 0)); }
  T at(size_t h, size_t cm, size_t i) { return row(h)[cm * D + i]; }
  void set(size_t h, size_t cm, size_t i, T x) { row(h)[cm * D + i] = x; }

  T rnd_res(size_t cm) {
    T p = modp<T>(cm);
    switch (rng.below(8)) {
      case 0: return 0;
      case 1: return (T)(p - 1);
      case 2: return (T)rng.below(3);
      case 3: return (T)(p - 1 - rng.below(3));
      default: return (T)rng.below(p);
    }
  }
  // rep 0: random boundary-biased; rep 1: all p-1; rep 2: zeros and ones; others random
  void fill(int rep) {
    for (size_t h = 0; h < NH; h++)
      for (size_t cm = 0; cm < M; cm++)
        for (size_t i = 0; i < D; i++) {
          T x;
          if (rep == 1) x = (T)(modp<T>(cm) - 1);
          else if (rep == 2) x = (T)rng.below(2);
          else x = rnd_res(cm);
          set(h, cm, i, x);
        }
  }
  void fill_zero() { for (size_t h = 0; h < NH; h++) for (size_t k = 0; k < N; k++) row(h)[k] = 0; }
  // handle h := precomputed quotient of f(cm,i) (+ k*p if lazy: compute_shoup reduces its argument itself)
  template <class F> void set_quot(size_t h, F f) {
    for (size_t cm = 0; cm < M; cm++) for (size_t i = 0; i < D; i++) set(h, cm, i, rquot<T>(cm, f(cm, i)));
  }
  template <class F> void set_lazy(size_t h, F f) {
    for (size_t cm = 0; cm < M; cm++) for (size_t i = 0; i < D; i++)
      set(h, cm, i, (T)(f(cm, i) + (T)rng.below(3) * modp<T>(cm)));
  }
  template <class F> void set_val(size_t h, F f) {
    for (size_t cm = 0; cm < M; cm++) for (size_t i = 0; i < D; i++) set(h, cm, i, f(cm, i));
  }

  void snapshot(std::vector<T>& s) { s.clear(); for (size_t h = 0; h < NH; h++) { T* r = row(h); s.insert(s.end(), r, r + N); } }
  void head(const char* op) { printf("%s %d %d %zu %zu", op, bits<T>(), kBackend, M, D); }
  void put_tree() { printf(" %d", tlen); for (int i = 0; i < tlen; i++) printf(" %d", tree[i]); }
  void put_words(const std::vector<T>& s) { for (T x : s) printf(" %llu", (unsigned long long)x); }
  void put_row(const T* r) { for (size_t k = 0; k < N; k++) printf(" %llu", (unsigned long long)r[k]); }

  // ---- C07
  void begin(const int* t, int len, int dest_, int form_) {
    tree = t; tlen = len; dest = dest_; form = form_;
    snapshot(before);
  }
  // extra: rows of objects created by the statement (constructed object / the other owner after a detach)
  void end(int mode, const T* extra = nullptr) {
    head("asg"); printf(" %d %d", form, dest); put_tree(); printf(" %zu", NH); put_words(before);
    printf(" => %d", mode);
    std::vector<T> after; snapshot(after); put_words(after);
    if (extra) put_row(extra);
    printf("\n"); lines++;
  }

  // ---- C08
  void emit_bool(const int* t, int len, int kind, int mode, bool r) {
    tree = t; tlen = len;
    std::vector<T> s; snapshot(s);
    head("ebool"); printf(" %d", kind); put_tree(); printf(" %zu", NH); put_words(s);
    printf(" => %d %d\n", mode, r ? 1 : 0); lines++;
  }
  void emit_pbool(int h, bool r) {
    std::vector<T> s; snapshot(s);
    head("pbool"); printf(" %d %zu", h, NH); put_words(s); printf(" => %d\n", r ? 1 : 0); lines++;
  }
  void emit_pp(const char* op, int ha, int hb, bool r) {
    std::vector<T> s; snapshot(s);
    head(op); printf(" %d %d %zu", ha, hb, NH); put_words(s); printf(" => %d\n", r ? 1 : 0); lines++;
  }

  // positions visited by the one-position patterns: all of them (N is small), or a spread when VERIF_EXPR_POS is set
  std::vector<size_t> positions() {
    std::vector<size_t> r;
    size_t lim = (size_t)env_u64("VERIF_EXPR_POS", 0);
    if (lim == 0 || lim >= N) { for (size_t k = 0; k < N; k++) r.push_back(k); return r; }
    r.push_back(0); r.push_back(N - 1); r.push_back(D - 1); if (M > 1) r.push_back(D);
    while (r.size() < lim) r.push_back(rng.below(N));
    return r;
  }

  // Comparison / zero-test patterns.  Handle `t` is a leaf whose value the runtime controls:
  //   target(cm,i) is the value of `t` that makes the two sides equal (resp. the expression zero) at (cm,i).
  // Patterns: equal everywhere; differing in exactly one residue at position k (every k); equal in exactly one
  // residue; random unrelated.  `prep` re-establishes precomputed quotients after the operands are filled.
  // (std::function instead of template parameters: one instantiation of the body per Env, shorter compile times)
  void patterns(int t, std::function<T(size_t, size_t)> target, std::function<void()> prep, std::function<void(const char*)> run) {
    auto bump = [&](size_t cm, T x) { T p = modp<T>(cm); return (T)((x + 1 + rng.below(p - 1)) % p); };
    auto base = [&](int rep) { fill(rep); prep(); };
    // equal pairs
    for (int rep = 0; rep < 3; rep++) { base(rep); set_val(t, target); run("equal"); }
    // differ in exactly one residue
    for (size_t k : positions()) {
      base(0); set_val(t, target);
      size_t cm = k / D, i = k % D;
      T x = at(t, cm, i);
      T y = (k % 3 == 0) ? (T)((x + 1) % modp<T>(cm)) : (k % 3 == 1) ? (T)((x + modp<T>(cm) - 1) % modp<T>(cm)) : bump(cm, x);
      set(t, cm, i, y); run("diff1");
    }
    // differ in exactly one BIT of one residue, every bit position (a comparison or reduction that looks only at part
    // of the word - low half, high half, one byte - is blind to some of these)
    for (int b = 0; b < (int)(8 * sizeof(T)) - 2; b++) {
      base(b % 3); set_val(t, target);
      size_t k = (size_t)(b * 7 + 3) % N, cm = k / D, i = k % D;
      T x = at(t, cm, i);
      T y = (T)(x ^ ((T)1 << b));
      if (y >= modp<T>(cm)) continue;
      set(t, cm, i, y); run("diffbit");
    }
    // equal in exactly one residue
    for (size_t k : positions()) {
      base(0); set_val(t, target);
      for (size_t j = 0; j < N; j++) if (j != k) { size_t cm = j / D, i = j % D; set(t, cm, i, bump(cm, at(t, cm, i))); }
      run("same1");
    }
    // unrelated
    for (int rep = 0; rep < 2; rep++) { base(0); for (size_t cm = 0; cm < M; cm++) for (size_t i = 0; i < D; i++) set(t, cm, i, rnd_res(cm)); run("random"); }
  }
};

}  // namespace xr
