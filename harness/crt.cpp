// C04 correspondence harness: CRT lift of gmp.hpp on poly<T,N,M> and poly_p<T,N,M>.
//   crtinit  w m => Q bitsQ s mu bitsMu L_0 … L_{m-1}          (static GMP member, via -fno-access-control)
//   poly2mpz w m n via data(n·m) => x_0 … x_{n-1}               lift w m r_0 … r_{m-1} => x   (per coefficient)
//   mpz2poly w m n via z_0 … z_{n-1} => data(n·m)               mpz2polyc w m z => r_0 … r_{m-1}
//   setmpz   w m n via k z_0 … z_{k-1} => data(n·m) | -1 (threw)
//   rt w m z => x   (poly2mpz∘mpz2poly)        rt2 w m r… => r'…   (mpz2poly∘poly2mpz)
//   liftadd|liftsub|liftmul w m a… b… => X A B      (a∘b with the library's operators, then lifted)
//   liftpmul w m n a(n·m) b(n·m) => C(n) A(n) B(n)  (transform-based product, then lifted)
#include "common.hpp"
#include <utility>
#include <nfl.hpp>
#include <gmpxx.h>
#include <new>
#include <stdexcept>

using namespace vh;

static void pz(const mpz_t x) { gmp_printf(" %Zd", x); }
static void pz(const mpz_class& x) { gmp_printf(" %Zd", x.get_mpz_t()); }

template <class T, size_t N, size_t M> struct Cfg {
  using P = nfl::poly<T, N, M>;
  using PP = nfl::poly_p<T, N, M>;
  using Pat = std::vector<T>;
  static constexpr int w = 8 * sizeof(T);

  static void head(const char* op) { printf("%s %d %zu", op, w, M); }

  static void put_data(const P& a) {
    for (size_t cm = 0; cm < M; cm++) for (size_t i = 0; i < N; i++) printf(" %llu", (unsigned long long)a(cm, i));
  }
  static void put_coeff(const P& a, size_t i) {
    for (size_t cm = 0; cm < M; cm++) printf(" %llu", (unsigned long long)a(cm, i));
  }
  static void fill(P& a, const std::vector<Pat>& pats, size_t off) {
    for (size_t i = 0; i < N; i++) for (size_t cm = 0; cm < M; cm++) a(cm, i) = pats[off + i][cm];
  }
  static void fill(PP& a, const std::vector<Pat>& pats, size_t off) {
    P& o = a.poly_obj();
    for (size_t i = 0; i < N; i++) for (size_t cm = 0; cm < M; cm++) o(cm, i) = pats[off + i][cm];
  }
  static void init_arr(std::array<mpz_t, N>& arr) { for (auto& x : arr) mpz_init(x); }
  static void clear_arr(std::array<mpz_t, N>& arr) { for (auto& x : arr) mpz_clear(x); }

  static Pat rnd(Rng& g) { Pat r(M); for (size_t cm = 0; cm < M; cm++) r[cm] = (T)g.below(P::get_modulus(cm)); return r; }
  static Pat cst(int kind) {  // 0 zero, 1 ones, 2 all-(p-1)
    Pat r(M);
    for (size_t cm = 0; cm < M; cm++) r[cm] = kind == 0 ? 0 : kind == 1 ? 1 : (T)(P::get_modulus(cm) - 1);
    return r;
  }
  static Pat onehot(size_t j, bool maxv) { Pat r(M, 0); r[j] = maxv ? (T)(P::get_modulus(j) - 1) : 1; return r; }
  static Pat allmax_but(size_t j) { Pat r = cst(2); r[j] = 0; return r; }
  static Pat sparse(Rng& g) { Pat r(M, 0); for (size_t cm = 0; cm < M; cm++) if (g.below(4) == 0) r[cm] = (T)g.below(P::get_modulus(cm)); return r; }
  static Pat mix(Rng& g) {
    Pat r(M);
    for (size_t cm = 0; cm < M; cm++) { T p = P::get_modulus(cm); T b[] = {0, 1, (T)(p - 1), (T)(p - 2), (T)(p / 2)}; r[cm] = b[g.below(5)]; }
    return r;
  }
  // residues of integers just below the smallest modulus: every residue is large (the accumulated sum Σ r_i·L_i is
  // close to its maximum, so the quotient is as large as it gets) while the lifted value z is tiny compared with Q —
  // the inputs on which a truncated / under-sized quotient estimate is short by more than the one subtraction allows
  static std::vector<Pat> big_small(Rng& g, size_t count) {
    T pmin = P::get_modulus(0);
    for (size_t cm = 1; cm < M; cm++) if (P::get_modulus(cm) < pmin) pmin = P::get_modulus(cm);
    std::vector<Pat> out;
    for (size_t k = 0; k < count; k++) {
      T z = k < 4 ? (T)(pmin - 1 - k) : (T)(pmin - 1 - g.below(pmin / 8));
      Pat r(M); for (size_t cm = 0; cm < M; cm++) r[cm] = z;   // z < every modulus
      out.push_back(r);
    }
    return out;
  }

  // every residue within a few bits of its maximum, independently: the accumulated sum Σ r_i·L_i is within a few percent of
  // its maximum while the lifted value is spread over [0,Q) and the low limbs of the sum are arbitrary — the inputs on
  // which an estimate that drops low limbs / has no headroom left in its shift is short by two
  static std::vector<Pat> near_max(Rng& g, size_t count) {
    std::vector<Pat> out;
    for (size_t k = 0; k < count; k++) {
      const unsigned b = 1 + (unsigned)g.below(sizeof(T) * 8 - 3);   // d_i < 2^b, b varies per pattern
      Pat r(M);
      for (size_t cm = 0; cm < M; cm++) { T p = P::get_modulus(cm); T d = (T)(g.next() & ((((uint64_t)1) << b) - 1)); r[cm] = (T)(p - 1 - (d % p)); }
      out.push_back(r);
    }
    return out;
  }

  // light run for sweeping the number of moduli: constants + lifts of the sensitive patterns only
  static void run_lite(Rng& g) {
    alignas(32) static P a;
    // CRT_NOINIT: lifts only (the quick tier sweeps every number of moduli of the 64-bit table this way; the constants of
    // those configurations are checked line by line in the thorough tier, where the driver's cost of re-deriving them is affordable)
    static const bool noinit = env_u64("CRT_NOINIT", 0) != 0;
    if (!noinit) {
      head("crtinit"); printf(" =>");
      pz(P::gmp.moduli_product);
      printf(" %zu %zu", P::gmp.bits_in_moduli_product, P::gmp.shift_modulus_shoup);
      pz(P::gmp.modulus_shoup);
      printf(" %zu", P::gmp.bits_in_modulus_shoup);
      for (size_t cm = 0; cm < M; cm++) pz(P::gmp.lifting_integers[cm]);
      printf("\n");
    }
    std::vector<Pat> pats = {cst(2), cst(1), rnd(g), mix(g)};
    for (auto& r : big_small(g, (M > 128 && !std::is_same<T, uint32_t>::value) ? 400 : thorough() ? 1500 : 800)) pats.push_back(r);
    for (auto& r : near_max(g, noinit ? 160 : (M > 128 && !std::is_same<T, uint32_t>::value) ? 400 : thorough() ? 600 : 200)) pats.push_back(r);
    while (pats.size() % N) pats.push_back(rnd(g));
    // beyond the swept range of the Lean-checked lines (M > LITE_FULL) the harness filters: every lift is checked here
    // against the property's own statement with GMP (0 <= x < Q, x mod p_i = r_i) and only the first few lines per
    // configuration plus EVERY line that fails that test are passed on to the driver (which then reports them)
    const bool filter = noinit || (M > 128 && !std::is_same<T, uint32_t>::value);
    mpz_class Q(P::moduli_product());
    size_t emitted = 0, failed_emitted = 0;
    for (size_t off = 0; off < pats.size(); off += N) {
      fill(a, pats, off);
      std::array<mpz_t, N> arr; init_arr(arr);
      a.poly2mpz(arr);
      for (size_t i = 0; i < N; i++) {
        bool ok = mpz_sgn(arr[i]) >= 0 && mpz_cmp(arr[i], Q.get_mpz_t()) < 0;
        for (size_t cm = 0; ok && cm < M; cm++) ok = mpz_fdiv_ui(arr[i], P::get_modulus(cm)) == a(cm, i);
        // failing lifts: the first 6 of each configuration in full (a tree on which EVERY lift fails would otherwise send
        // hundreds of thousand-limb lines per configuration through the driver: half an hour instead of a minute)
        if (!filter || emitted < 4 || (!ok && failed_emitted < 6)) { emit_lift_line("lift", a, i, arr[i]); emitted++; if (!ok) failed_emitted++; }
      }
      clear_arr(arr);
    }
  }

  static std::vector<size_t> positions(Rng& g) {
    std::vector<size_t> J;
    if (M <= 6 || (thorough() && M <= 64)) { for (size_t j = 0; j < M; j++) J.push_back(j); }
    else { J = {0, 1, M - 1}; for (int k = 0; k < (thorough() ? 9 : 2); k++) J.push_back((size_t)g.below(M)); }
    return J;
  }

  static void emit_lift_line(const char* op, const P& a, size_t i, const mpz_t x) {
    head(op); put_coeff(a, i); printf(" =>"); pz(x); printf("\n");
  }

  static void run(Rng& g) {
    const size_t R = thorough() ? (M > 128 ? 8 : 24) : 6;
    alignas(32) static P a, b, c, d, e;
    // ---------------------------------------------------------------- constants of GMP::GMP()
    head("crtinit"); printf(" =>");
    pz(P::gmp.moduli_product);
    printf(" %zu %zu", P::gmp.bits_in_moduli_product, P::gmp.shift_modulus_shoup);
    pz(P::gmp.modulus_shoup);
    printf(" %zu", P::gmp.bits_in_modulus_shoup);
    for (size_t cm = 0; cm < M; cm++) pz(P::gmp.lifting_integers[cm]);
    printf("\n");
    mpz_class Q(P::moduli_product());  // public accessor
    const size_t bitsQ = mpz_sizeinbase(Q.get_mpz_t(), 2);

    // ---------------------------------------------------------------- residue patterns -> poly2mpz
    std::vector<Pat> pats = {cst(0), cst(2), cst(1), mix(g), sparse(g)};
    // residues of small integers: the accumulated sum is k·Q + (small), the case in which the quotient estimate
    // is one short and the conditional subtraction fires
    for (unsigned v : {2u, 3u, 1000u}) { Pat r(M); for (size_t cm = 0; cm < M; cm++) r[cm] = (T)(v % P::get_modulus(cm)); pats.push_back(r); }
    { Pat r(M); uint64_t z = g.next() >> 20; for (size_t cm = 0; cm < M; cm++) r[cm] = (T)(z % P::get_modulus(cm)); pats.push_back(r); }
    for (auto& r : big_small(g, thorough() ? 64 : 12)) pats.push_back(r);
    for (auto& r : near_max(g, thorough() ? 64 : 12)) pats.push_back(r);
    for (size_t j : positions(g)) { pats.push_back(onehot(j, false)); pats.push_back(onehot(j, true)); pats.push_back(allmax_but(j)); }
    for (size_t k = 0; k < R; k++) pats.push_back(rnd(g));
    while (pats.size() % N) pats.push_back(rnd(g));
    for (size_t off = 0, gi = 0; off < pats.size(); off += N, gi++) {
      fill(a, pats, off);
      std::array<mpz_t, N> arr; init_arr(arr);
      a.poly2mpz(arr);
      head("poly2mpz"); printf(" %zu 0", N); put_data(a); printf(" =>"); for (auto& x : arr) pz(x); printf("\n");
      for (size_t i = 0; i < N; i++) emit_lift_line("lift", a, i, arr[i]);
      // mpz2poly ∘ poly2mpz
      b.mpz2poly(arr);
      for (size_t i = 0; i < N; i++) { head("crt_rt2"); put_coeff(a, i); printf(" =>"); put_coeff(b, i); printf("\n"); }
      clear_arr(arr);
      if (gi < 2 || (thorough() && M <= 128)) {
        std::array<mpz_t, N> r1 = a.poly2mpz();  // returning overload
        head("poly2mpz"); printf(" %zu 1", N); put_data(a); printf(" =>"); for (auto& x : r1) pz(x); printf("\n");
        clear_arr(r1);
        PP pa; fill(pa, pats, off);
        std::array<mpz_t, N> r2; init_arr(r2);
        pa.poly2mpz(r2);
        head("poly2mpz"); printf(" %zu 2", N); put_data(a); printf(" =>"); for (auto& x : r2) pz(x); printf("\n");
        clear_arr(r2);
        std::array<mpz_t, N> r3 = pa.poly2mpz();
        head("poly2mpz"); printf(" %zu 3", N); put_data(a); printf(" =>"); for (auto& x : r3) pz(x); printf("\n");
        clear_arr(r3);
      }
    }

    // ---------------------------------------------------------------- ring laws, coefficient-wise
    std::vector<Pat> pa_, pb_;
    auto pair = [&](Pat x, Pat y) { pa_.push_back(x); pb_.push_back(y); };
    pair(cst(2), cst(2)); pair(cst(2), cst(1)); pair(cst(1), cst(2)); pair(cst(0), rnd(g)); pair(rnd(g), cst(0));
    { Pat x = rnd(g); pair(x, x); }
    { Pat x = rnd(g), y(M); for (size_t cm = 0; cm < M; cm++) y[cm] = (T)((P::get_modulus(cm) - x[cm]) % P::get_modulus(cm)); pair(x, y); }
    pair(onehot(0, true), cst(2)); pair(onehot(M - 1, false), onehot(0, false)); pair(mix(g), mix(g));
    for (size_t k = 0; k < R; k++) pair(rnd(g), rnd(g));
    while (pa_.size() % N) pair(rnd(g), rnd(g));
    for (size_t off = 0; off < pa_.size(); off += N) {
      fill(a, pa_, off); fill(b, pb_, off);
      c = a + b; d = a - b; e = a * b;
      std::array<mpz_t, N> la, lb, lc, ld, le;
      init_arr(la); init_arr(lb); init_arr(lc); init_arr(ld); init_arr(le);
      a.poly2mpz(la); b.poly2mpz(lb); c.poly2mpz(lc); d.poly2mpz(ld); e.poly2mpz(le);
      const char* names[3] = {"liftadd", "liftsub", "liftmul"};
      std::array<mpz_t, N>* res[3] = {&lc, &ld, &le};
      for (int o = 0; o < 3; o++)
        for (size_t i = 0; i < N; i++) {
          head(names[o]); put_coeff(a, i); put_coeff(b, i); printf(" =>"); pz((*res[o])[i]); pz(la[i]); pz(lb[i]); printf("\n");
        }
      clear_arr(la); clear_arr(lb); clear_arr(lc); clear_arr(ld); clear_arr(le);
    }

    // ---------------------------------------------------------------- transform-based product
    {
      std::vector<std::pair<int, int>> kinds = {{2, 2}, {3, 3}, {4, 5}, {3, 2}};  // 2 all-(p-1), 3 random, 4 X^(N-1), 5 X
      if (thorough()) { kinds.push_back({3, 3}); kinds.push_back({3, 4}); }
      auto fillk = [&](P& x, int kind) {
        for (size_t cm = 0; cm < M; cm++) for (size_t i = 0; i < N; i++) {
          T p = P::get_modulus(cm);
          x(cm, i) = kind == 2 ? (T)(p - 1) : kind == 3 ? (T)g.below(p) : kind == 4 ? (T)(i == N - 1) : (T)(i == 1 % N);
        }
      };
      for (auto kd : kinds) {
        fillk(a, kd.first); fillk(b, kd.second);
        c = a; d = b; c.ntt_pow_phi(); d.ntt_pow_phi();
        e = c * d; e.invntt_pow_invphi();
        std::array<mpz_t, N> la, lb, le; init_arr(la); init_arr(lb); init_arr(le);
        a.poly2mpz(la); b.poly2mpz(lb); e.poly2mpz(le);
        head("liftpmul"); printf(" %zu", N); put_data(a); put_data(b); printf(" =>");
        for (auto& x : le) pz(x); for (auto& x : la) pz(x); for (auto& x : lb) pz(x); printf("\n");
        clear_arr(la); clear_arr(lb); clear_arr(le);
      }
    }

    // ---------------------------------------------------------------- integers -> mpz2poly / set_mpz / constructors
    gmp_randclass rz(gmp_randinit_default);
    rz.seed((unsigned long)g.next());
    mpz_class two300; mpz_ui_pow_ui(two300.get_mpz_t(), 2, 300);
    mpz_class two64; mpz_ui_pow_ui(two64.get_mpz_t(), 2, 64);
    mpz_class p0((unsigned long)P::get_modulus(0)), pl((unsigned long)P::get_modulus(M - 1));
    std::vector<mpz_class> zs = {0, 1, -1, Q - 1, Q, Q + 1, -Q, -Q + 1, -Q - 1, 2 * Q, two300, -two300, two300 - 1,
                                 Q * two300 + 5, -(Q * two300 + 5), two64 - 1, two64, -two64, two64 / 2, -(two64 / 2),
                                 p0, -p0, p0 * pl, Q / p0, -(Q / p0), -pl + 1};
    auto rbits = [&](size_t n) { mpz_class r = rz.get_z_bits(n); return r; };
    auto rrange = [&]() { mpz_class r = rz.get_z_range(Q); return r; };
    for (size_t k = 0; k < R; k++) {
      zs.push_back(rrange());
      zs.push_back(rbits(2 * bitsQ));
      zs.push_back(-rbits(2 * bitsQ));
      zs.push_back(-rbits(64));
      zs.push_back(-rrange());
    }
    while (zs.size() % N) zs.push_back(rbits(bitsQ + 7));
    alignas(32) static unsigned char buf[sizeof(P)];
    for (size_t off = 0, gi = 0; off < zs.size(); off += N, gi++) {
      std::array<mpz_t, N> za; std::array<mpz_class, N> zc;
      for (size_t i = 0; i < N; i++) { mpz_init_set(za[i], zs[off + i].get_mpz_t()); zc[i] = zs[off + i]; }
      auto emit = [&](int via, const P& x) {
        head("mpz2poly"); printf(" %zu %d", N, via); for (size_t i = 0; i < N; i++) pz(zs[off + i]); printf(" =>"); put_data(x); printf("\n");
      };
      a.mpz2poly(za); emit(0, a);
      for (size_t i = 0; i < N; i++) { head("mpz2polyc"); pz(zs[off + i]); printf(" =>"); put_coeff(a, i); printf("\n"); }
      std::array<mpz_t, N> back; init_arr(back);
      a.poly2mpz(back);
      for (size_t i = 0; i < N; i++) { head("crt_rt"); pz(zs[off + i]); printf(" =>"); pz(back[i]); printf("\n"); }
      clear_arr(back);
      for (int via = 1; via <= 8; via++) {
        if (via == 1 || via == 3) continue;
        if (!(thorough() && M <= 128) && (int)(gi % 8) + 1 != via && !((gi % 8 == 0 || gi % 8 == 2) && via == 2)) continue;
        switch (via) {
          // via 1 / 3 (set_mpz / constructor from std::array<mpz_t,N>) do not compile in the library:
          // set_mpz(It,It) calls viter->get_mpz_t() on an mpz_t — uninstantiable members, nothing to run.
          case 2: b = (T)0; b.set_mpz(zc); emit(2, b); break;
          case 4: { P* q = new (buf) P(zc); emit(4, *q); q->~P(); } break;
          case 5: b = (T)0; b = zc; emit(5, b); break;
          case 6: { PP q; q.mpz2poly(za); emit(6, q.poly_obj()); } break;
          case 7: { PP q; q.set_mpz(zc); emit(7, q.poly_obj()); } break;
          case 8: { PP q(zc); emit(8, q.poly_obj()); } break;
        }
      }
      for (auto& x : za) mpz_clear(x);
    }
    // scalar / short / block forms of set_mpz
    auto emit_set = [&](int via, const std::vector<mpz_class>& v, const P* x) {
      head("crt_setmpz"); printf(" %zu %d %zu", N, via, v.size()); for (auto& z : v) pz(z); printf(" =>");
      if (x) put_data(*x); else printf(" -1");
      printf("\n");
    };
    const bool allvias = thorough() && M <= 128;
    size_t nscal = allvias ? zs.size() : std::min<size_t>(zs.size(), 28);
    for (size_t k = 0; k < nscal; k++) {
      const mpz_class& z = zs[k];
      for (int via = 10; via <= 18; via++) {
        if (via == 14 || via == 16) continue;
        if (!allvias && 10 + (int)(k % 9) != via) continue;
        switch (via) {
          case 10: { mpz_t t; mpz_init_set(t, z.get_mpz_t()); b = (T)1; b.set_mpz(t); emit_set(via, {z}, &b); mpz_clear(t); } break;
          case 11: b = (T)1; b.set_mpz(z); emit_set(via, {z}, &b); break;
          case 12: { mpz_t t; mpz_init_set(t, z.get_mpz_t()); P* q = new (buf) P(t); emit_set(via, {z}, q); q->~P(); mpz_clear(t); } break;
          case 13: { P* q = new (buf) P(z); emit_set(via, {z}, q); q->~P(); } break;
          case 15: b = (T)1; b = z; emit_set(via, {z}, &b); break;
          case 17: { PP q; q.set_mpz(z); emit_set(via, {z}, &q.poly_obj()); } break;
          case 18: { PP q(z); emit_set(via, {z}, &q.poly_obj()); } break;
        }
      }
      if (N >= 2 && k + 1 < zs.size() && k % 4 == 0) {
        std::initializer_list<mpz_class> il = {zs[k], zs[k + 1]};
        b = (T)1; b.set_mpz(il); emit_set(14, {zs[k], zs[k + 1]}, &b);
      }
    }
    // iterator form: every admissible size class and the rejected ones
    std::vector<size_t> sizes = {0, 1, N - 1, N, N * M, N + 1, N * M + 1, N * M - 1, 2 * N};
    for (size_t sz : sizes) {
      std::vector<mpz_class> v;
      // long vectors carry shorter integers (still wider than a limb and of both signs) to bound the line length
      const size_t nb = sz > 2 * N ? std::min<size_t>(2 * bitsQ, 200) : 2 * bitsQ;
      for (size_t k = 0; k < sz; k++) v.push_back(k % 3 == 0 ? mpz_class(-rbits(nb / 2 + 3)) : rbits(nb));
      b = (T)1;
      try { b.set_mpz(v.begin(), v.end()); emit_set(16, v, &b); }
      catch (std::runtime_error const&) { emit_set(16, v, nullptr); }
    }
  }
};

template <class T, size_t N, size_t M> static void cfg(Rng& g) { Cfg<T, N, M>::run(g); }
// every number of moduli M0+1 … M0+count (the lift does not depend on the degree: degree 2)
template <class T, size_t M0, size_t... I> static void lite_range(Rng& g, std::index_sequence<I...>) { (Cfg<T, 2, M0 + 1 + I>::run_lite(g), ...); }

int main() {
  Rng g(env_u64("VERIF_SEED", 1));
#ifdef CRT_SMALL   // sanitizer build of the quick tier: few instantiations
  cfg<uint16_t, 4, 2>(g); cfg<uint32_t, 4, 3>(g); cfg<uint64_t, 4, 2>(g); cfg<uint64_t, 2, 9>(g);
  return 0;
#endif
#ifdef CRT_CHUNK   // quick tier: 8 separately compiled slices of "every number of 64-bit moduli 25..1000", lifts only (CRT_NOINIT=1)
  { Rng gc(env_u64("VERIF_SEED", 1) * 8 + CRT_CHUNK);
    lite_range<uint64_t, 24 + CRT_CHUNK * 122>(gc, std::make_index_sequence<122>{}); }
  return 0;
#endif
#ifdef CRT_ONLY_ALL64
  lite_range<uint64_t, 128>(g, std::make_index_sequence<436>{});
  lite_range<uint64_t, 564>(g, std::make_index_sequence<436>{});
  return 0;
#endif
  cfg<uint16_t, 4, 1>(g); cfg<uint16_t, 4, 2>(g);
  cfg<uint32_t, 4, 1>(g); cfg<uint32_t, 4, 2>(g); cfg<uint32_t, 4, 3>(g); cfg<uint32_t, 4, 4>(g); cfg<uint32_t, 4, 5>(g);
  cfg<uint32_t, 2, 37>(g); cfg<uint32_t, 2, 64>(g);
  cfg<uint64_t, 4, 1>(g); cfg<uint64_t, 4, 2>(g); cfg<uint64_t, 4, 3>(g); cfg<uint64_t, 4, 4>(g);
  cfg<uint64_t, 2, 25>(g);
  // sweep of the number of moduli (quick: 1..48 for 32 bit, 1..24 for 64 bit; thorough: every count of the 32-bit table)
  lite_range<uint32_t, 0>(g, std::make_index_sequence<48>{});
  lite_range<uint64_t, 0>(g, std::make_index_sequence<24>{});
#ifdef CRT_THOROUGH
  lite_range<uint32_t, 48>(g, std::make_index_sequence<243>{});
  lite_range<uint64_t, 24>(g, std::make_index_sequence<104>{});

  cfg<uint16_t, 8, 2>(g);
  cfg<uint32_t, 8, 7>(g); cfg<uint32_t, 2, 8>(g); cfg<uint32_t, 2, 16>(g); cfg<uint32_t, 2, 64>(g); cfg<uint32_t, 2, 100>(g);
  cfg<uint32_t, 2, 128>(g); cfg<uint32_t, 2, 200>(g); cfg<uint32_t, 2, 256>(g); cfg<uint32_t, 2, 290>(g); cfg<uint32_t, 2, 291>(g);
  cfg<uint64_t, 8, 5>(g); cfg<uint64_t, 2, 8>(g); cfg<uint64_t, 2, 16>(g); cfg<uint64_t, 2, 64>(g); cfg<uint64_t, 2, 128>(g);
  cfg<uint64_t, 2, 300>(g); cfg<uint64_t, 2, 1000>(g);
#endif
  return 0;
}
