// C09 / C12 correspondence harness: every creator of a polynomial, run on the REAL code with the random
// stream replaced at link time by a scripted tape (this file defines nfl::fastrandombytes; lib/prng is
// not linked).  One line per call:
//   uni  w n nm via            T => out          T = <#requests> (<len> <bytes…>)…  exactly as served
//   bnd  w n nm via B A        T => out | -1     (-1: the code threw)
//   zo   w n nm via rho        T => out
//   hwt  w n nm via h          T => out
//   hwtw w n nm via h          T' => out         same creator at degree > 64; T' = <#requests> (<len in 64-bit words> <words…>)…
//                                                (the served bytes read as little-endian words: 8x fewer tokens)
//   gau  w n nm via amp noise… => out           noise = what getNoise wrote (signed limbs), same tape
//   cval w n nm via v red => out ; clist w n nm via red size vals… => out|-1 ; cmpz w n nm via size vals… => out|-1
//   umask w cm => mask                          mask of set(uniform) extracted bit by bit from the real code
// via: 0 poly ctor, 1 poly::set on a dirty object, 2 poly::operator=, 3 poly_p ctor, 4 poly_p::operator=
// A call that does not return (sanitizer report, assert of the library) leaves `INFLIGHT <op> w n nm via params… script…`
// on stderr: the input of that call (tools/samplers_streams.py reports it as a failing input).
// Parameter plan of the samplers (beside the tape): fixed weight h x degree (weight_classes / hwt_weights), bound B x limb
// width (bound_list, bound_list_ext), amplifier A, rho (all 256 at degree 256; extremes at the largest degrees).
#include "common.hpp"
#include <nfl.hpp>
#include <gmpxx.h>
#include <memory>
#include <set>
#include <algorithm>
#include <stdexcept>

#include <csignal>
#include <unistd.h>
#include <dlfcn.h>
#if defined(__SANITIZE_ADDRESS__)
extern "C" void __sanitizer_set_death_callback(void (*callback)(void));
#define HAVE_SAN 1
#else
#define HAVE_SAN 0
#endif

using namespace vh;

// ---- the call in flight: if the process dies inside a creator (sanitizer report, assert, signal) the left-hand side of
// the line that would have been printed goes to stderr as `INFLIGHT <op> w n nm via params… script <#units> <units…>`
// (the SCRIPT, not the served requests: the call did not return); tools/samplers_streams.py turns it into a failing input
namespace inflight {
static const char* op = nullptr;
static char hdr[160];
static void on_death();
}

namespace tp {
static std::vector<uint8_t> script;
static size_t pos = 0;
static std::vector<std::vector<uint8_t>> served;
static void load(std::vector<uint8_t> s) { script = std::move(s); pos = 0; served.clear(); }
static void rewind() { pos = 0; served.clear(); }
}  // namespace tp

namespace nfl {
void fastrandombytes(unsigned char* r, unsigned long long rlen) {
  std::vector<uint8_t> got((size_t)rlen);
  for (size_t i = 0; i < got.size(); i++) got[i] = tp::pos < tp::script.size() ? tp::script[tp::pos++] : 0;
  if (rlen) memcpy(r, got.data(), (size_t)rlen);
  tp::served.push_back(std::move(got));
}
}  // namespace nfl

namespace inflight {
static void on_death() {
  if (!op) return;  // not inside a creator (e.g. the leak report at exit)
  fflush(stdout);
  const bool w8 = tp::script.size() % 8 == 0;
  fprintf(stderr, "\nINFLIGHT %s %s script-%s %zu", op, hdr, w8 ? "words64" : "bytes", w8 ? tp::script.size() / 8 : tp::script.size());
  if (w8) for (size_t i = 0; i + 8 <= tp::script.size(); i += 8) {
    uint64_t x = 0;
    for (int b = 7; b >= 0; b--) x = (x << 8) | tp::script[i + b];
    fprintf(stderr, " %llu", (unsigned long long)x);
  } else for (uint8_t b : tp::script) fprintf(stderr, " %u", (unsigned)b);
  fprintf(stderr, " served-requests %zu", tp::served.size());
  for (auto& r : tp::served) fprintf(stderr, " %zu", r.size());
  fprintf(stderr, "\n");
  fflush(stderr);
  op = nullptr;
}
static void on_signal(int) { on_death(); _exit(96); }
static void install() {
#if HAVE_SAN
  __sanitizer_set_death_callback(on_death);
  // g++ links libasan and libubsan as two shared objects, each with its own copy of the common runtime: the symbol above
  // is libasan's; UBSan's halt goes through libubsan's copy
  for (const char* lib : {"libubsan.so.1", "libubsan.so"})
    if (void* hnd = dlopen(lib, RTLD_NOLOAD | RTLD_LAZY)) {
      if (void* f = dlsym(hnd, "__sanitizer_set_death_callback")) ((void (*)(void (*)(void)))f)(on_death);
      break;
    }
#endif
  signal(SIGABRT, on_signal);  // assert() of the library; under a sanitizer SEGV/BUS/FPE are its reports (-> death callback)
#if !HAVE_SAN
  signal(SIGSEGV, on_signal); signal(SIGFPE, on_signal); signal(SIGBUS, on_signal);
#endif
}
struct Scope {  // marks "inside a creator"
  Scope(const char* o, int w, size_t n, size_t nm, int via, unsigned long long p0, unsigned long long p1, int np) {
    if (np == 0) snprintf(hdr, sizeof hdr, "%d %zu %zu %d", w, n, nm, via);
    else if (np == 1) snprintf(hdr, sizeof hdr, "%d %zu %zu %d %llu", w, n, nm, via, p0);
    else snprintf(hdr, sizeof hdr, "%d %zu %zu %d %llu %llu", w, n, nm, via, p0, p1);
    op = o;
  }
  ~Scope() { op = nullptr; }
};
}  // namespace inflight
#define INFLIGHT(P, opname, via, p0, p1, np) \
  inflight::Scope inflight_scope(opname, bits<typename P::value_type>(), (size_t)P::degree, (size_t)P::nmoduli, via, (unsigned long long)(p0), (unsigned long long)(p1), np)

template <class T> static void push_word(std::vector<uint8_t>& s, T x) {
  for (size_t b = 0; b < sizeof(T); b++) s.push_back((uint8_t)((uint64_t)x >> (8 * b)));
}

static void print_tape() {
  printf(" %zu", tp::served.size());
  for (auto& r : tp::served) {
    printf(" %zu", r.size());
    for (uint8_t b : r) printf(" %u", (unsigned)b);
  }
}

static bool served_in_words() {
  for (auto& r : tp::served) if (r.size() % 8) return false;
  return true;
}
static void print_tape_words() {
  printf(" %zu", tp::served.size());
  for (auto& r : tp::served) {
    printf(" %zu", r.size() / 8);
    for (size_t i = 0; i + 8 <= r.size(); i += 8) {
      uint64_t x = 0;
      for (int b = 7; b >= 0; b--) x = (x << 8) | r[i + b];
      printf(" %llu", (unsigned long long)x);
    }
  }
}

template <class P> static void print_out(P const& p) {
  for (size_t cm = 0; cm < P::nmoduli; cm++)
    for (size_t i = 0; i < P::degree; i++) printf(" %llu", (unsigned long long)p(cm, i));
}

template <class P> static void dirty(P& p) { memset((void*)p.data(), 0xAB, sizeof(typename P::value_type) * P::degree * P::nmoduli); }

// run creator `d` through entry point `via`; returns nullptr if the code threw
template <class P, class D> static std::unique_ptr<P> create(int via, D const& d) {
  using T = typename P::value_type;
  using PP = nfl::poly_p<T, P::degree, P::nmoduli>;
  try {
    switch (via) {
      case 0: return std::unique_ptr<P>(new P(d));
      case 1: { std::unique_ptr<P> q(new P); dirty(*q); q->set(d); return q; }
      case 2: { std::unique_ptr<P> q(new P); dirty(*q); *q = d; return q; }
      case 3: { PP pp(d); std::unique_ptr<P> q(new P); memcpy((void*)q->data(), pp.poly_obj().data(), sizeof(T) * P::degree * P::nmoduli); return q; }
      default: { PP pp; dirty(pp.poly_obj()); pp = d; std::unique_ptr<P> q(new P); memcpy((void*)q->data(), pp.poly_obj().data(), sizeof(T) * P::degree * P::nmoduli); return q; }
    }
  } catch (std::runtime_error const&) {
    return nullptr;
  }
}

template <class P> static void head(const char* op, int via) {
  printf("%s %d %zu %zu %d", op, bits<typename P::value_type>(), (size_t)P::degree, (size_t)P::nmoduli, via);
}
template <class P> static void tail(std::unique_ptr<P> const& q) {
  printf(" =>");
  if (!q) printf(" -1"); else print_out(*q);
  printf("\n");
}

static int g_via = 0;
static int next_via() { return (g_via++) % 5; }

// ------------------------------------------------------------------------------------------ uniform
template <class T> static T uni_mask_ref(T p) {  // bit length of p, on integers (only to *choose* boundary words)
  int b = 0; for (uint64_t v = p; v; v >>= 1) b++;
  return b >= 64 ? (T)~0ULL : (T)((1ULL << b) - 1);
}

template <class P> static void uni_line(std::vector<typename P::value_type> const& words) {
  using T = typename P::value_type;
  std::vector<uint8_t> s;
  for (T x : words) push_word<T>(s, x);
  tp::load(s);
  int via = next_via();
  std::unique_ptr<P> q;
  { INFLIGHT(P, "uni", via, 0, 0, 0); q = create<P>(via, nfl::uniform()); }
  head<P>("uni", via); print_tape(); tail(q);
}

template <class P> static void uni_boundary(Rng& g, int lines) {
  using T = typename P::value_type;
  const size_t n = P::degree, nm = P::nmoduli;
  for (int l = 0; l < lines; l++) {
    std::vector<T> w(n * nm);
    for (size_t cm = 0; cm < nm; cm++) {
      T p = P::get_modulus(cm), m = uni_mask_ref<T>(p);
      T sp[] = {0, 1, (T)(p - 1), p, (T)(p + 1), m, (T)(m + 1), (T)~(T)0, (T)(2 * p - 1), (T)(2 * p), (T)(m - 1), (T)(p - 2),
                (T)(m + 1 + p), (T)((T)~(T)0 - p), (T)(m >> 1), (T)((m >> 1) + 1)};
      const size_t ns = sizeof(sp) / sizeof(sp[0]);
      for (size_t i = 0; i < n; i++) {
        size_t k = i + (size_t)l * n;
        w[cm * n + i] = (k < ns) ? sp[k] : (g.next() & 1 ? (T)g.next() : (T)(g.next() & m));
      }
    }
    uni_line<P>(w);
  }
}

// all 2^16 words, each fed to both moduli (quick and thorough)
static void uni_enum16(uint64_t seed) {
  typedef nfl::poly<uint16_t, 256, 2> P;
  uint16_t x0 = (uint16_t)(seed * 40503u);
  for (unsigned blk = 0; blk < 256; blk++) {
    std::vector<uint16_t> w(512);
    for (unsigned i = 0; i < 256; i++) w[i] = w[256 + i] = (uint16_t)((blk * 256 + i) ^ x0);
    uni_line<P>(w);
  }
}

// mask of set(uniform) for EVERY table row, extracted from the real code: word (cm,i) = 2^i
template <class P> static void umask_all() {
  using T = typename P::value_type;
  static_assert(P::degree == 8 * sizeof(T), "one coefficient per bit");
  std::vector<uint8_t> s;
  for (size_t cm = 0; cm < P::nmoduli; cm++)
    for (size_t i = 0; i < P::degree; i++) push_word<T>(s, (T)((T)1 << i));
  tp::load(s);
  std::unique_ptr<P> q(new P(nfl::uniform()));
  for (size_t cm = 0; cm < P::nmoduli; cm++) {
    uint64_t mask = 0;
    for (size_t i = 0; i < P::degree; i++) if ((*q)(cm, i) != 0) mask |= (1ULL << i);
    printf("umask %d %zu => %llu\n", bits<T>(), cm, (unsigned long long)mask);
  }
}

// ------------------------------------------------------------------------------------------ bounded
template <class P> static void bnd_line(uint64_t B, uint64_t A, std::vector<typename P::value_type> const& words) {
  using T = typename P::value_type;
  std::vector<uint8_t> s;
  for (T x : words) push_word<T>(s, x);
  tp::load(s);
  int via = next_via();
  std::unique_ptr<P> q;
  { INFLIGHT(P, "bnd", via, B, A, 2); q = create<P>(via, nfl::non_uniform(B, A)); }
  head<P>("bnd", via);
  printf(" %llu %llu", (unsigned long long)B, (unsigned long long)A);
  print_tape(); tail(q);
}

template <class P> static void bnd_boundary(Rng& g, uint64_t B, uint64_t A, int lines) {
  using T = typename P::value_type;
  const size_t n = P::degree;
  uint64_t t = 2 * B - 1;
  int bl = 0; for (uint64_t v = t; v; v >>= 1) bl++;
  uint64_t m = bl >= 64 ? ~0ULL : (1ULL << bl) - 1;
  for (int l = 0; l < lines; l++) {
    T sp[] = {0, 1, (T)(B - 1), (T)B, (T)(B + 1), (T)(t - 1), (T)t, (T)(t + 1), (T)m, (T)(m + 1), (T)~(T)0, (T)(m - 1),
              (T)(B - 2), (T)(t + B - 1), (T)(t + B), (T)(m >> 1)};
    const size_t ns = sizeof(sp) / sizeof(sp[0]);
    std::vector<T> w(n);
    for (size_t i = 0; i < n; i++) {
      size_t k = i + (size_t)l * n;
      w[i] = (k < ns) ? sp[k] : (g.next() & 1 ? (T)g.next() : (T)(g.next() & m));
    }
    bnd_line<P>(B, A, w);
  }
}

static void bnd_enum16(uint64_t B, uint64_t A, uint64_t seed) {
  typedef nfl::poly<uint16_t, 256, 2> P;
  uint16_t x0 = (uint16_t)(seed * 40503u + 77);
  for (unsigned blk = 0; blk < 256; blk++) {
    std::vector<uint16_t> w(256);
    for (unsigned i = 0; i < 256; i++) w[i] = (uint16_t)((blk * 256 + i) ^ x0);
    bnd_line<P>(B, A, w);
  }
}

static std::vector<uint64_t> bound_list(uint64_t pmin, int maxlog) {
  std::vector<uint64_t> v = {1, 2, 3, 5, 6, 7, 100, 1000};
  for (int j = 2; j <= maxlog; j++) { v.push_back((1ULL << j) - 1); v.push_back(1ULL << j); v.push_back((1ULL << j) + 1); }
  v.push_back(pmin - 2); v.push_back(pmin - 1); v.push_back(pmin); v.push_back(pmin + 1);  // last two: the code throws
  std::vector<uint64_t> r;
  for (uint64_t b : v) if (b >= 1 && b <= pmin + 1) r.push_back(b);
  return r;
}

// BOUND x LIMB WIDTH: 2^j-1, 2^j, 2^j+1 for lo <= j <= hi (the powers of two bound_list leaves out in this tier), and -- the
// parameter is a uint64_t whatever the limb -- bounds AT and BEYOND the limb width (2^w-1 .. 2^w+4: a bound truncated to
// the limb would look like 0..4; same around 2^32 for the 16-bit limb), 2^63(+1,+3), 2^64-2, 2^64-1: the code must throw
static std::vector<uint64_t> bound_list_ext(uint64_t pmin, int lo, int hi, int wbits) {
  std::vector<uint64_t> r;
  for (int j = lo; j <= hi; j++) for (int d = -1; d <= 1; d++) { uint64_t b = (1ULL << j) + d; if (b <= pmin + 1) r.push_back(b); }
  if (wbits < 64) for (uint64_t d : {0ull, 1ull, 2ull, 3ull, 5ull}) r.push_back((1ULL << wbits) - 1 + d);
  if (wbits < 32) for (uint64_t d : {0ull, 1ull, 2ull, 3ull}) r.push_back((1ULL << 32) - 1 + d);
  for (uint64_t b : {1ULL << 63, (1ULL << 63) + 1, (1ULL << 63) + 3, ~0ULL - 1, ~0ULL}) r.push_back(b);
  return r;
}

template <class P> static void bnd_family(Rng& g, int maxlog, int lines) {
  uint64_t pmin = P::get_modulus(0);
  for (size_t cm = 1; cm < P::nmoduli; cm++) pmin = std::min<uint64_t>(pmin, P::get_modulus(cm));
  const uint64_t As[] = {1, 2, 3, 1024};
  for (uint64_t B : bound_list(pmin, maxlog))
    for (uint64_t A : As) {
      bool adm = B < pmin && (B == 1 || A <= (pmin - 1) / (B - 1));
      // inadmissible amplifiers (A*(B-1) >= p): run the real code on a few of them and let the driver report
      if (!adm && B < pmin && !(A == 1024 || g.below(4) == 0)) continue;
      bnd_boundary<P>(g, B, A, lines);
    }
}

template <class P> static void bnd_family_ext(Rng& g, int lo, int hi) {
  uint64_t pmin = P::get_modulus(0);
  for (size_t cm = 1; cm < P::nmoduli; cm++) pmin = std::min<uint64_t>(pmin, P::get_modulus(cm));
  for (uint64_t B : bound_list_ext(pmin, lo, hi, bits<typename P::value_type>()))
    for (uint64_t A : {1ull, 2ull, 3ull, 1024ull}) {
      bool adm = B < pmin && (B == 1 || A <= (pmin - 1) / (B - 1));
      if (!adm && !(A == 1 || A == 1024)) continue;   // excluded points / throwing bounds: two amplifiers are enough
      bnd_boundary<P>(g, B, A, 1);
    }
}

// --------------------------------------------------------------------------------------------- ZO
template <class P> static void zo_line(unsigned rho, std::vector<uint8_t> const& bytes) {
  tp::load(bytes);
  int via = next_via();
  std::unique_ptr<P> q;
  { INFLIGHT(P, "zo", via, rho, 0, 1); q = create<P>(via, nfl::ZO_dist((uint8_t)rho)); }
  head<P>("zo", via);
  printf(" %u", rho);
  print_tape(); tail(q);
}

// --------------------------------------------------------------------------------------------- hwt
// run the real creator on a script of 64-bit words (padded to whole requests of h words, then the sign request)
template <class P> static void hwt_emit(Rng& g, unsigned h, std::vector<uint64_t>& words) {
  // the code reads h words per request; what is left of the last index request is discarded
  while (words.size() % h) words.push_back(g.next());
  for (unsigned j = 0; j < h; j++) words.push_back(g.next());  // the fresh request for the signs
  std::vector<uint8_t> s;
  s.reserve(words.size() * 8);
  for (uint64_t x : words) push_word<uint64_t>(s, x);
  tp::load(s);
  int via = next_via();
  std::unique_ptr<P> q;
  { INFLIGHT(P, "hwt", via, h, 0, 1); q = create<P>(via, nfl::hwt_dist(h)); }
  const bool wf = P::degree > 64 && served_in_words();
  head<P>(wf ? "hwtw" : "hwt", via);
  printf(" %u", h);
  if (wf) print_tape_words(); else print_tape();
  tail(q);
}

// script for one reduced index tuple idx[k-h] in [0,k], with words in the rejection zone sprinkled in
template <class P> static void hwt_line(Rng& g, unsigned h, std::vector<size_t> const& idx, bool with_rejects) {
  const size_t n = P::degree;
  std::vector<uint64_t> words;
  for (size_t k = h; k < n; k++) {
    uint64_t R = UINT64_MAX / (k + 1);
    if (with_rejects)
      while (g.below(6) == 0) {  // a word in [R*(k+1), 2^64-1]: rejected
        uint64_t zone = UINT64_MAX - R * (k + 1);  // size-1
        words.push_back(R * (k + 1) + (zone ? g.below(zone + 1) : 0));
      }
    uint64_t q = g.below(4) == 0 ? (g.below(2) ? R - 1 : 0) : g.below(R);
    words.push_back(idx[k - h] + (k + 1) * q);
  }
  hwt_emit<P>(g, h, words);
}

// LARGE DEGREES.  A scripted tape that makes the accept/reject decision of single words observable in the positions.
// At a spread of PROBE steps k (first, last, 2^j-2..2^j+1, random ones, and among 256 random candidates the steps
// with the longest and the shortest incomplete top block) exactly one boundary word of THAT step is fed:
//   in the rejection zone [M_k, 2^64) (M_k = floor((2^64-1)/(k+1))*(k+1)):  M_k, M_k+1, 2^64-1, 2^64-2^j, 2^64-2^j-1,
//   the middle of the zone, a random word of the zone  -- followed, at the same step, by a RECORDER;
//   below it: M_k-1 (last accepted word, index k), M_k-(k+1) (first word of the last complete block, index 0), and the
//   words 2^64-2^j(-1) when they are below M_k                          -- followed, at the next step, by a RECORDER.
// A recorder is the word j (< h): accepted at every step, it stores the CURRENT step number in slot j of the
// reservoir, each slot being used once (slots 0..7 are left free: a wrongly accepted word M_k+i lands in slot i).
// All other steps get a filler word in [h,k] (index >= h whatever the step: no effect on the reservoir).  So the
// sorted positions list the step at which every recorder was consumed: one word accepted (or rejected) against the
// rule shifts all later recorders by one, and the first shifted recorder pins the step.
static inline uint64_t hwt_M(uint64_t k) { return UINT64_MAX / (k + 1) * (k + 1); }

template <class P> static void hwt_probe_line(Rng& g, unsigned h, unsigned variant) {
  const size_t n = P::degree;
  std::set<size_t> K;
  auto add = [&](uint64_t k) { if (k >= h && k < n) K.insert((size_t)k); };
  add(h); add(h + 1); add(n - 1); add(n - 2);
  for (int j = 1; j < 40; j++) for (int d = -2; d <= 1; d++) add((1ULL << j) + d);
  if (n > h) {
    for (int i = 0; i < 48; i++) add(h + g.below(n - h));
    // the longest / shortest incomplete top blocks among 256 random steps of the upper half
    std::vector<std::pair<uint64_t, size_t>> c;
    for (int i = 0; i < 256; i++) { size_t k = (size_t)(n - 1 - g.below((n - h + 1) / 2)); if (k >= h) c.push_back({UINT64_MAX - hwt_M(k), k}); }
    std::sort(c.begin(), c.end());
    for (size_t i = 0; i < c.size() && i < 8; i++) { add(c[i].second); add(c[c.size() - 1 - i].second); }
  }
  const size_t s0 = h > 16 ? 8 : 0;
  size_t rec = 0, cnt = variant;
  bool pending = false;
  std::vector<uint64_t> words;
  words.reserve(n + 512);
  auto recorder = [&]() { words.push_back(s0 + (rec++ % (h - s0))); };
  for (size_t k = h; k < n; k++) {
    const uint64_t M = hwt_M(k), top = UINT64_MAX - M;  // zone = [M, M+top]
    if (K.count(k)) {
      uint64_t x = 0;
      const int j = 1 + (int)g.below(24);
      switch (cnt++ % 11) {
        case 0: x = M; break;
        case 1: x = M + (top ? 1 : 0); break;
        case 2: x = UINT64_MAX; break;
        case 3: x = UINT64_MAX - 65535; break;            // 2^64-2^16
        case 4: x = UINT64_MAX - 65536; break;            // 2^64-2^16-1
        case 5: x = M + top / 2; break;
        case 6: x = UINT64_MAX - (1ULL << j) + 1; break;  // 2^64-2^j
        case 7: x = UINT64_MAX - (1ULL << j); break;      // 2^64-2^j-1
        case 8: x = M + g.below(top + 1); break;
        case 9: x = M - 1; break;
        default: x = M - (k + 1); break;
      }
      words.push_back(x);
      if (x >= M) { recorder(); pending = false; }  // rejected: the recorder is this step's accepted word
      else pending = true;                          // accepted: the recorder comes with the next step
    } else if (pending) {
      recorder(); pending = false;
    } else {
      words.push_back(h + g.below(k - h + 1));
    }
  }
  hwt_emit<P>(g, h, words);
}

template <class P> static void hwt_exhaustive(Rng& g, unsigned h) {
  const size_t n = P::degree;
  std::vector<size_t> idx(n - h, 0);
  for (;;) {
    hwt_line<P>(g, h, idx, true);
    size_t j = 0;
    for (; j < idx.size(); j++) {
      if (idx[j] < h + j) { idx[j]++; break; }
      idx[j] = 0;
    }
    if (j == idx.size()) break;
  }
}

template <class P> static void hwt_random(Rng& g, unsigned h, int count) {
  const size_t n = P::degree;
  for (int c = 0; c < count; c++) {
    std::vector<size_t> idx(n - h);
    for (size_t j = 0; j < idx.size(); j++) idx[j] = g.below(h + j + 1);
    hwt_line<P>(g, h, idx, true);
  }
}

template <class T, size_t N, size_t NM> static void hwt_all_h(Rng& g, size_t exhaustive_from) {
  typedef nfl::poly<T, N, NM> P;
  for (unsigned h = 1; h <= N; h++) {
    if (h >= exhaustive_from) hwt_exhaustive<P>(g, h);
    else hwt_random<P>(g, h, 400);
  }
}

// WEIGHT x DEGREE.  The weight is a run-time parameter (uint32_t) that the code turns into container sizes, a request
// length in bytes (8h) and comparison bounds, next to a compile-time degree that selects index types elsewhere in the
// library (details::uint_value_t<degree>): the classes are the EXTREME weights (1, 2, 3, n/2-1..n/2+1, n-2, n-1, n) and
// the weights at which a narrower counter / byte count would wrap (2^j-1, 2^j, 2^j+1 for 2^j = 128, 256, 8192 (8h = 2^16),
// 32768, 65536), at every degree class.  Excluded: h = 0 and h > n (assert -> abort; with NDEBUG the code reads past an
// empty buffer for ever / writes positions >= n: no terminating run to compare).
static std::vector<unsigned> weight_classes(size_t n, int level) {
  std::vector<uint64_t> v = {n, n - 1};
  if (level >= 1) for (uint64_t x : {(uint64_t)1, (uint64_t)2, (uint64_t)3, n / 2 - 1, n / 2, n / 2 + 1, n - 2}) v.push_back(x);
  if (level >= 1) for (int j : {7, 8, 13, 15, 16}) for (int d = -1; d <= 1; d++) v.push_back((1ULL << j) + d);
  std::vector<unsigned> r;
  for (uint64_t x : v) if (x >= 1 && x <= n && x < (1ULL << 32) && std::find(r.begin(), r.end(), (unsigned)x) == r.end()) r.push_back((unsigned)x);
  return r;
}

// one random tape (rejection-zone words sprinkled in, boundary quotients) per weight class; level 2: a probe tape too
template <class P> static void hwt_weights(Rng& g, int level) {
  for (unsigned h : weight_classes(P::degree, level)) {
    hwt_random<P>(g, h, 1);
    if (level >= 2 && h < P::degree) hwt_probe_line<P>(g, h, h);
  }
}

// ---------------------------------------------------------------------------------------- gaussian
template <class P> static void gau_lines(Rng& g, double sigma, std::vector<uint64_t> const& amps, int lines) {
  using T = typename P::value_type;
  using S = typename P::signed_value_type;
  const size_t n = P::degree;
  nfl::FastGaussianNoise<uint8_t, T, 2> fg(sigma, 64, n);
  for (uint64_t amp : amps)
    for (int l = 0; l < lines; l++) {
      std::vector<uint8_t> s(64 * n + 4096);
      for (auto& b : s) b = (uint8_t)g.next();
      if (l == 1) for (auto& b : s) b = 0;
      if (l == 2) for (auto& b : s) b = 0xFF;
      tp::load(s);
      std::vector<T> buf(n);
      fg.getNoise(buf.data(), n);  // what set(gaussian) will see: same tape, same object
      tp::rewind();
      int via = next_via();
      std::unique_ptr<P> q;
      { INFLIGHT(P, "gau", via, amp, 0, 1); q = create<P>(via, nfl::gaussian<uint8_t, T, 2>(&fg, amp)); }
      head<P>("gau", via);
      printf(" %llu", (unsigned long long)amp);
      for (size_t i = 0; i < n; i++) printf(" %lld", (long long)(S)buf[i]);
      tail(q);
    }
}

// ---------------------------------------------------------------------------------------- creators
template <class P> static void creators(Rng& g, int reps) {
  using T = typename P::value_type;
  const size_t n = P::degree, nm = P::nmoduli;
  T p0 = P::get_modulus(0), pl = P::get_modulus(nm - 1);
  T vs[] = {0, 1, 2, (T)(pl - 1), pl, (T)(pl + 1), (T)(p0 - 1), p0, (T)(p0 + 1), (T)(2 * p0), (T)~(T)0, (T)g.next(), (T)g.next(),
            (T)(2 * p0 - 1), (T)(2 * pl + 1), (T)(3 * p0), (T)(3 * pl - 1), (T)(3 * p0 + 2),
            (T)(((T)1 << g.below(8 * sizeof(T))) + (T)g.below(2)), (T)(((T)1 << g.below(8 * sizeof(T))) - 1)};
  for (T v : vs)
    for (int red = 0; red < 2; red++) {
      int via = next_via() % 3;
      std::unique_ptr<P> q;
      try {
        if (via == 0) q.reset(new P(v, (bool)red));
        else if (via == 1) { q.reset(new P); dirty(*q); q->set(v, (bool)red); }
        else if (red) { q.reset(new P); dirty(*q); *q = v; }
        else { via = 0; q.reset(new P(v, false)); }
      } catch (std::runtime_error const&) { q.reset(); }
      head<P>("cval", via);
      printf(" %llu %d", (unsigned long long)v, red);
      tail(q);
    }
  size_t sizes[] = {0, 1, 2, n - 1, n, n + 1, n * nm, n * nm + 1, n * nm - 1};
  for (int r = 0; r < reps; r++)
    for (size_t sz : sizes) {
      std::vector<T> vals(sz);
      for (auto& x : vals) {
        switch (g.below(6)) {
          case 0: x = (T)g.below(4); break;
          case 1: x = (T)(p0 - 1 + g.below(3)); break;
          case 2: x = (T)(pl - 1 + g.below(3)); break;
          case 3: x = (T)~(T)0; break;
          default: x = (T)g.next();
        }
      }
      for (int red = 0; red < 2; red++) {
        std::unique_ptr<P> q;
        try { q.reset(new P); dirty(*q); q->set(vals.begin(), vals.end(), (bool)red); } catch (std::runtime_error const&) { q.reset(); }
        head<P>("clist", 1);
        printf(" %d %zu", red, sz);
        for (T x : vals) printf(" %llu", (unsigned long long)x);
        tail(q);
      }
      // big integers: negative, huge, multiples of the moduli
      std::vector<mpz_class> mv(sz);
      for (auto& z : mv) {
        mpz_class a = (unsigned long)g.next();
        a = a * (unsigned long)g.next() * (unsigned long)g.next();
        switch (g.below(8)) {
          case 6: z = mpz_class((unsigned long)(g.below(2) ? p0 : pl)) * (unsigned long)(1 + g.below(4)) + ((long)g.below(5) - 2); if (g.below(3) == 0) z = -z; break;  // k*p + eps
          case 7: z = (mpz_class(1) << (unsigned long)g.below(131)) + ((long)g.below(3) - 1); if (g.below(3) == 0) z = -z; break;                          // 2^b + eps
          case 0: z = a; break;
          case 1: z = -a; break;
          case 2: z = mpz_class((unsigned long)p0) * mpz_class((unsigned long)pl) * (unsigned long)g.below(5); break;
          case 3: z = -mpz_class((unsigned long)g.below(3)); break;
          case 4: z = -mpz_class((unsigned long)p0); break;
          default: z = (unsigned long)g.below(1000);
        }
      }
      std::unique_ptr<P> q;
      try { q.reset(new P); dirty(*q); q->set_mpz(mv.begin(), mv.end()); } catch (std::runtime_error const&) { q.reset(); }
      head<P>("cmpz", 1);
      printf(" %zu", sz);
      for (auto& z : mv) printf(" %s", z.get_str().c_str());
      tail(q);
    }
}

// ----------------------------------------------------------------------------------------------------
template <class P> static void zo_family(Rng& g, std::vector<unsigned> const& rhos, int lines) {
  for (unsigned rho : rhos)
    for (int l = 0; l < lines; l++) {
      std::vector<uint8_t> b(P::degree);
      for (size_t i = 0; i < b.size(); i++) {
        size_t k = i + (size_t)l * b.size();
        uint8_t sp[] = {0, 1, 2, 3, (uint8_t)rho, (uint8_t)(rho + 1), (uint8_t)(rho - 1), 255, 254, 253, 252, (uint8_t)(rho | 2), (uint8_t)(rho & ~2u)};
        b[i] = k < sizeof(sp) ? sp[k] : (uint8_t)g.next();
      }
      zo_line<P>(rho, b);
    }
}

int main() {
  inflight::install();
  const uint64_t seed = env_u64("VERIF_SEED", 1);
  const bool th = thorough();
  Rng g(seed * 7919 + 12);

  // moduli used by the lines below (comment lines: read by the python cross-checks, not by the driver)
  printf("# P 16"); for (size_t i = 0; i < 2; i++) printf(" %llu", (unsigned long long)nfl::params<uint16_t>::P[i]); printf("\n");
  printf("# P 32"); for (size_t i = 0; i < nfl::params<uint32_t>::kMaxNbModuli; i++) printf(" %llu", (unsigned long long)nfl::params<uint32_t>::P[i]); printf("\n");
  printf("# P 64"); for (size_t i = 0; i < nfl::params<uint64_t>::kMaxNbModuli; i++) printf(" %llu", (unsigned long long)nfl::params<uint64_t>::P[i]); printf("\n");
  if (getenv("SAMPLERS_PRINT_P")) return 0;  // the python cross-checks ask for the moduli only

  // ---- masks of every table row (1293 rows)
  umask_all<nfl::poly<uint16_t, 16, nfl::params<uint16_t>::kMaxNbModuli>>();
  umask_all<nfl::poly<uint32_t, 32, nfl::params<uint32_t>::kMaxNbModuli>>();
  umask_all<nfl::poly<uint64_t, 64, nfl::params<uint64_t>::kMaxNbModuli>>();

  // ---- uniform
  uni_enum16(seed);
  uni_boundary<nfl::poly<uint16_t, 8, 1>>(g, 3);
  uni_boundary<nfl::poly<uint16_t, 16, 2>>(g, 3);
  uni_boundary<nfl::poly<uint32_t, 8, 2>>(g, 4);
  uni_boundary<nfl::poly<uint32_t, 16, 3>>(g, th ? 40 : 6);
  uni_boundary<nfl::poly<uint64_t, 8, 2>>(g, 4);
  uni_boundary<nfl::poly<uint64_t, 16, 3>>(g, th ? 40 : 6);
  uni_boundary<nfl::poly<uint64_t, 4, 5>>(g, 6);

  // ---- bounded: all 2^16 words for several (B, A); boundary words for the wider limbs
  {
    struct BA { uint64_t B, A; };
    std::vector<BA> full = {{1, 1}, {2, 1}, {3, 2}, {4, 3}, {5, 1}, {8, 1024}, {13, 1024}, {16, 1}, {17, 3}, {1000, 3}, {4096, 3}, {4097, 1},
                            {6656, 2}, {8192, 1}, {8193, 1}, {13312, 1}};
    if (th) for (uint64_t B : {6ull, 7ull, 9ull, 15ull, 31ull, 32ull, 33ull, 64ull, 100ull, 127ull, 128ull, 129ull, 255ull, 256ull, 257ull, 511ull, 512ull,
                               513ull, 1023ull, 1024ull, 1025ull, 2047ull, 2048ull, 2049ull, 4095ull, 8191ull, 13311ull})
        for (uint64_t A : {1ull, 2ull, 3ull, 1024ull}) if (B == 1 || A * (B - 1) < 13313) full.push_back({B, A});
    // excluded points (A*(B-1) >= p): what does the real code do?
    full.push_back({100, 1024});
    full.push_back({13312, 2});
    full.push_back({5, 0});  // amplifier 0: negative draws are stored as p
    for (auto& c : full) bnd_enum16(c.B, c.A, seed);
  }
  bnd_family<nfl::poly<uint16_t, 16, 2>>(g, 13, 1);
  bnd_family<nfl::poly<uint32_t, 16, 3>>(g, th ? 29 : 20, th ? 3 : 1);
  bnd_family<nfl::poly<uint64_t, 16, 3>>(g, th ? 61 : 20, th ? 3 : 1);
  {  // B >= 2^48 on the 64-bit limb (the rounding-log2 region), all-ones words included by bnd_boundary
    typedef nfl::poly<uint64_t, 16, 2> P;
    for (int j : {47, 48, 49, 52, 53, 55, 60, 61})
      for (int64_t d : {-1, 0, 1})
        for (uint64_t A : {1ull, 2ull, 3ull, 1024ull}) {
          uint64_t B = (1ULL << j) + d;
          if (A * (double)(B - 1) < 4.0e18 || A == 1024) bnd_boundary<P>(g, B, A, 2);
        }
    bnd_boundary<P>(g, 0, 1, 1);  // excluded point B = 0
    bnd_boundary<P>(g, 0, 3, 1);
  }

  // ---- ternary: every byte value x every rho
  {
    typedef nfl::poly<uint16_t, 256, 2> P;
    std::vector<uint8_t> all(256);
    for (unsigned rho = 0; rho < 256; rho++) {
      for (unsigned i = 0; i < 256; i++) all[i] = (uint8_t)(i ^ (unsigned)(seed * 29));
      zo_line<P>(rho, all);
    }
    std::vector<unsigned> rhos = {0, 1, 2, 3, 0x7E, 0x7F, 0x80, 0xFE, 0xFF, (unsigned)g.below(256), (unsigned)g.below(256)};
    if (th) { rhos.clear(); for (unsigned r = 0; r < 256; r++) rhos.push_back(r); }
    zo_family<nfl::poly<uint32_t, 16, 3>>(g, rhos, 2);
    zo_family<nfl::poly<uint64_t, 16, 3>>(g, rhos, 2);
    zo_family<nfl::poly<uint16_t, 8, 1>>(g, rhos, 2);
  }

  // ---- fixed weight: all (n <= 8, h), reduced index tuples exhaustively
  hwt_all_h<uint64_t, 1, 2>(g, 1);
  hwt_all_h<uint64_t, 2, 2>(g, 1);
  hwt_all_h<uint64_t, 3, 2>(g, 1);
  hwt_all_h<uint64_t, 4, 2>(g, 1);
  hwt_all_h<uint64_t, 5, 2>(g, 1);
  hwt_all_h<uint64_t, 6, 2>(g, 1);
  hwt_all_h<uint64_t, 7, 1>(g, th ? 1 : 2);
  hwt_all_h<uint64_t, 8, 1>(g, th ? 1 : 4);
  hwt_all_h<uint16_t, 4, 2>(g, 1);
  hwt_all_h<uint32_t, 4, 3>(g, 1);
  for (unsigned h : {1u, 2u, 7u, 8u, 9u, 31u, 63u, 64u}) hwt_random<nfl::poly<uint64_t, 64, 2>>(g, h, th ? 40 : 6);
  for (unsigned h : {1u, 3u, 16u}) hwt_random<nfl::poly<uint16_t, 16, 2>>(g, h, 6);
  for (unsigned h : {1u, 5u, 32u}) hwt_random<nfl::poly<uint32_t, 32, 2>>(g, h, 6);

  // ---- LARGE PARAMETERS (own generator: the lines above stay what they were).  Fixed weight at the largest degrees of
  // every limb (late reservoir steps, k >= 2^16 only exists for uint64_t at degree >= 2^17), probe tapes + random tapes
  {
    Rng gl(seed * 7919 + 13);
    typedef nfl::poly<uint64_t, 131072, 1> P17;
    hwt_probe_line<P17>(gl, 256, (unsigned)seed);
    hwt_probe_line<P17>(gl, 300, (unsigned)seed + 4);
    hwt_probe_line<P17>(gl, 1, (unsigned)seed + 7);
    hwt_probe_line<P17>(gl, 40000, (unsigned)seed + 2);
    hwt_random<P17>(gl, 64, 1);
    hwt_probe_line<nfl::poly<uint64_t, 65536, 1>>(gl, 256, (unsigned)seed + 1);
    hwt_random<nfl::poly<uint64_t, 65536, 1>>(gl, 3, 1);
    hwt_probe_line<nfl::poly<uint64_t, 4096, 2>>(gl, 64, (unsigned)seed + 3);
    hwt_probe_line<nfl::poly<uint64_t, 4096, 2>>(gl, 4095, (unsigned)seed + 5);
    hwt_random<nfl::poly<uint64_t, 4096, 2>>(gl, 1000, 1);
    hwt_probe_line<nfl::poly<uint32_t, 32768, 1>>(gl, 128, (unsigned)seed + 6);
    hwt_probe_line<nfl::poly<uint16_t, 512, 2>>(gl, 16, (unsigned)seed + 8);
    hwt_random<nfl::poly<uint16_t, 512, 2>>(gl, 100, 2);
    if (th) {
      typedef nfl::poly<uint64_t, 1048576, 1> P20;
      for (unsigned v = 0; v < 3; v++) hwt_probe_line<P20>(gl, 512, (unsigned)seed + v);
      hwt_probe_line<P20>(gl, 1, (unsigned)seed + 9);
      hwt_random<P20>(gl, 17, 1);
      for (unsigned v = 0; v < 11; v++) hwt_probe_line<P17>(gl, 256 + v, v);
      hwt_probe_line<P17>(gl, 131071, 1);
      hwt_probe_line<P17>(gl, 131072, 1);   // no reservoir step: 2^17 sign words in one request
      hwt_random<P17>(gl, 65536, 1);
    }
    // WEIGHT x DEGREE (own generator): extreme weights at every degree class of every limb.  Quick: h in {n, n-1}
    // everywhere, all weight classes at 128/256/512 (where an 8-bit index type would switch); thorough: all classes
    // everywhere, with probe tapes
    {
      Rng gw(seed * 7919 + 14);
      const int lo = th ? 2 : 0, sm = th ? 2 : 1;
      hwt_weights<nfl::poly<uint16_t, 128, 2>>(gw, sm);
      hwt_weights<nfl::poly<uint16_t, 256, 2>>(gw, sm);
      hwt_weights<nfl::poly<uint16_t, 512, 2>>(gw, sm);
      hwt_weights<nfl::poly<uint32_t, 256, 3>>(gw, sm);
      hwt_weights<nfl::poly<uint64_t, 128, 2>>(gw, sm);
      hwt_weights<nfl::poly<uint64_t, 256, 1>>(gw, sm);
      hwt_weights<nfl::poly<uint64_t, 512, 3>>(gw, sm);
      hwt_weights<nfl::poly<uint64_t, 64, 2>>(gw, sm);
      hwt_weights<nfl::poly<uint64_t, 1024, 1>>(gw, lo);
      hwt_weights<nfl::poly<uint32_t, 2048, 1>>(gw, lo);
      hwt_weights<nfl::poly<uint64_t, 4096, 2>>(gw, lo);
      hwt_weights<nfl::poly<uint32_t, 8192, 1>>(gw, lo);
      hwt_weights<nfl::poly<uint64_t, 16384, 2>>(gw, lo);
      hwt_weights<nfl::poly<uint32_t, 32768, 1>>(gw, lo);
      hwt_weights<nfl::poly<uint64_t, 65536, 1>>(gw, lo);
      hwt_weights<nfl::poly<uint64_t, 131072, 1>>(gw, lo);
      if (th) hwt_weights<nfl::poly<uint64_t, 1048576, 1>>(gw, 0);
    }
    // uniform: every row of the 32- and 64-bit tables as a modulus (boundary words of THAT row), and the largest degrees
    uni_boundary<nfl::poly<uint32_t, 4, nfl::params<uint32_t>::kMaxNbModuli>>(gl, 4);
    uni_boundary<nfl::poly<uint64_t, 4, nfl::params<uint64_t>::kMaxNbModuli>>(gl, 4);
    uni_boundary<nfl::poly<uint16_t, 512, 2>>(gl, 1);
    uni_boundary<nfl::poly<uint32_t, 32768, 1>>(gl, 1);
    uni_boundary<nfl::poly<uint64_t, 16384, 2>>(gl, 1);
    // bounded: bounds next to 2^61 / 2^29 / 2^13 at large degrees
    bnd_boundary<nfl::poly<uint64_t, 16384, 2>>(gl, (1ULL << 61) - 1, 1, 1);
    bnd_boundary<nfl::poly<uint64_t, 16384, 2>>(gl, (1ULL << 60) + 1, 3, 1);
    bnd_boundary<nfl::poly<uint32_t, 32768, 1>>(gl, (1ULL << 29) - 1, 1, 1);
    bnd_boundary<nfl::poly<uint16_t, 512, 2>>(gl, 4097, 3, 1);
    // BOUND x LIMB WIDTH (own generator): in the quick tier the powers of two above 2^20 that bnd_family leaves to the
    // thorough tier; in both tiers the bounds at / beyond the limb width
    {
      Rng gb(seed * 7919 + 15);
      bnd_family_ext<nfl::poly<uint16_t, 16, 2>>(gb, 1, 0);
      bnd_family_ext<nfl::poly<uint32_t, 16, 3>>(gb, th ? 1 : 21, th ? 0 : 29);
      bnd_family_ext<nfl::poly<uint64_t, 16, 3>>(gb, th ? 1 : 21, th ? 0 : 61);
    }
    // ternary at the largest degree of every limb
    {
      std::vector<unsigned> rhos = {0x7F, (unsigned)gl.below(256)};
      zo_family<nfl::poly<uint16_t, 512, 2>>(gl, rhos, 1);
      zo_family<nfl::poly<uint32_t, 32768, 1>>(gl, rhos, 1);
      zo_family<nfl::poly<uint64_t, 131072, 1>>(gl, {0x7F}, 1);
      if (th) zo_family<nfl::poly<uint64_t, 1048576, 1>>(gl, rhos, 1);
      // the extreme parameters (rho = 0: only byte 0 is non-zero; rho = 255: every byte is) at the largest degrees too
      std::vector<unsigned> ext = {0, 255};
      zo_family<nfl::poly<uint16_t, 512, 2>>(gl, ext, 1);
      zo_family<nfl::poly<uint32_t, 32768, 1>>(gl, ext, 1);
      if (th) { ext.push_back(1); ext.push_back(254); zo_family<nfl::poly<uint64_t, 131072, 1>>(gl, ext, 1); zo_family<nfl::poly<uint64_t, 1048576, 1>>(gl, {0, 255}, 1); }
    }
  }

  // ---- gaussian (real FastGaussianNoise, scripted tape; the noise it produced is passed to the model)
  gau_lines<nfl::poly<uint16_t, 16, 2>>(g, 3.0, {1, 2, 3, 1024, 4096}, th ? 12 : 4);
  gau_lines<nfl::poly<uint32_t, 16, 3>>(g, 4.0, {1, 2, 3, 1024, 1ull << 27, 1ull << 31, (1ull << 32) + 1}, th ? 12 : 4);
  gau_lines<nfl::poly<uint64_t, 16, 3>>(g, 20.0, {1, 2, 3, 1024, 1ull << 52, 1ull << 58, 1ull << 63, ~0ull}, th ? 12 : 4);

  // ---- creators from values
  creators<nfl::poly<uint16_t, 8, 2>>(g, th ? 10 : 2);
  creators<nfl::poly<uint32_t, 8, 3>>(g, th ? 10 : 2);
  creators<nfl::poly<uint64_t, 8, 3>>(g, th ? 10 : 2);
  creators<nfl::poly<uint64_t, 4, 1>>(g, th ? 10 : 2);
  // every row of the 32- and 64-bit tables as a modulus of one polynomial (reductions that are only right for the
  // first rows, e.g. constants derived from 2^w - p that overflow further down the table)
  creators<nfl::poly<uint32_t, 2, nfl::params<uint32_t>::kMaxNbModuli>>(g, 1);
  creators<nfl::poly<uint64_t, 2, nfl::params<uint64_t>::kMaxNbModuli>>(g, 1);
  return 0;
}
