// C19 correspondence harness: plays scripts of operating-system answers to the real nfl::randombytes
// (compiled from /repo/lib/prng/randombytes.cpp, linked with -Wl,--wrap=open,--wrap=read,--wrap=sleep).
//
// One line per script (see lean/Driver/RandBytesH.lean for the decoder):
//   rb <mode> <ncalls> <xlen_1..xlen_n> <outcome tokens…> => { <returned> <nlog> <log entries…> <buffer> }* <consumed>
// outcome tokens : 0 = open fails | 1 fd = open returns fd | 2 = read -1 | 3 = read 0
//                  4 n g0 = read delivers bytes byteAt(g0..g0+n-1) | 5 n b_1..b_n = read delivers these bytes
// log entries    : 1 ret = open("/dev/urandom",O_RDONLY) | 9 ret = open with other arguments
//                  2 fd off req ret = read(fd, x0+off, req) | 3 s = sleep(s) | 4 = open not answered (script
//                  exhausted) | 5 fd off req = read not answered
// buffer, mode 0 : <xlen> v_0 … v_{xlen-1}     (v = byte, -1 = never written, -2 = clobbered by the code itself)
// buffer, mode 1 : <xlen> <#unwritten> <hash> <nf> first… <nl> last… <flag>   flag = 1 iff the buffer is exactly
//                  the bytes delivered during this call, in order, followed by never-written bytes
//
// Every script runs in a forked child so that the file-static `fd` of randombytes.cpp starts at -1;
// multi-call sequences run inside one child and share it.  The symbolic script is resolved against the
// requests the code actually makes (ONE / HALF / ALL of the *requested* count); the emitted line carries the
// concrete answers, so the Lean model replays exactly the same environment.
#include "common.hpp"
#include <errno.h>
#include <fcntl.h>
#include <signal.h>
#include <stdarg.h>
#include <sys/mman.h>
#include <sys/types.h>
#include <sys/wait.h>
#include <unistd.h>
#include "randombytes.h"

using namespace vh;
typedef long long ll;

static inline unsigned byteAt(uint64_t g) { return (unsigned)((g * 167 + (g / 256) * 13 + (g / 65536) * 7 + 1) % 256); }

enum Kind { S_FAIL, S_OK, S_ERR, S_ZERO, S_ONE, S_HALF, S_ALL, S_ALLM1, S_RANDK, S_EXPL };
struct Sym { int kind; ll param; };   // param: fd for S_OK, seed for S_RANDK / S_EXPL

// ---------------------------------------------------------------- child state
static std::vector<Sym> g_script;
static size_t g_pos;
static std::vector<ll> g_concrete;          // outcome tokens as answered
static std::vector<ll> g_out;               // RHS built so far (completed calls)
static std::vector<ll> g_log;               // log entries of the current call
static ll g_nlog;
static unsigned char* g_base;
static ll g_xlen;
static std::vector<char> g_written;
static std::vector<unsigned char> g_expected;   // bytes delivered during the current call
static uint64_t g_counter;                  // running index of delivered bytes
static int g_mode;
static std::vector<ll> g_xlens;
static int g_inserted;                      // ill-typed requests answered by the harness
static size_t g_consumed;
static bool g_in_child;

static void emit_buffer() {
  ll n = g_xlen;
  auto val = [&](ll j) -> ll { return g_written[j] ? (ll)g_base[j] : (g_base[j] == 0xA5 ? -1 : -2); };
  if (g_mode == 0) {
    g_out.push_back(n);
    for (ll j = 0; j < n; j++) g_out.push_back(val(j));
  } else {
    ll unw = 0; uint64_t h = 0; bool flag = true;
    for (ll j = 0; j < n; j++) {
      ll v = val(j);
      if (v < 0) unw++;
      h = (h * 31 + (uint64_t)(v + 2)) % 1000000007ULL;
      if (j < (ll)g_expected.size()) { if (v != (ll)g_expected[j]) flag = false; }
      else if (v != -1) flag = false;
    }
    if ((ll)g_expected.size() > n) flag = false;
    g_out.push_back(n); g_out.push_back(unw); g_out.push_back((ll)h);
    ll nf = n < 8 ? n : 8;
    g_out.push_back(nf); for (ll j = 0; j < nf; j++) g_out.push_back(val(j));
    g_out.push_back(nf); for (ll j = n - nf; j < n; j++) g_out.push_back(val(j));
    g_out.push_back(flag ? 1 : 0);
  }
}

static void close_call(bool returned) {
  g_out.push_back(returned ? 1 : 0);
  g_out.push_back(g_nlog);
  g_out.insert(g_out.end(), g_log.begin(), g_log.end());
  emit_buffer();
}

[[noreturn]] static void emit_line_and_exit(int code) {
  // leftover symbols: concretised as unconsumed outcomes
  for (size_t i = g_pos; i < g_script.size(); i++) {
    const Sym& s = g_script[i];
    switch (s.kind) {
      case S_FAIL: g_concrete.push_back(0); break;
      case S_OK: g_concrete.push_back(1); g_concrete.push_back(s.param); break;
      case S_ERR: g_concrete.push_back(2); break;
      case S_ZERO: g_concrete.push_back(3); break;
      default: g_concrete.push_back(4); g_concrete.push_back(1); g_concrete.push_back((ll)g_counter); break;
    }
  }
  std::string line = "rb " + std::to_string(g_mode) + " " + std::to_string(g_xlens.size());
  for (ll x : g_xlens) line += " " + std::to_string(x);
  for (ll t : g_concrete) line += " " + std::to_string(t);
  line += " =>";
  for (ll t : g_out) line += " " + std::to_string(t);
  line += " " + std::to_string((ll)g_consumed) + "\n";
  fputs(line.c_str(), stdout);
  fflush(stdout);
  _exit(code);
}

[[noreturn]] static void exhausted() { close_call(false); emit_line_and_exit(3); }

// ---------------------------------------------------------------- the wrapped OS
extern "C" int __real_open(const char*, int, ...);
extern "C" ssize_t __real_read(int, void*, size_t);
extern "C" unsigned __real_sleep(unsigned);

extern "C" int __wrap_open(const char* path, int flags, ...) {
  if (!g_in_child) {
    mode_t m = 0;
    if (flags & O_CREAT) { va_list ap; va_start(ap, flags); m = (mode_t)va_arg(ap, int); va_end(ap); }
    return __real_open(path, flags, m);
  }
  bool args_ok = path && !strcmp(path, "/dev/urandom") && flags == O_RDONLY;
  if (g_pos >= g_script.size()) { g_log.push_back(4); g_nlog++; exhausted(); }
  const Sym& s = g_script[g_pos];
  ll ret;
  if (s.kind == S_FAIL) { g_pos++; g_consumed++; g_concrete.push_back(0); ret = -1; }
  else if (s.kind == S_OK) { g_pos++; g_consumed++; g_concrete.push_back(1); g_concrete.push_back(s.param); ret = s.param; }
  else {
    // the code opens although the environment expected a read: answer with a fresh descriptor (recorded)
    if (++g_inserted > 8) { g_log.push_back(4); g_nlog++; exhausted(); }
    ret = 70 + g_inserted; g_consumed++; g_concrete.push_back(1); g_concrete.push_back(ret);
  }
  g_log.push_back(args_ok ? 1 : 9); g_log.push_back(ret); g_nlog++;
  if (ret < 0) errno = EMFILE;
  return (int)ret;
}

extern "C" ssize_t __wrap_read(int fd, void* buf, size_t n) {
  if (!g_in_child) return __real_read(fd, buf, n);
  ll off = (ll)((unsigned char*)buf - g_base);
  if (g_pos >= g_script.size()) {
    g_log.push_back(5); g_log.push_back(fd); g_log.push_back(off); g_log.push_back((ll)n); g_nlog++;
    exhausted();
  }
  const Sym& s = g_script[g_pos];
  ll ret;
  if (s.kind == S_FAIL || s.kind == S_OK) {
    // the code reads although the environment expected an open: EBADF (recorded)
    if (++g_inserted > 8) {
      g_log.push_back(5); g_log.push_back(fd); g_log.push_back(off); g_log.push_back((ll)n); g_nlog++;
      exhausted();
    }
    g_consumed++; g_concrete.push_back(2); ret = -1; errno = EBADF;
  } else {
    g_pos++; g_consumed++;
    if (s.kind == S_ERR) { g_concrete.push_back(2); ret = -1; errno = EINTR; }
    else if (s.kind == S_ZERO) { g_concrete.push_back(3); ret = 0; }
    else {
      ll k;
      Rng r((uint64_t)s.param);
      switch (s.kind) {
        case S_ONE: k = 1; break;
        case S_HALF: k = ((ll)n + 1) / 2; break;
        case S_ALL: k = (ll)n; break;
        case S_ALLM1: k = (ll)n - 1; break;
        default: k = n ? 1 + (ll)r.below(n) : 0; break;
      }
      if (k > (ll)n) k = (ll)n;   // the environment stays inside the read contract
      if (k < 0) k = 0;
      bool expl = s.kind == S_EXPL && k <= 64;
      if (expl) { g_concrete.push_back(5); g_concrete.push_back(k); }
      else { g_concrete.push_back(4); g_concrete.push_back(k); g_concrete.push_back((ll)g_counter); }
      for (ll j = 0; j < k; j++) {
        unsigned char b = expl ? (unsigned char)r.below(256) : (unsigned char)byteAt(g_counter + j);
        if (expl) g_concrete.push_back(b);
        g_expected.push_back(b);
        ll p = off + j;
        if (p >= 0 && p < g_xlen) { g_base[p] = b; g_written[p] = 1; }   // out-of-range stores are dropped; `off` shows them
      }
      g_counter += (uint64_t)k;
      ret = k;
    }
  }
  g_log.push_back(2); g_log.push_back(fd); g_log.push_back(off); g_log.push_back((ll)n); g_log.push_back(ret); g_nlog++;
  return (ssize_t)ret;
}

extern "C" unsigned __wrap_sleep(unsigned s) {
  if (!g_in_child) return __real_sleep(s);
  g_log.push_back(3); g_log.push_back((ll)s); g_nlog++;
  if (g_nlog > 4000) exhausted();
  return 0;
}

// ---------------------------------------------------------------- parent: run one script in a child
static long n_runs = 0, n_crash = 0;

static std::string describe(int mode, const std::vector<ll>& xlens, const std::vector<Sym>& script) {
  std::string d = "mode=" + std::to_string(mode) + " xlens=";
  for (ll x : xlens) d += std::to_string(x) + ",";
  d += " symbolic=";
  static const char* nm[] = {"openFail", "openOk", "read-1", "read0", "read1", "readHalf", "readAll", "readAll-1", "readRand", "readExpl"};
  for (const Sym& s : script) { d += nm[s.kind]; if (s.kind == S_OK) d += "(" + std::to_string(s.param) + ")"; d += " "; }
  return d;
}

// returns 0 = all calls returned, 3 = script exhausted while the code was still looping, other = crash
static int run_script(int mode, const std::vector<ll>& xlens, const std::vector<Sym>& script) {
  n_runs++;
  fflush(stdout); fflush(stderr);
  pid_t pid = fork();
  if (pid < 0) { perror("fork"); exit(2); }
  if (pid == 0) {
    alarm(60);
    g_script = script; g_pos = 0; g_mode = mode; g_xlens = xlens; g_counter = 0; g_inserted = 0; g_consumed = 0;
    g_in_child = true;
    for (ll x : xlens) {
      g_xlen = x; g_log.clear(); g_nlog = 0; g_expected.clear();
      g_base = (unsigned char*)malloc((size_t)x);
      if (x) memset(g_base, 0xA5, (size_t)x);
      g_written.assign((size_t)x, 0);
      nfl::randombytes(g_base, (unsigned long long)x);
      close_call(true);
      free(g_base);
    }
    emit_line_and_exit(0);
  }
  int st = 0;
  while (waitpid(pid, &st, 0) < 0 && errno == EINTR) {}
  int code = WIFEXITED(st) ? WEXITSTATUS(st) : 128 + WTERMSIG(st);
  if (code != 0 && code != 3) {
    n_crash++;
    fprintf(stderr, "RBCRASH code=%d %s\n", code, describe(mode, xlens, script).c_str());
  }
  return code;
}

static const int READ_SYMS[] = {S_ERR, S_ZERO, S_ONE, S_HALF, S_ALL};
static const ll FDS[] = {3, 0, 5, 1023, 4, 7, 9, 11, 6};

// bounded-exhaustive: every well-typed symbolic script with at most L outcomes besides the successful open
// (a script is extended only while the code is still looping on it)
static void dfs(int mode, const std::vector<ll>& xlens, std::vector<Sym>& script, int len, int L, bool opened, int nfail) {
  int st = run_script(mode, xlens, script);
  if (st != 3) return;
  if (!opened) {
    script.push_back({S_OK, FDS[nfail % 9]});
    dfs(mode, xlens, script, len, L, true, nfail);
    script.pop_back();
    if (len < L) {
      script.push_back({S_FAIL, 0});
      dfs(mode, xlens, script, len + 1, L, false, nfail + 1);
      script.pop_back();
    }
  } else if (len < L) {
    for (int k : READ_SYMS) {
      script.push_back({k, 0});
      dfs(mode, xlens, script, len + 1, L, true, nfail);
      script.pop_back();
    }
  }
}

static void random_script(uint64_t seed, uint64_t idx, bool big, int maxlen) {
  Rng rng(seed * 1000003ULL + idx * 7919ULL + (big ? 5 : 19));   // independent of which worker runs it
  static const ll small[] = {0, 1, 2, 3, 7, 32, 100, 255, 256, 257, 1000};
  static const ll bigs[] = {1048575, 1048576, 1048577, 1048581, 2097152 + 3};
  int ncalls = 1 + (int)rng.below(4);
  if (big && ncalls > 2) ncalls = 2;
  int bigpos = (int)rng.below(ncalls);
  std::vector<ll> xlens;
  for (int i = 0; i < ncalls; i++) xlens.push_back(big && i == bigpos ? bigs[rng.below(5)] : small[rng.below(11)]);
  std::vector<Sym> sc;
  int nf = rng.below(3) ? (int)rng.below(4) : 0;
  for (int i = 0; i < nf; i++) sc.push_back({S_FAIL, 0});
  if (rng.below(20)) sc.push_back({S_OK, rng.below(4) ? FDS[rng.below(9)] : 0});
  int n = (int)rng.below(maxlen + 1);
  for (int i = 0; i < n; i++) {
    static const int ks[] = {S_ERR, S_ZERO, S_ONE, S_HALF, S_ALL, S_ALLM1, S_RANDK, S_EXPL, S_ERR, S_ZERO};
    int k = ks[rng.below(10)];
    sc.push_back({k, (ll)(rng.next() >> 8)});
  }
  if (rng.below(10) < 7) for (int i = 0; i < 3 * ncalls + 2; i++) sc.push_back({S_ALL, 0});   // "followed by success"
  run_script(big ? 1 : 0, xlens, sc);
}

// ---------------------------------------------------------------- task list, executed by W worker processes
// (fork is slow under ASan; the tasks are independent, the output order is fixed: worker 0's lines, worker 1's, …)
#include <functional>
static std::vector<std::function<void()>> g_tasks;

// all well-typed scripts with ≤ L outcomes (the successful open not counted) for one sequence of calls,
// split into independent subtrees: F^k | F^k OK | F^k OK s1 …
static void add_exhaustive(int mode, std::vector<ll> xlens, int L) {
  for (int k = 0; k <= L; k++) {
    std::vector<Sym> pre(k, Sym{S_FAIL, 0});
    g_tasks.push_back([=] { run_script(mode, xlens, pre); });
    std::vector<Sym> ok = pre; ok.push_back({S_OK, FDS[k % 9]});
    g_tasks.push_back([=] { run_script(mode, xlens, ok); });
    bool wants_bytes = false;
    for (ll x : xlens) if (x) wants_bytes = true;
    if (wants_bytes && k < L)
      for (int s1 : READ_SYMS) {
        std::vector<Sym> p = ok; p.push_back({s1, 0});
        g_tasks.push_back([=] { std::vector<Sym> sc = p; dfs(mode, xlens, sc, k + 1, L, true, k); });
      }
  }
}

int main() {
  uint64_t seed = env_u64("VERIF_SEED", 1);
  bool th = thorough();
  signal(SIGPIPE, SIG_IGN);
  const ll BIG = 1048576 + 5;
  int L = (int)env_u64("VERIF_RB_L", th ? 7 : 6);
  int Lbig = (int)env_u64("VERIF_RB_LBIG", th ? 5 : 3);
  int Lmulti = (int)env_u64("VERIF_RB_LMULTI", th ? 5 : 3);
  // 1. single call, request sizes 0, 1, 32 (full buffers) and 2^20+5 (compact buffers)
  for (ll x : {0LL, 1LL, 32LL}) add_exhaustive(0, {x}, L);
  add_exhaustive(1, {BIG}, Lbig);
  // 2. sequences of calls sharing the static descriptor
  const std::vector<std::vector<ll>> seqs = {{0, 0}, {0, 1}, {1, 0}, {1, 1}, {0, 32}, {32, 0}, {5, 5}, {5, 0, 5}, {1, 1, 1}, {0, 0, 0}, {2, 3, 0, 1}};
  for (const auto& xs : seqs) add_exhaustive(0, xs, Lmulti);
  // 3. random scripts (longer, explicit random bytes, random short counts, leftovers, several calls)
  long nrand = (long)env_u64("VERIF_RB_NRAND", th ? 20000 : 1500);
  for (long b = 0; b < nrand; b += 50)
    g_tasks.push_back([=] { for (long i = b; i < b + 50 && i < nrand; i++) random_script(seed, (uint64_t)i, false, th ? 40 : 12); });
  long nbig = (long)env_u64("VERIF_RB_NBIG", th ? 400 : 24);
  for (long b = 0; b < nbig; b += 4)
    g_tasks.push_back([=] { for (long i = b; i < b + 4 && i < nbig; i++) random_script(seed, (uint64_t)i, true, th ? 12 : 6); });

  // W workers claim tasks from a shared counter; task t writes its lines to <dir>/t<t>; the parent
  // concatenates the files in task order, so the output does not depend on the scheduling
  const int W = (int)env_u64("VERIF_RB_WORKERS", 8);
  char dir[] = "/tmp/rbharness-XXXXXX";
  if (!mkdtemp(dir)) { perror("mkdtemp"); return 2; }
  long* next = (long*)mmap(nullptr, sizeof(long), PROT_READ | PROT_WRITE, MAP_SHARED | MAP_ANONYMOUS, -1, 0);
  if (next == MAP_FAILED) { perror("mmap"); return 2; }
  *next = 0;
  auto fname = [&](size_t t) { return std::string(dir) + "/t" + std::to_string(t); };
  std::vector<pid_t> pids;
  fflush(stdout); fflush(stderr);
  for (int w = 0; w < W; w++) {
    pid_t pid = fork();
    if (pid < 0) { perror("fork"); return 2; }
    if (pid == 0) {
      for (;;) {
        size_t t = (size_t)__atomic_fetch_add(next, 1, __ATOMIC_SEQ_CST);
        if (t >= g_tasks.size()) break;
        if (!freopen(fname(t).c_str(), "w", stdout)) { perror("freopen"); _exit(2); }
        g_tasks[t]();
        fflush(stdout);
      }
      fprintf(stderr, "# randbytes worker %d: %ld scripts, %ld crashed\n", w, n_runs, n_crash);
      _exit(n_crash ? 96 : 0);
    }
    pids.push_back(pid);
  }
  int bad = 0;
  for (pid_t pid : pids) {
    int st = 0;
    while (waitpid(pid, &st, 0) < 0 && errno == EINTR) {}
    if (!WIFEXITED(st) || WEXITSTATUS(st) != 0) bad = WIFEXITED(st) ? WEXITSTATUS(st) : 128 + WTERMSIG(st);
  }
  for (size_t t = 0; t < g_tasks.size(); t++) {
    FILE* in = fopen(fname(t).c_str(), "r");
    if (in) {
      static char buf[1 << 16]; size_t n;
      while ((n = fread(buf, 1, sizeof buf, in)) > 0) fwrite(buf, 1, n, stdout);
      fclose(in);
    } else bad = bad ? bad : 95;
    unlink(fname(t).c_str());
  }
  rmdir(dir);
  fflush(stdout);
  return bad;
}
