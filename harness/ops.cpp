// C03 correspondence harness: calls the functors of nfl/ops.hpp, nfl/opt/ops.hpp and the SSE/AVX2
// kernels *directly*, for boundary-directed and random operand tuples, on table rows, in every lane.
// Emits   <op> <w> <cm> <args> => <result>    one line per lane evaluation.
// Built three times: serial (-DNFL_OPTIMIZED), sse (… -DNTT_SSE -msse4.2), avx2 (… -DNTT_AVX2 -mavx2).
#include "common.hpp"
#include <cmath>
#include <algorithm>
#include <nfl.hpp>

using namespace vh;

template <class T> struct Case { T a, b, c; };

template <class T> static T rnd_below(Rng& g, T n) { return (T)g.below((uint64_t)n); }

// Operand pairs (x,y) in [0,p) hitting the boundary classes named in the property.
template <class T> static std::vector<Case<T>> pair_cases(T p, Rng& g, int nrand, bool structured = true) {
  std::vector<Case<T>> v;
  T specials[] = {0, 1, 2, (T)(p - 1), (T)(p - 2), (T)(p / 2), (T)(p / 2 + 1)};
  for (T x : specials) for (T y : specials) v.push_back({x, y, 0});
  for (int i = 0; i < nrand; i++) {
    T x = rnd_below<T>(g, p);
    // sums p-1, p, p+1
    if (x >= 1) { v.push_back({x, (T)(p - 1 - x), 0}); v.push_back({x, (T)(p - x), 0}); }
    if (x >= 2) v.push_back({x, (T)(p + 1 - x), 0});
    // products ≡ 1, p-1, and ≡ 0 only via zero (p prime)
    if (x != 0) { T ix = (T)invmod(x, p); v.push_back({x, ix, 0}); v.push_back({x, (T)(p - ix), 0}); }
    v.push_back({x, rnd_below<T>(g, p), 0});
    v.push_back({x, x, 0});
  }
  // structured magnitudes: operands 2^b, 2^b+1, 2^(b+1)-1, 3*2^(b-1) with b1+b2 around the limb width, so that the
  // products straddle p, 2p, 3p, 2^w and 2^(w+1) (half-limb fast paths, quotient digits, conditional subtractions)
  if (structured && !env_u64("VERIF_NOSTRUCT", 0)) {
    const int w = bits<T>();
    auto mags = [&](int b, T out[4]) {
      T one = 1;
      out[0] = (T)(one << b); out[1] = (T)((one << b) + 1);
      out[2] = (T)(((one << b) << 1) - 1); out[3] = b > 0 ? (T)(3 * (one << (b - 1))) : 1;
    };
    for (int b1 = 0; b1 <= w - 3; b1++)
      for (int s = w - 5; s <= w; s++) {
        int b2 = s - b1;
        if (b2 < 0 || b2 > w - 3) continue;
        T xs[4], ys[4]; mags(b1, xs); mags(b2, ys);
        for (T x : xs) for (T y : ys) if (x < p && y < p) v.push_back({x, y, 0});
      }
  }
  // integer products k*p + eps for small k with one small factor (true quotient tiny: "small operand" shortcuts, and the
  // number of conditional subtractions a reduction needs): x small, y = floor(k*p/x) + {0,1}
  if (structured) {
    using G = typename nfl::params<T>::greater_value_type;
    T smalls[] = {2, 3, 5, 7, (T)((1u << 10) + 1), (T)((1u << 13) + 3), (T)(bits<T>() > 32 ? ((1ull << 31) - 1) : 251), (T)(bits<T>() > 32 ? ((1ull << 33) + 7) : 16381)};
    for (T x : smalls) for (int k = 1; k <= 3; k++) {
      G kp = (G)k * p;
      T y0 = (T)(kp / x);
      for (T y : {y0, (T)(y0 + 1), (T)(y0 + 2)}) if (y < p && x < p) { v.push_back({x, y, 0}); v.push_back({y, x, 0}); }
    }
  }
  // worst case of a division-free quotient estimate (Barrett / Newton word, any variant that works on the high word of the
  // product): both operands in the top of the range (product, hence every truncation error proportional to it, maximal), the
  // low word of the integer product close to 2^w (the dropped part maximal) and x*y mod p tiny (no slack: an estimate that is
  // short by two leaves a remainder >= 2p, one conditional subtraction too few) — and the mirror case x*y mod p close to p.
  // Constructed: x in the top 1/16, y = e * x^-1 mod p for e in 0..63 and p-1-e; of the ~10^3 candidates the 6 per side with
  // the largest (low word, product) score are kept.  Every visited row gets them, heavy or not.
  {
    using G = typename nfl::params<T>::greater_value_type;
    const int w = bits<T>();
    struct Cand { double score; T x, y; };
    std::vector<Cand> lo, hi;
    for (int i = 0; i < 10; i++) {
      T x = (T)(p - 1 - rnd_below<T>(g, (T)(p / 16)));
      if (x == 0) continue;
      T ix = (T)invmod(x, p);
      for (unsigned e = 0; e < 64; e++) for (int side = 0; side < 2; side++) {
        T r = side ? (T)(p - 1 - e) : (T)e;
        T y = (T)(((G)r * ix) % p);
        G prod = (G)x * y;
        double low = (double)(T)prod / std::ldexp(1.0, w);              // dropped low word / 2^w
        double mag = (double)y / (double)p;                               // size of the product relative to its maximum
        (side ? hi : lo).push_back({low + mag, x, y});
      }
    }
    for (auto* L : {&lo, &hi}) {
      std::sort(L->begin(), L->end(), [](const Cand& a, const Cand& b) { return a.score > b.score; });
      for (size_t k = 0; k < 6 && k < L->size(); k++) { v.push_back({(*L)[k].x, (*L)[k].y, 0}); v.push_back({(*L)[k].y, (*L)[k].x, 0}); }
    }
  }
  for (auto& c : v) c.c = rnd_below<T>(g, p);
  v[0].c = (T)(p - 1); v[1].c = 0;
  return v;
}

// words x (not nec. < p) for the lazy Shoup product: x*y' mod W within ±2 of a multiple of W.
template <class T> static std::vector<Case<T>> shoup_cases(T p, Rng& g, int nrand) {
  using G = typename nfl::params<T>::greater_value_type;
  std::vector<Case<T>> v;
  const int w = bits<T>();
  for (int i = 0; i < nrand; i++) {
    T y = rnd_below<T>(g, p);
    if (i == 0) y = (T)(p - 1);
    if (i == 1) y = 1;
    if (i == 2) y = 0;
    T yp = (T)((((G)y) << w) / p);
    // lazy words
    v.push_back({(T)(p + rnd_below<T>(g, p)), y, 0});
    v.push_back({(T)(2 * p + rnd_below<T>(g, p)), y, 0});
    v.push_back({(T)(3 * p + rnd_below<T>(g, p)), y, 0});
    v.push_back({(T)(4 * p - 1), y, 0});
    v.push_back({(T)~(T)0, y, 0});
    v.push_back({(T)g.next(), y, 0});
    // x with x*y' ≡ eps (mod W), eps in {-2..2}: needs y' odd; make it so by retrying
    if (yp & 1) {
      // inverse of yp modulo 2^w by Newton iteration
      T inv = yp; for (int k = 0; k < 7; k++) inv = (T)(inv * (T)(2 - yp * inv));
      for (int e = -2; e <= 2; e++) v.push_back({(T)((T)e * inv), y, 0});
    }
    // remainder exactly at p-1, p, p+1 before the conditional subtraction cannot be constructed
    // directly; canonical x near multiples of the quotient boundary:
    T x = rnd_below<T>(g, p);
    v.push_back({x, y, 0});
  }
  // precomputed quotients whose exact value y*2^w/p is within eps/p of an integer: y = ±eps * (2^w)^-1 mod p.
  // (a quotient computed with rounding instead of floor is off by one exactly there), combined with the x that make
  // the product estimate most sensitive: 2^w-1, p-1, and x with x*(y'+1) ≡ small (mod 2^w)
  {
    T Wm = (T)((((G)1) << w) % p);
    T invW = (T)invmod(Wm, p);
    for (int e = 1; e <= 6; e++) for (int sgn = 0; sgn < 2; sgn++) {
      T eps = (T)e;
      T y = (T)(((G)(sgn ? (T)(p - eps) : eps) * invW) % p);
      T yp = (T)((((G)y) << w) / p);
      T xs[] = {(T)~(T)0, (T)(p - 1), (T)(p / 2), rnd_below<T>(g, p), 0, 0, 0};
      int nx = 4;
      T yq = (T)(yp + 1);
      if (yq & 1) {
        T inv = yq; for (int k = 0; k < 7; k++) inv = (T)(inv * (T)(2 - yq * inv));
        xs[nx++] = inv; xs[nx++] = (T)(2 * inv); xs[nx++] = (T)(3 * inv);
      }
      for (int i = 0; i < nx; i++) v.push_back({xs[i], y, 0});
    }
  }
  for (auto& c : v) c.c = rnd_below<T>(g, p);
  return v;
}

template <class T> static void line(const char* op, size_t cm, std::initializer_list<T> args, T res) {
  printf("%s %d %zu", op, bits<T>(), cm);
  for (T a : args) printf(" %llu", (unsigned long long)a);
  printf(" => %llu\n", (unsigned long long)res);
}

// ---- uniform invocation of scalar and vector functors -------------------------------------------
template <class F, class T, class = void> struct is_scalar2 : std::false_type {};
template <class F, class T>
struct is_scalar2<F, T, std::void_t<decltype(std::declval<F>()(std::declval<T>(), std::declval<T>(), size_t(0)))>>
    : std::is_same<decltype(std::declval<F>()(std::declval<T>(), std::declval<T>(), size_t(0))), T> {};

template <class M, class T> struct Lanes { static constexpr size_t n = M::template elt_count<T>::value; };

// Evaluate a K-ary functor on a batch of `n` cases; vector functors get the cases packed into
// registers, rotated by `rot` so that every case visits different lanes.
template <class F, class T, size_t K>
static void eval_batch(const char* op, size_t cm, std::vector<std::array<T, K>> const& cases, size_t rot) {
  using M = typename F::simd_mode;
  constexpr size_t L = Lanes<M, T>::n;
  if constexpr (L == 1) {
    for (auto const& c : cases) {
      T r;
      if constexpr (K == 1) r = F{}(c[0], cm);
      else if constexpr (K == 2) r = F{}(c[0], c[1], cm);
      else if constexpr (K == 3) r = F{}(c[0], c[1], c[2], cm);
      else r = F{}(c[0], c[1], c[2], c[3], cm);
      printf("%s %d %zu", op, bits<T>(), cm);
      for (size_t k = 0; k < K; k++) printf(" %llu", (unsigned long long)c[k]);
      printf(" => %llu\n", (unsigned long long)r);
    }
  } else {
    for (size_t base = 0; base < cases.size(); base += L) {
      alignas(32) T in[K][L];
      alignas(32) T out[L];
      size_t idx[L];
      for (size_t l = 0; l < L; l++) {
        idx[l] = (base + ((l + rot) % L)) % cases.size();
        for (size_t k = 0; k < K; k++) in[k][l] = cases[idx[l]][k];
      }
      if constexpr (K == 2) M::store(out, F{}(M::load(in[0]), M::load(in[1]), cm));
      else if constexpr (K == 3) M::store(out, F{}(M::load(in[0]), M::load(in[1]), M::load(in[2]), cm));
      else if constexpr (K == 4) M::store(out, F{}(M::load(in[0]), M::load(in[1]), M::load(in[2]), M::load(in[3]), cm));
      for (size_t l = 0; l < L; l++) {
        printf("%s %d %zu", op, bits<T>(), cm);
        for (size_t k = 0; k < K; k++) printf(" %llu", (unsigned long long)in[k][l]);
        printf(" => %llu\n", (unsigned long long)out[l]);
      }
      // vector-level record (lane structure visible to the SIMD model)
      printf("v%s %d %zu %zu", op, bits<T>(), cm, L);
      for (size_t k = 0; k < K; k++) for (size_t l = 0; l < L; l++) printf(" %llu", (unsigned long long)in[k][l]);
      printf(" =>");
      for (size_t l = 0; l < L; l++) printf(" %llu", (unsigned long long)out[l]);
      printf("\n");
    }
  }
}

template <class T> static void run_width(Rng& g, size_t quick_rows, int nrand) {
  using P = nfl::params<T>;
  using tag = CC_SIMD;
  using G = typename P::greater_value_type;
  const int w = bits<T>();
  if (env_u64("VERIF_ALLROWS", 0)) quick_rows = P::kMaxNbModuli;
  auto rows = rows_to_visit(P::kMaxNbModuli, quick_rows, g);
  const size_t nrot = thorough() ? 4 : 2;
  size_t row_no = 0;
  for (size_t cm : rows) {
    const T p = P::P[cm];
    // thorough tier visits every row; the full case set on the first 48 of them, a light one on the rest
    const bool heavy = !thorough() || row_no++ < 48;
    auto pc = pair_cases<T>(p, g, heavy ? nrand : 3, heavy);
    auto sc = shoup_cases<T>(p, g, heavy ? nrand : 3);
    std::vector<std::array<T, 2>> c2; std::vector<std::array<T, 3>> c3; std::vector<std::array<T, 1>> c1;
    for (auto& c : pc) { c2.push_back({c.a, c.b}); c3.push_back({c.c, c.a, c.b}); }
    for (size_t rot = 0; rot < nrot; rot++) {
      size_t r = (rot == 0) ? 0 : 1 + g.below(15);
      eval_batch<nfl::ops::addmod<T, tag>, T, 2>("addmod", cm, c2, r);
      eval_batch<nfl::ops::submod<T, tag>, T, 2>("submod", cm, c2, r);
      if (rot == 0) {
        eval_batch<nfl::ops::mulmod<T, tag>, T, 2>("mulmod", cm, c2, r);
        eval_batch<nfl::ops::muladd<T, tag>, T, 3>("muladd", cm, c3, r);
      }
    }
    // compute_shoup on arbitrary words
    for (auto& c : sc) c1.push_back({c.b});
    T words[] = {0, 1, (T)(p - 1), p, (T)(p + 1), (T)(2 * p - 1), (T)(2 * p), (T)(3 * p + 5), (T)(4 * p - 1), (T)~(T)0, (T)g.next(), (T)g.next()};
    for (T x : words) c1.push_back({x});
    eval_batch<nfl::ops::compute_shoup<T, tag>, T, 1>("cshoup", cm, c1, 0);
    // Shoup product / multiply-add with the companion computed by the library itself; the line carries
    // (x, y) only: the model recomputes y' (and cshoup lines above tie the two y' together).
    for (size_t rot = 0; rot < nrot; rot++) {
      size_t r = (rot == 0) ? 0 : 1 + g.below(15);
      std::vector<std::array<T, 3>> s3; std::vector<std::array<T, 4>> s4;
      auto add = [&](T x, T y, T z) {
        T yp = nfl::ops::compute_shoup<T, nfl::simd::serial>{}(y, cm);
        s3.push_back({x, y, yp}); s4.push_back({z, x, y, yp});
      };
      for (auto& c : sc) add(c.a, c.b, c.c);
      for (auto& c : pc) add(c.a, c.b, c.c);
      // emit with op names whose argument list omits y' (driver recomputes): use a filtering printer
      // -> we print full tuples under "mulshoup4"/"muladdshoup5"; driver checks y' too.
      eval_batch<nfl::ops::mulmod_shoup<T, tag>, T, 3>("mulshoup4", cm, s3, r);
      // muladd_shoup requires canonical x in CHECK builds? no: only asserted under CHECK_STRICTMOD (off here)
      eval_batch<nfl::ops::muladd_shoup<T, tag>, T, 4>("muladdshoup5", cm, s4, r);
    }
    (void)w; (void)sizeof(G);
  }
}

int main() {
  uint64_t seed = env_u64("VERIF_SEED", 1);
  Rng g(seed);
  printf("# ops backend=%s seed=%llu tier=%s\n", BACKEND_NAME, (unsigned long long)seed, thorough() ? "thorough" : "quick");
  int nrand = (int)env_u64("VERIF_NRAND", thorough() ? 40 : 12);
  run_width<uint16_t>(g, 2, (int)env_u64("VERIF_NRAND", thorough() ? 400 : 60));
  run_width<uint32_t>(g, 16, nrand);
  run_width<uint64_t>(g, 16, nrand);
  return 0;
}
